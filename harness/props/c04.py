"""C04 — suppression directives silence exactly what they name, in every linter.

Levels (DESIGN 3.2): leaf (the Coq string runtime against CPython), unit (the text-level model against
IgnoreDirectiveParser.should_ignore_violation on structured abstract files and on a malformed raw stream),
observable (directives inserted into files that really trigger several linters; violations before/after).
"""
from __future__ import annotations

import json
import re
from pathlib import Path

from harness import coq
from harness.common import (VERIF, drain_failures, ensure_repo_on_path, make_orchestrator, parse_json_violations, pool_map,
                            rng_for, run_cli, scratch_dir)
from harness.framework import Check

PROP = "C04"
FLAGS = ["q_splitlines_unicode", "q_next_line_hash_only", "q_file_hash_only", "q_block_end_before",
         "q_bare_line_unsupported", "q_bare_file_unsupported", "q_start_rules_from_code"]
HEADER = ("From Coq Require Import NArith.\nFrom TL Require Import Lib.Base Gen.IgnoreGen Model.PyStr Model.Ignore Model.IgnoreSpec Model.IgnoreRun "
          "Actual.IgnoreActual.\n")
# candidate indices of Model/IgnoreRun.v: candidates
C_ACTUAL, C_OFF0, C_SHARED, C_IDEAL = 0, 1, 8, 9
N_CANDS = 10

# rule ids used for queries at the unit level (a spread over linters, with and without a dotted suffix)
RULES = ["nesting.excessive-depth", "magic-numbers.numeric-literal", "srp.violation", "improper-logging.print-statement",
         "improper-logging.conditional-verbose", "lbyl.dict-key-check", "unwrap-abuse.unwrap-call", "cqs",
         "performance.regex-in-loop", "dry.duplicate-code", "file-placement", "stringly-typed.limited-values"]
ALIASES = {"improper-logging.print-statement": ["print-statements", "print-statements.*", "print-statements.detected"]}

PKG_OF_PREFIX = {"magic-numbers": "magic_numbers", "improper-logging": "print_statements", "nesting": "nesting", "srp": "srp",
                 "performance": "performance", "method-property": "method_property", "lbyl": "lbyl", "cqs": "cqs",
                 "unwrap-abuse": "unwrap_abuse", "clone-abuse": "clone_abuse", "blocking-async": "blocking_async",
                 "collection-pipeline": "collection_pipeline", "stateless-class": "stateless_class"}
NO_INLINE = {"lbyl", "cqs", "unwrap_abuse", "clone_abuse", "blocking_async"}
OWN_LINE = {"method_property"}
# linters exercised at the observable level only (no linter-level pattern stream): the two cross-file linters and file-header
XPKG = {"dry": "dry", "stringly-typed": "stringly_typed", "file-header": "file_header"}
FH_MISSING_MSG = "Missing mandatory field: docstring"   # Gen.fh_missing_field: the violation that bypasses file-header's violation filter
HEADER_LINE = {"py": '"""Purpose: demo module for the suppression check."""', "ts": "/** Purpose: demo module for the suppression check. */"}
EXTRA_KEYS = {"file_header_missing": "missing_header_unfiltered[file_header]"}


def pkg_of(v):
    """linter package (the key of Actual.pipeline_of) of a reported violation [rule id, line, column, message]"""
    p = prefix_of(v[0])
    if p == "file-header":
        return "file_header_missing" if len(v) > 3 and v[3] == FH_MISSING_MSG else "file_header"
    return PKG_OF_PREFIX.get(p) or XPKG[p]


def observed(rule_id):
    return prefix_of(rule_id) in PKG_OF_PREFIX or prefix_of(rule_id) in XPKG


def pipeline_keys(pkg):
    if pkg in NO_INLINE:
        return [f"no_inline_support[{pkg}]"]
    if pkg in OWN_LINE:
        return [f"own_line_check_only[{pkg}]"]
    if pkg in EXTRA_KEYS:
        return [EXTRA_KEYS[pkg]]
    return None


def place_queries(afile, moved):
    """moved: [rule, new line or None, column, message] per violation of the base file.  file-header reports on line 1 whatever
    stands there: it is queried on line 1 when that is a code line, at the first code line when line 1 is a file-level directive and
    the violation is the `no header` one (whose suppression does not depend on the line), and left out otherwise (a violation on a
    directive-only line is outside the domain).  Returns ([rule, query line, column, message, reported line] ..., drop_fh)"""
    first_code = next((k + 1 for k, l in enumerate(afile) if is_code(l)), None)
    out, drop = [], False
    for v in moved:
        if prefix_of(v[0]) == "file-header":
            if afile and is_code(afile[0]):
                out.append([v[0], 1, v[2], v[3], 1])
            elif afile and afile[0][0] == "File" and pkg_of(v) == "file_header_missing" and first_code:
                out.append([v[0], first_code, v[2], v[3], 1])
            else:
                drop = True
        else:
            out.append([v[0], v[1], v[2], v[3], v[1]])
    return out, drop


def match_after(placed, v1, drop_fh):
    """which of the placed violations are still reported (rule, reported line, column); returns (kept flags, unexplained new ones)"""
    remaining = [w for w in v1 if not (drop_fh and prefix_of(w[0]) == "file-header")]
    kept = []
    for sv in placed:   # message texts may quote the source line (which now carries the comment): match on rule, line, column
        hit = next((w for w in remaining if w[0] == sv[0] and w[1] == sv[4] and w[2] == sv[2]), None)
        if hit is not None:
            remaining.remove(hit)
        kept.append(hit is not None)
    return kept, remaining


# ------------------------------------------------------------------ Coq encoding (fast to parse: no unary numbers)
def cstr(s: str) -> str:
    b = s.encode("utf-8")
    if all(32 <= c < 127 for c in b):
        return '"' + s.replace('"', '""') + '"'
    return "(bytesN [" + ";".join(str(c) for c in b) + "]%N)"


def ctext(s: str) -> str:
    """a multi-line text: its \\n-separated pieces as literals"""
    return "(join_nl [" + "; ".join(cstr(x) for x in s.split("\n")) + "])"


# ------------------------------------------------------------------ abstract files
def cm(st):
    return "#" if st == "Hash" else "//"


def names_br(n):
    return "" if n is None else "[" + n + "]"


def render_line(l):
    k = l[0]
    if k == "Plain":
        return l[1]
    if k == "Same":
        return l[1] + "  " + cm(l[2]) + " thailint: ignore" + names_br(l[3])
    if k == "Next":
        return l[1] + cm(l[2]) + " thailint: ignore-next-line" + names_br(l[3])
    if k == "Start":
        tail = "" if l[4] is None else ("[" + l[4] + "]" if l[3] else " " + l[4])
        return l[1] + cm(l[2]) + " thailint: ignore-start" + tail
    if k == "End":
        return l[1] + cm(l[2]) + " thailint: ignore-end"
    if k == "File":
        return cm(l[1]) + " thailint: ignore-file" + names_br(l[2])
    raise ValueError(k)


def render(a):
    return "".join(render_line(l) + "\n" for l in a)


def coq_names(n):
    return "Bare" if n is None else f"(Names {cstr(n)})"


def coq_aline(l):
    k = l[0]
    if k == "Plain":
        return f"LPlain {cstr(l[1])}"
    if k == "Same":
        return f"LSame {cstr(l[1])} {l[2]} {coq_names(l[3])}"
    if k == "Next":
        return f"LNext {cstr(l[1])} {l[2]} {coq_names(l[3])}"
    if k == "Start":
        return f"LStart {cstr(l[1])} {l[2]} {coq.coq_bool(l[3])} {coq_names(l[4])}"
    if k == "End":
        return f"LEnd {cstr(l[1])} {l[2]}"
    return f"LFile {l[1]} {coq_names(l[2])}"


def coq_afile(a):
    return coq.coq_list([coq_aline(l) for l in a])


def is_code(l):
    return l[0] in ("Plain", "Same")


# ------------------------------------------------------------------ spellings
def prefix_of(rule):
    return rule.split(".")[0]


def recase(r, s):
    m = r.choice(["upper", "title", "rand", "same", "same"])
    if m == "upper":
        return s.upper()
    if m == "title":
        return s.title()
    if m == "rand":
        return "".join(c.upper() if r.random() < 0.5 else c for c in s)
    return s


def spelling(r, rule):
    """one way of writing `rule` that the property says must name it"""
    forms = [rule, prefix_of(rule), prefix_of(rule) + ".*"] + ALIASES.get(rule, [])
    return recase(r, r.choice(forms))


def names_text(r, target, positive, space_form=False):
    """a rule list naming `target` (positive) or only other rules; bracket lists may have several entries and blanks"""
    others = [x for x in RULES if prefix_of(x) != prefix_of(target)]
    items = [spelling(r, r.choice(others)) for _ in range(r.choice([0, 0, 1, 2]))]
    if positive:
        items.insert(r.randint(0, len(items)), spelling(r, target))
    elif not items:
        items = [spelling(r, r.choice(others))]
    if r.random() < 0.04:
        items = [r.choice(["*", prefix_of(target)[:3] + "*", "zz*"])]
    if space_form:
        return ",".join(items)
    sep = r.choice([",", ", ", " , ", ","])
    pad = r.choice(["", "", " "])
    return pad + sep.join(items) + pad


CODE_LINES = ["x = 4242", "    return compute(a, b)", "print('value')", "", "        ", "# plain comment", "s = 'text # not a comment'",
              "const a = 1; // note", "    if (a) {", "}", "def f(a, b):", "class Foo:", "    total += item.price * 3  # running sum",
              "let v = s.unwrap();", "    y = d[key]  # noqa", "caf\u00e9 = '\u4e2d\u6587'", "\tz = [1, 2, 3]", "fn main() {", "    pass"]
# code lines carrying one of str.splitlines' extra boundaries (legal in source text; the analysers do not break lines there)
BREAK_LINES = ["\x0c", "x = 1\x0c", "s = 'a\u2028b'", "# page\x0b", "t = '\x1c'", "u = '\x85'", "v = 2  # \x1d\x1e"]
INDENTS = ["", "", "    ", "        ", "\t", "  "]


def gen_afile(r, styles):
    """an abstract file with a mix of directive kinds; returns (alines, rules worth querying)"""
    n = r.choice([3, 5, 8, 12, 16, 22, 30])
    breaks = r.random() < 0.12
    mentioned = []

    def pick_names(space_form=False):
        if r.random() < 0.07:
            return None
        t = r.choice(RULES)
        mentioned.append(t)
        return names_text(r, t, r.random() < 0.75, space_form)

    a = []
    while len(a) < n:
        st = r.choice(styles)
        x = r.random()
        if x < 0.08 and len(a) < 14:
            a.append(["File", st, pick_names()])
        elif x < 0.20:
            a.append(["Same", r.choice(CODE_LINES), st, pick_names()])
        elif x < 0.28:
            a.append(["Next", r.choice(INDENTS), st, pick_names()])
            a.append(["Plain", r.choice(CODE_LINES)])
        elif x < 0.36:
            br = r.random() < 0.3
            a.append(["Start", r.choice(INDENTS), st, br, pick_names(space_form=not br)])
            for _ in range(r.choice([1, 2, 3])):
                a.append(["Plain", r.choice(CODE_LINES)])
            if r.random() < 0.85:
                a.append(["End", r.choice(INDENTS), st])
        elif x < 0.40:
            a.append(["End", r.choice(INDENTS), st])
        else:
            a.append(["Plain", r.choice(BREAK_LINES) if breaks and r.random() < 0.25 else r.choice(CODE_LINES)])
    rules = list(dict.fromkeys(mentioned))[:3]
    while len(rules) < 3:
        t = r.choice(RULES)
        if t not in rules:
            rules.append(t)
    return a, rules


# ------------------------------------------------------------------ unit level: the shared parser itself
_parser = None


def impl_unit(content: str, queries, on_disk: Path | None = None):
    """IgnoreDirectiveParser.should_ignore_violation for every (line, rule)"""
    global _parser
    ensure_repo_on_path()
    from src.core.types import Violation
    from src.linter_config.ignore import IgnoreDirectiveParser
    if _parser is None:
        _parser = IgnoreDirectiveParser(Path("/nonexistent-verif-root"))
    path = str(on_disk) if on_disk else "/nonexistent-verif-root/case.py"
    out = []
    for line, rule in queries:
        v = Violation(rule_id=rule, file_path=path, line=line, column=0, message="m")
        out.append(bool(_parser.should_ignore_violation(v, content)))
    return out


def unit_cases(seed, n):
    cases = []
    for i in range(n):
        r = rng_for(seed, PROP, "unit", i)
        styles = r.choice([["Hash"], ["Hash"], ["Hash"], ["Slashes"], ["Hash", "Slashes"]])
        a, rules = gen_afile(r, styles)
        qlines = [k + 1 for k, l in enumerate(a) if is_code(l)]
        qs = [(ln, rule) for ln in qlines for rule in rules]
        cases.append({"kind": "unit", "i": i, "afile": a, "content": render(a), "queries": qs, "pipes": ["PShared"] * len(qs),
                      "cross": (qlines, rules)})
    return cases


def two_state_cases(seed, n):
    """the SAME path analysed twice by one long-lived parser: first with text A, then - after an edit of the header directives - with
    text B.  What is suppressed must follow the current text only."""
    cases = []
    for i in range(n):
        r = rng_for(seed, PROP, "two-state", i)
        st = r.choice(["Hash", "Hash", "Slashes"])
        a, rules = gen_afile(r, [st])
        t = rules[0]
        first = [l for l in a if l[0] != "File"]
        second = list(first)
        mode = r.choice(["drop", "rename", "add", "move_out"])
        named, other = names_text(r, t, True), names_text(r, t, False)
        if mode == "drop":        # the header directive is deleted
            first = [["File", st, named]] + first
            second = [["Plain", "import os"]] + second
        elif mode == "rename":    # ... now names another rule
            first = [["File", st, named]] + first
            second = [["File", st, other]] + second
        elif mode == "add":       # ... is new
            first = [["Plain", "import os"]] + first
            second = [["File", st, named]] + second
        else:                     # ... moved below the header window
            first = [["File", st, named]] + first
            second = [["Plain", ""]] * 11 + [["File", st, named]] + second
        qlines = [k + 1 for k, l in enumerate(second) if is_code(l)][:12]
        qs = [(ln, rule) for ln in qlines for rule in rules]
        cases.append({"kind": "unit", "i": f"two-state:{i}", "afile": second, "content": render(second), "queries": qs, "pipes": ["PShared"] * len(qs),
                      "cross": (qlines, rules), "prior_afile": first, "two_state": mode})
    return cases


def impl_two_state(case, path: Path):
    """text A on disk and analysed, then text B written to the same path and analysed by the same parser"""
    prior = render(case["prior_afile"])
    path.write_bytes(prior.encode("utf-8"))
    impl_unit(prior, case["queries"], path)
    path.write_bytes(case["content"].encode("utf-8"))
    return impl_unit(case["content"], case["queries"], path)


UNICODE_BITS = ["\x0c", "\x0b", "\x1c", "\x1d", "\x1e", "\x85", "\u2028", "\u2029", "\r", "\r\n", "\xa0", "\u3000", "\u2003", "\x1f", "\t",
                "\u00e9", "\u4e2d", "\U0001f600", "\u00df", "\u1680", "\u205f", "\u202f"]
RAW_TWEAKS = ["case", "prose", "design", "space_form", "ctrl", "dup", "cut", "glue", "spaces", "all", "hashless"]


def raw_mutate(r, text: str) -> str:
    """malformed stream: textual edits of a rendered abstract file (keyword case, prose, control characters, ...)"""
    for _ in range(r.choice([1, 1, 2, 3])):
        t = r.choice(RAW_TWEAKS)
        lines = text.split("\n")
        k = r.randrange(len(lines))
        ln = lines[k]
        if t == "case":
            ln = re.sub(r"(thailint: )?ignore(-[a-z-]+)?", lambda m: recase(r, m.group(0)), ln, count=1)
        elif t == "prose":
            ln = ln + r.choice([" - legacy code", " because nesting is fine", " # reason", " -- see srp docs", " dry", "  "])
        elif t == "design":
            ln = ln.replace("thailint:", "design-lint:")
        elif t == "space_form":
            ln = re.sub(r"\[([^\]]*)\]", lambda m: " " + m.group(1).replace(",", r.choice([" ", ", ", ","])), ln, count=1)
        elif t == "ctrl":
            p = r.randint(0, len(ln))
            ln = ln[:p] + r.choice(UNICODE_BITS) + ln[p:]
        elif t == "dup":
            lines.insert(k, ln)
        elif t == "cut" and ln:
            p = r.randrange(len(ln))
            ln = ln[:p] + ln[p + r.choice([1, 1, 2, 5]):]
        elif t == "glue" and k + 1 < len(lines):
            ln = ln + lines.pop(k + 1)
        elif t == "spaces":
            ln = ln.replace(" thailint:", r.choice(["thailint:", "  thailint:", "\tthailint:"])).replace("thailint: ", r.choice(["thailint:", "thailint:  "]))
        elif t == "all":
            ln = ln + r.choice(["  # thailint: ignore-all", "  // thailint: ignore-all", " # thailint: ignore nesting srp", " // thailint: ignore dry,srp # x"])
        elif t == "hashless":
            ln = ln.replace("# thailint", r.choice(["thailint", "#thailint", "## thailint", "// # thailint"]))
        lines[k] = ln
        text = "\n".join(lines)
    if r.random() < 0.1:
        text = text.rstrip("\n")
    return text


def raw_cases(seed, n):
    cases = []
    for i in range(n):
        r = rng_for(seed, PROP, "raw", i)
        a, rules = gen_afile(r, r.choice([["Hash"], ["Slashes"], ["Hash", "Slashes"]]))
        content = raw_mutate(r, render(a))
        nl = len(content.splitlines())
        lines = sorted(set([0, 1, nl, nl + 1] + [r.randint(0, nl + 1) for _ in range(12)]))
        if r.random() < 0.1:
            rules = rules + ["lazy-ignores.unjustified", ""]
        qs = [(ln, rule) for ln in lines for rule in rules]
        cases.append({"kind": "raw", "i": i, "content": content, "queries": qs, "pipes": ["PShared"] * len(qs), "cross": (lines, rules)})
    return cases


# ------------------------------------------------------------------ leaf level
def leaf_strings(seed, n):
    out = []
    alpha = list("abIGNOREignore-startfileNEXTline[],# /:*.") + [" ", " ", "\t", ","] + UNICODE_BITS
    for i in range(n):
        r = rng_for(seed, PROP, "leaf", i)
        if r.random() < 0.5:
            a, _ = gen_afile(r, ["Hash", "Slashes"])
            s = raw_mutate(r, render(a[:4]))
        else:
            s = "".join(r.choice(alpha) for _ in range(r.randint(0, 40)))
        out.append(s)
    return out


def leaf_expected(s: str):
    def grp(pat, flags=0):
        m = re.search(pat, s, flags)
        return [m.group(1)] if m else []
    return [s.splitlines(), [s.lower()], [s.strip()], [t for t in re.split(r"[,\s]+", s) if t], s.split(","),
            grp(r"ignore\[([^\]]+)\]", re.I), grp(r"ignore\s+([^\s#]+(?:\s+[^\s#]+)*)", re.I), grp(r"ignore-start\s+([^\s#]+(?:\s+[^\s#]+)*)")]


# ------------------------------------------------------------------ observable level: real linters, before / after
PY_BLOCKS = [
    ["class Holder{n}:", "    def __init__(self):", "        self._x = 0", "", "    def get_x(self):", "        return self._x", "",
     "    def total(self, items):", "        result = \"\"", "        for it in items:", "            result += str(it)", "        return result"],
    ["def deep{n}(a, b):", "    if a:", "        for i in b:", "            while i:", "                if i > a:",
     "                    with open(i) as f:", "                        return 4242", "    return 0"],
    ["def show{n}(d, key):", "    print(\"value\")", "    if key in d:", "        return d[key]", "    return 777"],
    ["def find_all{n}(patterns, text):", "    for p in patterns:", "        re.match(p, text)", "    return 31337"],
    ["def fetch_and_log{n}(db, key):", "    value = db.get(key)", "    db.touch(key)", "    return value"],
    ["class Many{n}:", "    def __init__(self):", "        self.v = 1", ""] + [f"    def m{k}(self):\n        return self.v + {k}" for k in range(1, 10)],
    ["def scale{n}(x):", "    y = x * 86400", "    return y"],
    ["def keep{n}(items):", "    out = []", "    for it in items:", "        if not it.ok:", "            continue", "        out.append(it.value)", "    return out"],
    ["class Util{n}:", "    def helper(self, a):", "        return a * 2", "", "    def other(self, b):", "        return b + 1"],
]
TS_BLOCKS = [
    ["class Holder{n} {", "  private x: number = 0;"] + [f"  a{k}() {{ return this.x; }}" for k in range(1, 10)] + ["}"],
    ["function deep{n}(a: number, b: number[]) {", "  if (a) {", "    for (const i of b) {", "      while (i) {", "        if (i > a) {",
     "          try {", "            return 4242;", "          } catch (e) {", "            return 0;", "          }", "        }", "      }", "    }", "  }",
     "  return 0;", "}"],
    ["function show{n}(d: any, key: string) {", "  console.log(\"value\");", "  return 777;", "}"],
    ["function scale{n}(x: number) {", "  const y = x * 86400;", "  return y;", "}"],
]
RS_BLOCKS = [
    ["fn deep{n}(a: i32, b: Vec<i32>) -> i32 {", "    if a > 0 {", "        for i in b.iter() {", "            while *i > 0 {",
     "                if *i > a {", "                    loop {", "                        return 4242;", "                    }", "                }",
     "            }", "        }", "    }", "    0", "}"],
    ["fn risky{n}(s: Option<i32>) -> i32 {", "    let v = s.unwrap();", "    let w = s.expect(\"present\");", "    v + w", "}"],
    ["fn cloner{n}(items: Vec<String>) -> usize {", "    let mut n = 0;", "    for it in items.iter() {", "        let c = it.clone();",
     "        n += c.len();", "    }", "    n", "}"],
    ["async fn blocky{n}() -> String {", "    let s = std::fs::read_to_string(\"a.txt\").unwrap_or_default();",
     "    std::thread::sleep(std::time::Duration::from_secs(1));", "    s", "}"],
]
LANGS = {"py": (PY_BLOCKS, ".py", "Hash", ["import re", "import logging", ""]),
         "ts": (TS_BLOCKS, ".ts", "Slashes", ["import { x } from './x';", ""]),
         "rs": (RS_BLOCKS, ".rs", "Slashes", ["use std::fs;", ""])}


def base_file(r, lang):
    blocks, _, _, head = LANGS[lang]
    lines = list(head) if r.random() < 0.7 else []
    order = list(range(len(blocks)))
    r.shuffle(order)
    for n, bi in enumerate(order[: r.randint(2, len(blocks))]):
        for l in blocks[bi]:
            lines.extend(l.replace("{n}", str(n)).split("\n"))
        lines.extend([""] * r.choice([1, 2]))
        if lang == "py" and r.random() < 0.06:
            lines.append("\x0c")   # page break: white space for Python, a line boundary for str.splitlines
    if r.random() < 0.3:   # push code beyond the header window
        lines = [""] * r.randint(8, 12) + lines
    if lang in HEADER_LINE and r.random() < 0.25:   # a one-line file header on line 1: file-header then reports missing fields (filtered path)
        lines = [HEADER_LINE[lang]] + lines
    return lines


# cross-file stream: file A (generated, carries the directive) and a fixed partner B that repeats A's status chain (stringly-typed) and
# exactly four code lines of A's accumulation loop (dry, min_duplicate_lines = 4: one window, so one violation, wherever comments go)
X_BLOCKS = {
    "py": [["def handle_status{n}(status):", "    if status == \"active\":", "        return 1", "    elif status == \"pending\":", "        return 2",
            "    elif status == \"closed\":", "        return 3", "    return 0"],
           ["def proc_a{n}(items, limit):", "    total = 0", "    for item in items:", "        if item.price > limit:",
            "            total += item.price * item.count", "    return total"]],
    "ts": [["function handleStatus{n}(status: string): number {", "  if (status === \"active\") {", "    return 1;", "  } else if (status === \"pending\") {",
            "    return 2;", "  } else if (status === \"closed\") {", "    return 3;", "  }", "  return 0;", "}"],
           ["function procA{n}(items: Item[], limit: number): number {", "  let total = 0;", "  for (const item of items) {", "    if (item.price > limit) {",
            "      total += item.price * item.count;", "    }", "  }", "  return total;", "}"]],
}
X_PARTNER = {
    "py": "import sys\n\n\ndef check_status(status):\n    if status == \"active\":\n        return 10\n    elif status == \"pending\":\n        return 20\n"
          "    elif status == \"closed\":\n        return 30\n    return 0\n\n\ndef other_b(things, cap):\n    count = len(things)\n    total = 0\n"
          "    for item in items:\n        if item.price > limit:\n            total += item.price * item.count\n    print(total, count)\n",
    "ts": "import { y } from './y';\n\nfunction checkStatus(status: string): number {\n  if (status === \"active\") {\n    return 10;\n"
          "  } else if (status === \"pending\") {\n    return 20;\n  } else if (status === \"closed\") {\n    return 30;\n  }\n  return 0;\n}\n\n"
          "function otherB(things: Item[], cap: number): void {\n  const count = things.length;\n  let total = 0;\n  for (const item of items) {\n"
          "    if (item.price > limit) {\n      total += item.price * item.count;\n    }\n  }\n  console.log(total, count);\n}\n",
}
X_CONFIG = {"dry": {"enabled": True, "min_duplicate_lines": 4}}


def xfile_base(r, lang):
    blocks, _, _, head = LANGS[lang]
    chosen = [list(b) for b in X_BLOCKS[lang]] + [blocks[bi] for bi in r.sample(range(len(blocks)), r.randint(0, 2))]
    r.shuffle(chosen)
    lines = list(head) if r.random() < 0.7 else []
    for n, b in enumerate(chosen):
        for l in b:
            lines.extend(l.replace("{n}", str(n)).split("\n"))
        lines.extend([""] * r.choice([1, 2]))
    if r.random() < 0.25:
        lines = [""] * r.randint(8, 12) + lines
    if r.random() < 0.2:
        lines = [HEADER_LINE[lang]] + lines
    return lines


def lint_pair(text: str, ext: str):
    """file A next to its partner B, linted together by a fresh Orchestrator (lint_files: the cross-file linters report in finalize);
    returns the violations reported for A"""
    ensure_repo_on_path()
    from src.orchestrator.core import Orchestrator
    from harness.common import install_failure_tap
    install_failure_tap()
    lang = next(k for k, v in LANGS.items() if v[1] == ext)
    with scratch_dir("tv-c04-x-") as d:
        fa, fb = d / ("case_a" + ext), d / ("partner_b" + ext)
        fa.write_text(text, encoding="utf-8")
        fb.write_text(X_PARTNER[lang], encoding="utf-8")
        vs = Orchestrator(project_root=d, config=json.loads(json.dumps(X_CONFIG))).lint_files([fa, fb])
        out = sorted([v.rule_id, v.line, v.column, v.message] for v in vs if observed(v.rule_id) and Path(v.file_path).name == fa.name)
        return out, drain_failures()


_orch = None


def lint_text(text: str, ext: str):
    """every violation the orchestrator reports for one file (in process), restricted to the linters exercised here"""
    global _orch
    with scratch_dir("tv-c04-") as d:
        f = d / ("case" + ext)
        f.write_text(text, encoding="utf-8")
        if _orch is None:
            _orch = make_orchestrator(d, {})
        _orch.project_root = d
        vs = _orch.lint_file(f)
        out = sorted([v.rule_id, v.line, v.column, v.message] for v in vs if observed(v.rule_id))
        return out, drain_failures()


def obs_plan(r, lang, base, v0, prefer=()):
    """choose directives to insert; returns alines with back-pointers: list of (aline, orig base index or None)"""
    _, _, st, _ = LANGS[lang]
    a = [(["Plain", l], i) for i, l in enumerate(base)]
    rare = [v for v in v0 if pkg_of(v) in ("cqs", "lbyl", "clone_abuse", "srp", "performance", "collection_pipeline", "stateless_class",
                                           "dry", "stringly_typed", "file_header", "file_header_missing")]
    if prefer:   # the cross-file stream is there for the cross-file linters
        rare = [v for v in v0 if pkg_of(v) in prefer] or rare
    target = r.choice(rare) if rare and r.random() < (0.7 if prefer else 0.3) else r.choice(v0)   # keep the linters with few violations per file covered
    trule, tline = target[0], target[1]
    others = [x for x in RULES if prefix_of(x) != prefix_of(trule)]

    def nm(space_form=False):
        x = r.random()
        if x < 0.12:
            return None, "bare"
        pos = x < 0.72
        items = [spelling(r, trule)] if pos else [spelling(r, r.choice(others))]
        if r.random() < 0.3:
            items.insert(r.randint(0, 1), spelling(r, r.choice(others)))
        return ((",".join(items)) if space_form else ", ".join(items)), ("named" if pos else "other")

    def pos_of(orig):
        return next(k for k, (_, o) in enumerate(a) if o == orig)

    form = r.choice(["same", "same", "next", "next", "block", "block", "file_in", "file_out", "far_same", "far_next", "block_before", "block_after"])
    indent = r.choice(INDENTS[:4])
    n, how = nm(space_form=form.startswith("block") and r.random() < 0.7)
    if form in ("same", "far_same"):
        tl = tline - 1
        if form == "far_same":
            cand = [i for i in range(len(base)) if i != tl and base[i].strip() and not any(v[1] - 1 == i and v[0] == trule for v in v0)]
            if not cand:
                return None
            tl = r.choice(cand)
        k = pos_of(tl)
        a[k] = (["Same", base[tl], st, n], tl)
    elif form in ("next", "far_next"):
        k = pos_of(tline - 1)
        if form == "far_next":
            if k < 1:
                return None
            k -= 1
        a.insert(k, (["Next", indent, st, n], None))
    elif form in ("block", "block_before", "block_after"):
        k = pos_of(tline - 1)
        if form == "block":
            s, e = max(0, k - r.randint(0, 3)), min(len(a), k + 1 + r.randint(0, 3))
        elif form == "block_before":
            if k < 2:
                return None
            e = k - r.randint(0, min(2, k - 1))
            s = max(0, e - r.randint(1, 3))
        else:
            s = min(len(a), k + 1 + r.randint(0, 2))
            e = min(len(a), s + r.randint(1, 3))
        space = "[" not in (n or "") and r.random() < 0.7
        br = not space
        if n is not None and not br:
            n = n.replace(", ", ",")
        a.insert(e, (["End", indent, st], None))
        a.insert(s, (["Start", indent, st, br, n], None))
    elif form == "file_in":
        a.insert(r.randint(0, min(9, len(a))), (["File", st, n], None))
    elif form == "file_out":
        if len(a) < 12:
            return None
        a.insert(r.randint(10, len(a)), (["File", st, n], None))
    return {"form": form, "how": how, "target": target, "alines": a}


def obs_cases(seed, n):
    cases = []
    for i in range(n):
        r = rng_for(seed, PROP, "obs", i)
        lang = r.choice(["py", "py", "ts", "rs"])
        base = base_file(r, lang)
        cases.append({"i": i, "lang": lang, "base": base, "seed": seed})
    for i in range(max(4, n // 12)):   # same path linted twice by one long-lived Orchestrator, header directive edited in between
        r = rng_for(seed, PROP, "obs2", i)
        lang = r.choice(["py", "py", "ts", "rs"])
        cases.append({"i": f"two-state:{i}", "lang": lang, "base": [l for l in base_file(r, lang) if l not in HEADER_LINE.values()], "seed": seed,
                      "two_state": True})
    for i in range(max(6, n // 5)):   # the cross-file linters: dry and stringly-typed report on file A because of its partner file B
        r = rng_for(seed, PROP, "obsx", i)
        lang = r.choice(["py", "py", "ts"])
        cases.append({"i": f"xfile:{i}", "lang": lang, "base": xfile_base(r, lang), "seed": seed, "xfile": True})
    return cases


def run_obs_two_state(case):
    """one path, one long-lived Orchestrator: first linted with a file-level directive naming the target's rule, then - header edited -
    linted again; the second result is judged against the second text"""
    global _orch
    lang, base = case["lang"], case["base"]
    ext, st = LANGS[lang][1], LANGS[lang][2]
    r = rng_for(case["seed"], PROP, "obs-two-state", case["i"])
    v0, fails0 = lint_text("".join(l + "\n" for l in ["", *base]), ext)   # one spare first line: the header edit keeps every line number
    if not v0:
        return {"skip": "base file has no violation", **case}
    target = r.choice(v0)
    trule = target[0]
    others = [x for x in RULES if prefix_of(x) != prefix_of(trule)]
    mode = r.choice(["drop", "rename", "add"])
    f1 = ["File", st, spelling(r, trule)]
    first = {"drop": f1, "rename": f1, "add": ["Plain", ""]}[mode]
    second = {"drop": ["Plain", ""], "rename": ["File", st, spelling(r, r.choice(others))], "add": f1}[mode]
    body = [["Plain", l] for l in base]
    with scratch_dir("tv-c04-two-") as d:
        f = d / ("case" + ext)
        if _orch is None:
            _orch = make_orchestrator(d, {})
        _orch.project_root = d
        outs = []
        for head in (first, second):
            f.write_text(render([head] + body), encoding="utf-8")
            outs.append(sorted([v.rule_id, v.line, v.column, v.message] for v in _orch.lint_file(f) if observed(v.rule_id)))
        fails = drain_failures()
    afile = [second] + body
    v1 = outs[1]
    placed, drop_fh = place_queries(afile, v0)
    kept, remaining = match_after(placed, v1, drop_fh)
    return {"kind": "obs", "i": case["i"], "lang": lang, "form": "two_state_" + mode, "how": "named", "target": target,
            "afile": afile, "content": render(afile), "queries": [(sv[1], sv[0]) for sv in placed],
            "pipes": [f'(pipeline_of {coq.coq_string(pkg_of(sv))} {coq.coq_string(lang)})' for sv in placed],
            "pkgs": [pkg_of(sv) for sv in placed],
            "impl": [not k for k in kept], "new_violations": remaining, "failures": fails0 + fails, "v0": v0, "v1": v1, "base": base, "via": "api",
            "obs_case": {"i": case["i"], "lang": lang, "base": base, "seed": case["seed"], "two_state": True},
            "first_state": render([first] + body)}


def run_obs(case):
    """before/after on the implementation; returns the judged-case payload or a skip reason"""
    if case.get("two_state"):
        return run_obs_two_state(case)
    if case.get("witness"):
        return run_obs_witness(case)
    lang, base = case["lang"], case["base"]
    ext = LANGS[lang][1]
    lint = lint_pair if case.get("xfile") else lint_text
    r = rng_for(case["seed"], PROP, "obs-plan", case["i"])
    v0, fails0 = lint("".join(l + "\n" for l in base), ext)
    if case.get("xfile") and sorted(pkg_of(v) for v in v0 if pkg_of(v) in ("dry", "stringly_typed")).count("dry") != 1:
        return {"skip": "cross-file base without exactly one dry violation (generator)", **case}
    if not v0:
        return {"skip": "base file has no violation", **case}
    plan = None
    for _ in range(6):
        plan = obs_plan(r, lang, base, v0, prefer=("dry", "stringly_typed") if case.get("xfile") else ())
        if plan:
            break
    if not plan:
        return {"skip": "no placement possible", **case}
    return finish_obs(case, plan["alines"], v0, fails0, plan["form"], plan["how"], plan["target"], lint)


def finish_obs(case, al, v0, fails0, form, how, target, lint):
    """lint the file with the directives in place and pair every violation of the base file with its fate"""
    lang, base = case["lang"], case["base"]
    ext = LANGS[lang][1]
    afile = [x for x, _ in al]
    newline = {o: k + 1 for k, (_, o) in enumerate(al) if o is not None}
    content = render(afile)
    v1, fails1 = lint(content, ext)
    shifted, drop_fh = place_queries(afile, [[v[0], newline[v[1] - 1], v[2], v[3]] for v in v0])
    kept, remaining = match_after(shifted, v1, drop_fh)
    return {"kind": "obs", "i": case["i"], "lang": lang, "form": form, "how": how, "target": target,
            "afile": afile, "content": content, "queries": [(sv[1], sv[0]) for sv in shifted],
            "pipes": [f'(pipeline_of {coq.coq_string(pkg_of(sv))} {coq.coq_string(lang)})' for sv in shifted],
            "pkgs": [pkg_of(sv) for sv in shifted],
            "impl": [not k for k in kept], "new_violations": remaining, "failures": fails0 + fails1, "v0": v0, "v1": v1, "base": base,
            "via": "cli" if isinstance(case["i"], int) and case["i"] % 18 == 0 else "api",
            "obs_case": {k: case[k] for k in ("i", "lang", "base", "seed", "xfile", "witness") if k in case}}


def run_obs_witness(case):
    """a fixed abstract file (corpus/C04/obs_*.json): the base file is the file without its directives"""
    afile = case["witness"]
    al, base = [], []
    for l in afile:
        if is_code(l):
            al.append((l, len(base)))
            base.append(l[1])
        else:
            al.append((l, None))
    case = dict(case, base=base)
    lint = lint_pair if case.get("xfile") else lint_text
    v0, fails0 = lint("".join(x + "\n" for x in base), LANGS[case["lang"]][1])
    if not v0:
        return {"skip": "witness base file has no violation", **case}
    return finish_obs(case, al, v0, fails0, "witness", "named", v0[0], lint)


# ------------------------------------------------------------------ file-pattern level (validated only: fnmatch is an oracle)
CONFIG_KEY = {"magic_numbers": "magic-numbers", "print_statements": "print-statements", "nesting": "nesting", "srp": "srp",
              "performance": "performance", "method_property": "method-property", "lbyl": "lbyl", "unwrap_abuse": "unwrap-abuse",
              "clone_abuse": "clone-abuse", "blocking_async": "blocking-async", "collection_pipeline": "collection-pipeline",
              "stateless_class": "stateless-class"}
# how the linter-level `ignore:` list is treated by the current tree where it deviates from "glob pattern matching the file"
PATTERN_MODE = {"nesting": "never", "performance": "never", "lbyl": "never", "stateless_class": "never",
                "srp": "substring", "unwrap_abuse": "substring", "clone_abuse": "substring", "blocking_async": "substring"}
CLI_CMD = {"nesting": "nesting", "magic_numbers": "magic-numbers", "srp": "srp", "print_statements": "improper-logging", "performance": "perf",
           "method_property": "method-property", "lbyl": "lbyl", "unwrap_abuse": "unwrap-abuse", "clone_abuse": "clone-abuse",
           "blocking_async": "blocking-async", "collection_pipeline": "pipeline", "stateless_class": "stateless-class"}


def _lint_in(root: Path, f: Path, cfg: dict):
    ensure_repo_on_path()
    from src.orchestrator.core import Orchestrator
    from harness.common import install_failure_tap
    install_failure_tap()
    vs = Orchestrator(project_root=root, config=cfg).lint_file(f)
    return sorted([v.rule_id, v.line, v.column] for v in vs if prefix_of(v.rule_id) in PKG_OF_PREFIX)


def run_patterns(case):
    """repository-level (.thailintignore) and linter-level (`ignore:` in the linter's config section) patterns on one file"""
    lang, base = case["lang"], case["base"]
    ext = LANGS[lang][1]
    text = "".join(l + "\n" for l in base)
    out = []
    with scratch_dir("tv-c04-pat-") as d:
        name = "case" + ext

        def lint(cfg, ignorefile=None):
            with scratch_dir("tv-c04-patr-") as root:
                f = root / name
                f.write_text(text, encoding="utf-8")
                if ignorefile is not None:
                    (root / ".thailintignore").write_text(ignorefile)
                return _lint_in(root, f, cfg)
        v0 = lint({})
        if not v0:
            return {"skip": True, "results": []}
        pats = [(name, True), ("*" + ext, True), ("zzz/*" + ext, False)]
        for pat, matches in pats:
            got = lint({}, pat + "\n")
            out.append({"level": "repo", "pattern": pat, "matches": matches, "before": v0, "after": got, "expected": [] if matches else v0, "pkg": None})
        # directory patterns: whole path components only (`gen/` covers gen/x and src/gen/x, not src/codegen/x nor src/regen_x);
        # given in .thailintignore and in the `ignore:` list of .thailint.yaml
        for sub, fname, pat, matches in [("gen", name, "gen/", True), ("src/gen", name, "gen/", True), ("src/codegen", name, "gen/", False),
                                         ("src", "regen_" + name, "gen/", False), ("src/gen2", name, "gen/", False), ("src/gen", name, "src/gen/", True),
                                         ("src/gen", name, "**/gen/", True), ("lib/vendor", name, "vendor/", True), ("lib/vendored", name, "vendor/", False)]:
            for via in ("thailintignore", "config"):
                with scratch_dir("tv-c04-patd-") as root:
                    (root / sub).mkdir(parents=True, exist_ok=True)
                    f = root / sub / fname
                    f.write_text(text, encoding="utf-8")
                    if via == "thailintignore":
                        (root / ".thailintignore").write_text(pat + "\n")
                    else:
                        (root / ".thailint.yaml").write_text("ignore:\n  - \"" + pat + "\"\n")
                    got = _lint_in(root, f, {})
                out.append({"level": "repo-dir:" + via, "pattern": f"{pat} on {sub}/{fname}", "matches": matches, "before": v0, "after": got,
                            "expected": [] if matches else v0, "pkg": None})
        # linter-level `ignore:` lists, for every linter with violations in this file: as a config dict and through .thailint.yaml, in both
        # key spellings (magic-numbers / magic_numbers), with and without a per-language sub-section next to the list
        import yaml
        langsec = {"py": "python", "ts": "typescript", "rs": "rust"}[lang]
        for pkg in sorted({PKG_OF_PREFIX[prefix_of(v[0])] for v in v0} & set(CONFIG_KEY)):
            mine = [v for v in v0 if PKG_OF_PREFIX[prefix_of(v[0])] == pkg]
            rest = [v for v in v0 if PKG_OF_PREFIX[prefix_of(v[0])] != pkg]
            key = CONFIG_KEY[pkg]
            variants = [("dict", key, False)] + [("yaml", k, sub) for k in dict.fromkeys([key, key.replace("-", "_")]) for sub in (False, True)] \
                + [("dict", key, True)]
            for via, k, sub in variants:
                for pat, matches in pats:
                    section = {"ignore": [pat]}
                    if sub:
                        section[langsec] = {"enabled": True}
                    if via == "dict":
                        got = lint({k: section})
                    else:
                        with scratch_dir("tv-c04-paty-") as root:
                            f = root / name
                            f.write_text(text, encoding="utf-8")
                            (root / ".thailint.yaml").write_text(yaml.safe_dump({k: section}))
                            got = _lint_in(root, f, None)
                    out.append({"level": "linter", "pkg": pkg, "pattern": pat, "matches": matches, "literal": "*" not in pat and matches,
                                "before": v0, "after": got, "expected": rest if matches else v0, "mine": mine,
                                "config": {k: section}, "via": via})
    return {"skip": False, "results": out, "failures": drain_failures(), "text": text, "lang": lang}


def decide_patterns(chk, res):
    if res.get("failures"):
        chk.violation({"reason": "a rule failed internally (swallowed exception) during a pattern run", "failures": res["failures"][:3]})
    for r in res["results"]:
        chk.count([res["text"], r["level"], r["pkg"], r["pattern"], r.get("config"), r.get("via")], r["matches"])
        chk.dist(f"pattern:{r['level']}:{r['pkg'] or 'repo'}:{'match' if r['matches'] else 'nomatch'}")
        chk.traces_validated += 1
        if r["after"] == r["expected"]:
            continue
        info = {"reason": "an ignore pattern did not remove exactly the violations it covers", "level": "pattern:" + r["level"], "linter": r["pkg"],
                "pattern": r["pattern"], "config": r.get("config"), "given_as": r.get("via"), "file": "case" + LANGS[res["lang"]][1], "content": res["text"], "before": r["before"], "after": r["after"], "expected": r["expected"]}
        mode = PATTERN_MODE.get(r["pkg"])
        if r["level"] == "linter" and mode == "never" and r["after"] == r["before"]:
            chk.known_finding(f"linter_ignore_never[{r['pkg']}]", info)
        elif r["level"] == "linter" and mode == "substring" and r["after"] == r["before"] and not r["literal"]:
            chk.known_finding(f"linter_ignore_substring[{r['pkg']}]", info)
        else:
            chk.violation(info)


def run_cli_pair(case):
    """the observe_at of the property: `thailint <linter> --format json` before and after, for the linter of the target violation"""
    pkg = PKG_OF_PREFIX.get(prefix_of(case["target"][0]))   # the linters of the pattern table; the others are exercised in process only
    cmd = CLI_CMD.get(pkg)
    if not cmd:
        return None
    ext = LANGS[case["lang"]][1]
    res = []
    with scratch_dir("tv-c04-cli-") as d:
        for tag, text in (("before", "".join(l + "\n" for l in case["base"])), ("after", case["content"])):
            f = d / (tag + ext)
            f.write_text(text, encoding="utf-8")
            rc, so, se = run_cli([cmd, "--format", "json", str(f)], cwd=d)
            vs = parse_json_violations(so)
            if vs is None or rc not in (0, 1):
                return {"error": f"{tag}: rc={rc} stdout={so[:200]} stderr={se[-300:]}", "cmd": cmd}
            res.append(sorted([v["rule_id"], v["line"], v["column"]] for v in vs if PKG_OF_PREFIX.get(prefix_of(v["rule_id"])) == pkg))
    return {"cmd": cmd, "pkg": pkg, "before": res[0], "after": res[1]}


# ------------------------------------------------------------------ linter-level patterns against the matcher model (Model/IgnorePat.v)
PAT_HEADER = ("From TL Require Import Lib.Base Gen.IgnoreGen Model.CollectStr Model.Glob Model.Collect Model.CollectSpec Model.IgnorePat "
              "Actual.IgnorePatActual.\n")
PLACEMENTS = [["case{e}"], ["src", "case{e}"], ["src", "showcase{e}"], ["legacy", "case{e}"], ["legacy", "deep", "case{e}"], ["src", "gen", "case{e}"],
              ["src", "codegen", "case{e}"], ["src", "regen_case{e}"], ["lib", "vendorlib", "table_constants{e}"], ["src", "gen2", "x_constants{e}"]]


def doc_patterns(r, ext):
    """patterns in the documented forms of Model/CollectSpec.v (pat): (Coq term, rendered text)"""
    lst = lambda xs: coq.coq_list([cstr(x) for x in xs])
    out = [(f"(PSuffix {cstr(ext)})", "*" + ext), (f'(PSuffix {cstr("_constants" + ext)})', "*_constants" + ext), (f'(PSuffix {cstr("case" + ext)})', "*case" + ext),
           (f'(PAnySuffix {cstr("_constants" + ext)})', "**/*_constants" + ext), (f"(PAnySuffix {cstr(ext)})", "**/*" + ext)]
    for d in (["legacy"], ["src"], ["src", "gen"], ["gen"]):
        out.append((f"(PUnder {lst(d)})", "/".join(d) + "/**"))
    for n in ("gen", "legacy", "src", "vendorlib", "vendor"):
        out.append((f"(PDir {cstr(n)})", n + "/"))
        out.append((f"(PAnyDir {cstr(n)})", "**/" + n + "/"))
    for d in (["src", "gen"], ["legacy", "deep"]):
        out.append((f"(PDirPath {lst(d)})", "/".join(d) + "/"))
    for f in (["case" + ext], ["src", "case" + ext], ["legacy", "deep", "case" + ext], ["src", "gen"]):
        out.append((f"(PExact {lst(f)})", "/".join(f)))
    for raw in ("src/ca?e" + ext, "s[rq]c/*" + ext, "legacy/*/case" + ext, "*/gen/*", "src/*case" + ext, "case.??"):
        out.append((f"(PRaw {cstr(raw)})", raw))
    r.shuffle(out)
    return out


def run_pattern_model(case):
    """every linter's `ignore:` list set to one documented-form pattern, for files placed at several project-relative paths"""
    lang, base = case["lang"], case["base"]
    ext = LANGS[lang][1]
    text = "".join(l + "\n" for l in base)
    r = rng_for(case["seed"], PROP, "patmodel", case["i"])
    pats = doc_patterns(r, ext)[: case.get("npat", 14)]
    rows = []
    for pl in PLACEMENTS:
        comps = [c.replace("{e}", ext) for c in pl]
        with scratch_dir("tv-c04-pm-") as root:
            f = root.joinpath(*comps)
            f.parent.mkdir(parents=True, exist_ok=True)
            f.write_text(text, encoding="utf-8")
            v0 = _lint_in(root, f, {})
            pkgs = sorted({PKG_OF_PREFIX[prefix_of(v[0])] for v in v0} & set(CONFIG_KEY))
            for term, patt in pats:
                got = _lint_in(root, f, {CONFIG_KEY[k]: {"ignore": [patt]} for k in pkgs})
                for k in pkgs:
                    mine0 = [v for v in v0 if PKG_OF_PREFIX[prefix_of(v[0])] == k]
                    mine1 = [v for v in got if PKG_OF_PREFIX[prefix_of(v[0])] == k]
                    rows.append({"pkg": k, "abs": str(f), "comps": comps, "term": term, "pattern": patt, "before": mine0, "after": mine1,
                                 "partial": mine1 not in ([], mine0), "impl": mine1 == []})
    return {"rows": rows, "failures": drain_failures(), "text": text, "lang": lang}


def judge_pattern_model(chk, results, workdir: Path, record=True):
    rows = [dict(r, text=res["text"], lang=res["lang"]) for res in results for r in res["rows"]]
    for res in results:
        if res["failures"]:
            chk.violation({"reason": "a rule failed internally (swallowed exception) during a pattern run", "failures": res["failures"][:3]})
    if not rows:
        return
    shards = []
    per = max(1, (len(rows) + 7) // 8)
    for s0 in range(0, len(rows), per):
        shards.append("\n".join(
            f"Eval vm_compute in (judge_pat (matcher_of {cstr(r['pkg'])}) {cstr(r['abs'])} {coq.coq_list([cstr(c) for c in r['comps']])} {r['term']} {coq.coq_bool(r['impl'])})."
            for r in rows[s0:s0 + per]))
    try:
        outs = [o for out in eval_shards_at(_TH, workdir, PAT_HEADER, shards) for o in out]
    except RuntimeError as e:
        chk.broken.append(f"Model:evaluation of the pattern-matcher model failed ({str(e)[:300]})")
        return
    kinds = {"nesting": "never", "performance": "never", "lbyl": "never", "srp": "substring", "unwrap_abuse": "substring", "clone_abuse": "substring",
             "blocking_async": "substring", "magic_numbers": "pathmatch", "print_statements": "pathmatch", "method_property": "pathmatch",
             "collection_pipeline": "pathmatch", "stateless_class": "never"}
    for r, bits in zip(rows, outs):
        if record:
            chk.count([r["text"], r["pkg"], r["comps"], r["pattern"]], True)
            chk.dist(f"patmodel:{r['pkg']}:{r['term'].split()[0].strip('(')}")
            chk.traces_validated += 1
        spec_ok, model_ok, dom = bool(bits[0]), bool(bits[1]), bool(bits[2])
        info = {"reason": "a linter-level ignore pattern did not remove exactly the violations it covers", "level": "pattern-model", "linter": r["pkg"],
                "pattern": r["pattern"], "path": "/".join(r["comps"]), "config": {CONFIG_KEY[r["pkg"]]: {"ignore": [r["pattern"]]}},
                "before": r["before"], "after": r["after"], "content": r["text"], "file": "case" + LANGS[r["lang"]][1]}
        if not dom:
            chk.correspondence_broken({"level": "pattern-model", "detail": "generated pattern outside the documented forms (pat_ok)", "pattern": r["pattern"]})
        elif r["partial"]:
            chk.violation(dict(info, reason="an ignore pattern removed only part of the linter's violations in the file"))
        elif not model_ok:
            chk.violation(dict(info, reason="the linter's ignore list is no longer matched the way its validated matcher model (Model/IgnorePat.v) says"))
        elif not spec_ok:
            chk.known_finding(f"linter_ignore_{kinds[r['pkg']]}[{r['pkg']}]", info)


# ------------------------------------------------------------------ judging in Coq
def coq_queries(case):
    if case.get("cross"):
        ls, rs = case["cross"]
        return f"(cross {coq.coq_list([str(x) for x in ls])} {coq.coq_list([cstr(x) for x in rs])})"
    return coq.coq_list([f"({ln}, {cstr(rule)}, {p})" for (ln, rule), p in zip(case["queries"], case["pipes"])])


def coq_judge_line(case, cands):
    impl = coq.coq_list([coq.coq_bool(b) for b in case["impl"]])
    if case["kind"] == "raw":
        return f"Eval vm_compute in (judge_raw {cands} {ctext(case['content'])} {coq_queries(case)} {impl})."
    return (f"Eval vm_compute in (judge {cands} {coq_afile(case['afile'])} {ctext(case['content'])} "
            f"{coq_queries(case)} {impl}).")


_TH = None   # theories directory used for evaluation (None: the live development)
MODEL_FILES = ["Lib/Base.v", "Lib/GenTypes.v", "Gen/IgnoreGen.v", "Model/PyStr.v", "Model/Ignore.v", "Model/IgnoreSpec.v", "Actual/IgnoreActual.v",
               "Model/IgnoreRun.v", "Model/CollectStr.v", "Gen/CollectGen.v", "Model/Glob.v", "Model/Collect.v", "Model/CollectSpec.v", "Model/IgnorePat.v",
               "Actual/IgnorePatActual.v"]


def eval_shards_at(th, workdir: Path, header: str, shards, attempt=0):
    """evaluate the shards; an evaluator process killed by a signal (rc < 0: the machine ran out of memory, not a verdict) is retried"""
    try:
        return _eval_shards_at(th, workdir / f"try{attempt}" if attempt else workdir, header, shards)
    except RuntimeError as e:
        if attempt < 2 and re.search(r"rc=-\d+", str(e)):
            import time
            time.sleep(5 + 10 * attempt)
            return eval_shards_at(th, workdir, header, shards, attempt + 1)
        raise


def _eval_shards_at(th, workdir: Path, header: str, shards):
    if th is None:
        return coq.eval_shards(workdir, header, shards, 1500)
    import subprocess
    from concurrent.futures import ThreadPoolExecutor
    workdir.mkdir(parents=True, exist_ok=True)
    jobs = []
    for i, body in enumerate(shards):
        f = workdir / f"cases_{i}.v"
        f.write_text(header + "\n" + body + "\n")
        jobs.append(f)

    def one(f):
        return subprocess.run(["timeout", "1500", "coqc", "-Q", str(th), "TL", "-w", "-notation-overridden,-abstract-large-number", str(f)],
                              capture_output=True, text=True, cwd=str(f.parent))
    with ThreadPoolExecutor(max_workers=8) as ex:
        outs = list(ex.map(one, jobs))
    res = []
    for pr, f in zip(outs, jobs):
        if pr.returncode != 0:
            raise RuntimeError(f"coqc failed on {f.name} (rc={pr.returncode}): {pr.stderr[-1500:]}")
        res.append(coq.parse_nat_lists(pr.stdout))
    return res


_SNAP_ERROR = ""


def build_snapshot(sd: Path):
    """a private copy of the model compiled against the last validated generated layer; None when it cannot be built"""
    import shutil
    import subprocess
    snap = coq.COQ / "Gen.expected" / "IgnoreGen.v.txt"
    if not snap.exists():
        return None
    th = sd / "theories"
    for rel in MODEL_FILES:
        (th / rel).parent.mkdir(parents=True, exist_ok=True)
        shutil.copy(snap if rel == "Gen/IgnoreGen.v" else coq.TH / rel, th / rel)
    for rel in MODEL_FILES:
        pr = subprocess.run(["timeout", "300", "coqc", "-Q", str(th), "TL", "-w", "-notation-overridden", str(th / rel)], capture_output=True, text=True, cwd=str(sd))
        if pr.returncode != 0:
            global _SNAP_ERROR
            _SNAP_ERROR = f"{rel}: {pr.stderr[-300:]}"
            return None
    return th


def judge(cases, workdir: Path, cands: str, nshards=16):
    """shards balanced by text size x queries; returns one parsed verdict per case"""
    weight = lambda c: (len(c["content"]) + 200) * (len(c["queries"]) + 6)
    total = sum(weight(c) for c in cases)
    nshards = max(nshards, total // 600_000)   # bounded shard size: the thorough tier gets more shards, not bigger (memory-hungry) ones
    budget = max(1, total // nshards)
    shards, index, cur, cur_idx, load = [], [], [], [], 0
    for j, c in enumerate(cases):
        w = weight(c)
        if cur and load + w > budget:
            shards.append("\n".join(cur))
            index.append(cur_idx)
            cur, cur_idx, load = [], [], 0
        cur.append(coq_judge_line(c, cands))
        cur_idx.append(j)
        load += w
    if cur:
        shards.append("\n".join(cur))
        index.append(cur_idx)
    outs = eval_shards_at(_TH, workdir, HEADER, shards)
    verdicts = [None] * len(cases)
    for chunk, out in zip(index, outs):
        if len(out) != len(chunk):
            raise RuntimeError(f"expected {len(chunk)} results, got {len(out)}")
        for j, o in zip(chunk, out):
            verdicts[j] = o
    return verdicts


def judge_leaf(strings, workdir: Path):
    shards = []
    for s0 in range(0, len(strings), 60):
        body = []
        for s in strings[s0:s0 + 60]:
            exp = coq.coq_list([coq.coq_list([cstr(x) for x in grp]) for grp in leaf_expected(s)])
            body.append(f"Eval vm_compute in (leaf_check (leaf {cstr(s)}) {exp}).")
        shards.append("\n".join(body))
    outs = eval_shards_at(_TH, workdir, HEADER, shards)
    return [o for out in outs for o in out]


# ------------------------------------------------------------------ decision
def reduced(case, ver):
    """the case restricted to the queries that pass 1 could not settle (impl <> spec or impl <> claimed model)"""
    keep = [k for k, row in enumerate(ver[1:]) if not (row[0] and row[2])] or [0]
    c = {k: v for k, v in case.items() if k != "cross"}
    for key in ("queries", "pipes", "impl", "pkgs"):
        if key in case:
            c[key] = [case[key][k] for k in keep]
    return c


def decide(chk, case, ver, agree, full_vector, note=""):
    """ver: full-candidate verdict of one structured case (header + one row per query)"""
    head, rows = ver[0], ver[1:]
    if not (head[0] and head[1] and head[2]):
        chk.correspondence_broken({"level": case["kind"], "detail": "harness renderer / domain predicate disagreement "
                                   f"(render_eq={head[0]} file_ok={head[1]} targets_ok={head[2]})", "content": case["content"]})
        return
    for k, bits in enumerate(rows):
        spec_ok, ideal_ok = bool(bits[0]), bool(bits[1])
        cand, inclass = [bool(b) for b in bits[2:2 + N_CANDS]], [bool(b) for b in bits[2 + N_CANDS:]]
        if full_vector:
            for ci in range(N_CANDS):
                agree[ci] = agree[ci] and cand[ci]
        if spec_ok:
            continue
        ln, rule = case["queries"][k]
        info = {"reason": "suppression differs from what the directives in scope name" + note, "level": case["kind"], "line": ln, "rule_id": rule,
                "suppressed_by_impl": case["impl"][k], "content": case["content"], "case": {kk: case[kk] for kk in ("kind", "i", "afile", "prior_afile", "two_state") if kk in case}}
        if case["kind"] == "obs":
            info.update({"lang": case["lang"], "form": case["form"], "target": case["target"], "violations_before": case["v0"], "violations_after": case["v1"],
                         "obs_case": case["obs_case"], "first_state": case.get("first_state")})
        pkg = case.get("pkgs", [None] * len(rows))[k]
        keys = pipeline_keys(pkg)
        if keys is None:
            # flags whose single removal changes the model's answer on this query; when several listed defects overlap on the
            # input (no single removal changes the answer): every flag whose defect class contains the input
            keys = [FLAGS[f] for f in range(7) if not cand[C_OFF0 + f]] or [FLAGS[f] for f in range(7) if inclass[f]]
        if cand[C_ACTUAL] and ideal_ok and keys:
            for key in keys:
                chk.known_finding(key, {"line": ln, "rule_id": rule, "content": case["content"], "level": case["kind"]})
        else:
            info["model_actual_matches_impl"] = cand[C_ACTUAL]
            info["model_ideal_matches_spec"] = ideal_ok
            chk.violation(info)


def evaluate(chk, structured, raws, leafs, p2_cap, th=None, record=True, note=""):
    """judge every case in Coq and decide (BUILDING.md step 5).  Claimed vector first; the full candidate set only where something has
    to be explained.  th: theories directory to evaluate with (None: the live one); record: count cases / distributions (off for the
    fallback round, which re-judges the same cases with the last validated generated layer)"""
    global _TH
    _TH = th
    with scratch_dir("tv-c04-coq-") as wd:
        try:
            bad = [l for l in (judge_leaf(leafs, wd / "leaf") if leafs else []) if not all(l)]
            for l in bad[:3]:
                chk.correspondence_broken({"level": "leaf", "detail": f"Model/PyStr.v disagrees with CPython: {l} "
                                           "(order: splitlines, lower, strip, tokens, split, bracket regex, space regex, start regex)"})
            chk.traces_validated += len(leafs) if record else 0
            _tick("leaf judging")
            first = judge(structured, wd / "p1", "(claimed_only ignore_actual)") if structured else []
            need = [j for j, v in enumerate(first) if not all(v[0]) or any(not (row[0] and row[2]) for row in v[1:])]
            _tick("pass 1 judging")
            rawv = judge(raws, wd / "raw", "(claimed_only ignore_actual)") if raws else []
            _tick("raw judging")
            raw_bad = [j for j, v in enumerate(rawv) if any(not row[0] for row in v)]
            mismatch = bool(raw_bad) or any(any(not row[2] for row in first[j][1:]) for j in need)
            if not mismatch:
                # single-flag-removal attribution for a bounded number of failing cases and for every case that the defect classes
                # do not explain; the remaining failures are attributed by defect class (sound by the confinement theorem)
                by_class = [j for j in need if all(first[j][0]) and all((row[0] and row[2]) or (row[1] and row[2] and any(row[3:]))
                                                                        for row in first[j][1:])]
                rest = [j for j in need if j not in set(by_class)]
                need = rest + by_class[:max(0, p2_cap - len(rest))]
                class_only = by_class[max(0, p2_cap - len(rest)):]
            else:
                class_only = []
            search_only = th is not None   # the fallback round only looks for ONE concrete failing input: no attribution of fixed defects
            if mismatch and search_only:
                need = [j for j in need if any(not row[2] for row in first[j][1:])][:12]
            full_idx = list(range(len(structured))) if mismatch and not search_only else need
            # without a mismatch only the failing queries need explaining; with one, everything is re-judged under every candidate
            p2 = [structured[j] if mismatch and not search_only else reduced(structured[j], first[j]) for j in full_idx]
            full = judge(p2, wd / "p2", "(candidates ignore_actual)") if full_idx else []
            raw_full = judge(raws, wd / "raw2", "(candidates ignore_actual)") if mismatch and raws and not search_only else []
            _tick(f"pass 2 judging ({len(full_idx)} cases)")
        except RuntimeError as e:
            chk.broken.append(f"Model:evaluation of the ignore model failed{note} ({str(e)[:400]})")
            first, full_idx, full, rawv, raw_full, raw_bad, mismatch, p2, class_only = [], [], [], [], [], [], False, [], []

    agree = [True] * N_CANDS
    fullmap = dict(zip(full_idx, zip(p2, full))) if full_idx else {}
    class_only_set = set(class_only)
    for j, case in enumerate(structured):
        if j >= len(first):
            break
        a = case["afile"]
        scoped = any(l[0] != "Plain" for l in a)
        if record:
            chk.count([case["content"], case["queries"]], scoped and len(case["queries"]) > 0)
            chk.dist("level:" + case["kind"])
            chk.dist("queries", len(case["queries"]))
            for l in a:
                if l[0] != "Plain":
                    nm = l[-1]
                    chk.dist(f"directive:{l[0]}:{l[2] if l[0] != 'File' else l[1]}:{'bare' if nm is None else 'named'}")
            if case["kind"] == "obs":
                chk.dist(f"obs:{case['lang']}:{case['form']}:{case['how']}")
                for p in set(case["pkgs"]):
                    chk.dist("obs-linter:" + p)
            chk.sample({"level": case["kind"], "content": case["content"][:500], "queries": case["queries"][:6], "impl": case["impl"][:6]}, 4)
            chk.traces_validated += len(case["queries"])
        if j in fullmap:
            decide(chk, fullmap[j][0], fullmap[j][1], agree, mismatch and th is None, note)
        elif j in class_only_set:
            for k, row in enumerate(first[j][1:]):
                if not row[0]:
                    pkg = case.get("pkgs", [None] * len(case["queries"]))[k]
                    keys = pipeline_keys(pkg) or [FLAGS[f] for f in range(7) if row[3 + f]]
                    for key in keys:
                        chk.known_finding(key, {"line": case["queries"][k][0], "rule_id": case["queries"][k][1], "content": case["content"],
                                                "level": case["kind"], "attributed_by": "defect class"})
    for j, case in enumerate(raws):
        if j >= len(rawv):
            break
        if record:
            chk.count([case["content"], case["queries"]], "ignore" in case["content"].lower())
            chk.dist("level:raw")
            chk.dist("queries", len(case["queries"]))
            chk.traces_validated += len(case["queries"])
        if raw_full:
            for row in raw_full[j]:
                for ci in range(N_CANDS):
                    agree[ci] = agree[ci] and bool(row[ci])
    if mismatch and th is not None:
        for j in raw_bad[:1]:   # a concrete text on which the implementation no longer does what the last validated model says
            k = next(k for k, row in enumerate(rawv[j]) if not row[0])
            chk.violation({"reason": "should_ignore_violation no longer agrees with the validated model on this text (malformed-stream case)" + note,
                           "content": raws[j]["content"], "line": raws[j]["queries"][k][0], "rule_id": raws[j]["queries"][k][1], "impl": raws[j]["impl"][k]})
    elif mismatch:
        alt = [ci for ci in range(1, N_CANDS) if agree[ci] and ci != C_SHARED]
        names = ["claimed"] + [f"claimed without {f}" for f in FLAGS] + ["claimed flags, all linters on the shared parser", "ideal"]
        if alt and C_OFF0 <= alt[0] < C_SHARED:
            chk.notes.append("implementation no longer matches the claimed quirk vector but matches on all cases: " + names[alt[0]] +
                             " (a listed defect is no longer observed; the theorems hold for every vector)")
        else:
            ex = None
            for j in raw_bad[:1]:
                k = next(k for k, row in enumerate(rawv[j]) if not row[0])
                ex = {"content": raws[j]["content"], "line": raws[j]["queries"][k][0], "rule_id": raws[j]["queries"][k][1], "impl": raws[j]["impl"][k]}
            chk.correspondence_broken({"level": "unit/observable", "detail": "Model/Ignore.v under Actual/IgnoreActual.v disagrees with the implementation "
                                       "and no candidate vector matches all cases", "example": ex})
            if ex:   # a concrete text on which the implementation no longer does what the validated model says
                chk.violation({"reason": "should_ignore_violation no longer agrees with the validated model on this text (malformed-stream case)" + note, **ex})
    _TH = None


def _tick(label, t=[None, None]):
    import os, sys, time
    now = time.time()
    tm = os.times()
    cpu = tm.user + tm.system + tm.children_user + tm.children_system
    if os.environ.get("VERIF_TIMING") and t[0] is not None:
        print(f"[c04 timing] {label}: wall {now - t[0]:.1f}s cpu {cpu - t[1]:.1f}s", file=sys.stderr)
    t[0], t[1] = now, cpu


def run(tier: str, seed: int, replay: str | None = None) -> int:
    _tick("start")
    chk = Check(PROP, tier, seed)
    own = json.loads((VERIF / "known.d" / f"{PROP}.json").read_text()) if (VERIF / "known.d" / f"{PROP}.json").exists() else {"findings": []}
    if own["findings"]:   # this check's own list is authoritative for C04 (the assembled known_findings.json may lag behind it)
        chk.known = {"known": {}, "fixed": {}}
    for f in own["findings"]:   # known.d/C04.json is this check's own list; known_findings.json is assembled from it by tools/mkmanifest.py
        if f.get("status") == "known":
            chk.known["known"].setdefault(f["key"], f)
            chk.known["fixed"].pop(f["key"], None)
        elif str(f.get("status", "")).startswith("fixed"):   # a fixed entry suppresses nothing: observing it again is a VIOLATION
            chk.known["fixed"].setdefault(f["key"], f)
            chk.known["known"].pop(f["key"], None)
    chk.rule = ("three levels. leaf: random strings over directive fragments, white space and the Unicode line boundaries, Coq string runtime = CPython "
                "(splitlines, lower, strip, split, the regex templates). unit: seeded abstract files (3-30 lines mixing code lines, same-line / next-line / "
                "block / file-level directives in # and // style, rule lists spelled as full id, prefix, prefix.*, alias, any case, other rules, bare) rendered "
                "to text and queried at every code line for 3 rule ids through IgnoreDirectiveParser.should_ignore_violation; raw: the same texts after textual "
                "damage (keyword case, prose, design-lint, control characters, cuts) queried at arbitrary lines, model-vs-implementation only. observable: "
                ".py/.ts/.rs files assembled from snippets that trigger nesting, magic-numbers, print, srp, performance, method-property, lbyl, cqs, unwrap/clone/"
                "blocking linters; one directive inserted on / before / around / far from a reported violation or at file level; violations before and after "
                "compared (in-process Orchestrator; a few through the CLI); file-header joins every .py/.ts file (its line-1 violations: `no header` for "
                "most files, missing fields for files that start with a one-line header); a cross-file stream lints a generated file A together with a fixed "
                "partner B (fresh Orchestrator, lint_files) so that dry (one 4-line window) and stringly-typed report on A, directives inserted into A. "
                "A case is non-trivial when at least one directive's scope contains a queried line "
                "or a reported violation; distinct = distinct (text, queries)")
    chk.trusted_base += [
        "Model/PyStr.v is a hand-written model of str.splitlines/lower/strip/split/in and of the two regex templates used by ignore.py; validated against CPython "
        "(leaf level) on valid UTF-8 without U+0130/U+0131/U+017F/U+212A (non-ASCII case mapping is not modelled); not proved about CPython",
        "the suppression pipeline of each linter (which rule classes call the shared parser, their own extra same-line checks) is a table in Actual/IgnoreActual.v "
        "validated by the observable-level correspondence, by Gen.shared_parser_users and by the translator's shape checks of the linters' filter functions "
        "(generic_extras, tl_extras, fh_extras); file-placement and lazy-ignores (exempted by the property text) are not exercised at the observable level; "
        "dry's own `# dry: ignore-block / ignore-next` comments and file-header's custom `# thailint-ignore*` needles are modelled (file-header) or left to C03 "
        "(dry) but never generated here",
        "repository-level ignore patterns (fnmatch) are an oracle sampled on a few patterns (C14's subject); linter-level `ignore:` lists are modelled per "
        "matcher kind (Model/IgnorePat.v on top of the fnmatch model of C14) and validated by the pattern stream, PurePath.match itself is not proved",
        "the analysers' own line numbering (ast / tree-sitter) is an oracle: observable level only",
    ]
    chk.build(["theories/Props/C04.v"], ["IgnoreGen"], known_v=["theories/Props/C04Known.v", "theories/Props/C04KnownPat.v"])
    _tick("coq build")
    scale = chk.budget_scale()
    quick = tier == "quick"
    n_unit = (220 if quick else 2200) * scale
    n_raw = (160 if quick else 1600) * scale
    n_leaf = (240 if quick else 2400) * scale
    n_obs = (180 if quick else 1800) * scale
    p2_cap = (60 if quick else 600) * scale

    if replay:
        payload = json.loads(Path(replay).read_text())["violation"]
        c = payload.get("case") or {}
        structured, raws, leafs, obs_in, pat_in = [], [], [], [], []
        if payload.get("obs_case"):
            obs_in = [payload["obs_case"]]
        elif str(payload.get("level", "")).startswith("pattern"):
            pat_in = [{"lang": next(k for k, v in LANGS.items() if payload["file"].endswith(v[1])), "base": payload["content"].split("\n")[:-1]}]
        elif "afile" in c:
            a = c["afile"]
            structured = [{"kind": "unit", "i": "replay", "afile": a, "content": render(a),
                           "queries": [(payload["line"], payload["rule_id"])], "pipes": ["PShared"]}]
            if c.get("prior_afile"):
                structured[0].update({"prior_afile": c["prior_afile"], "two_state": c.get("two_state")})
        elif "content" in payload and "line" in payload:
            raws = [{"kind": "raw", "i": "replay", "content": payload["content"], "queries": [(payload["line"], payload["rule_id"])], "pipes": ["PShared"]}]
    else:
        structured = corpus_cases() + two_state_cases(seed, (40 if quick else 400) * scale) + unit_cases(seed, n_unit)
        raws = raw_cases(seed, n_raw)
        leafs = leaf_strings(seed, n_leaf)
        gen_obs = obs_cases(seed, n_obs)
        obs_in = corpus_obs_cases(seed) + gen_obs
        plain = [c for c in gen_obs if not c.get("xfile")]
        pat_in = plain[:: max(1, len(plain) // (6 if quick else 40))]
        if quick:   # one file per language
            seen_l = {}
            for pc in pat_in:
                seen_l.setdefault(pc["lang"], pc)
            pat_in = list(seen_l.values())

    # implementation runs
    with scratch_dir("tv-c04-disk-") as dd:
        for c in structured:
            if c["kind"] != "unit":
                continue
            if c.get("prior_afile"):
                c["impl"] = impl_two_state(c, dd / "two_state.py")
                chk.dist("two-state:unit:" + str(c.get("two_state")))
                continue
            disk = None
            if isinstance(c["i"], int) and c["i"] % 4 == 0:   # also exercise has_file_ignore(file_path) on the same text
                disk = dd / f"u{c['i']}.py"
                disk.write_bytes(c["content"].encode("utf-8"))
            c["impl"] = impl_unit(c["content"], c["queries"], disk)
    for c in raws:
        c["impl"] = impl_unit(c["content"], c["queries"])
    if not replay:   # dot-less rule ids: `id.*` must name the rule like `id` does (through the real parser; the Coq side is C04_dotless_wildcard_refuted)
        for rid in ("cqs", "file-placement"):
            for st_ in ("#", "//"):
                plain = impl_unit(f"x = 1  {st_} thailint: ignore[{rid}]\n", [(1, rid)])[0]
                wild = impl_unit(f"x = 1  {st_} thailint: ignore[{rid}.*]\n", [(1, rid)])[0]
                other = impl_unit(f"x = 1  {st_} thailint: ignore[{rid}.*]\n", [(1, "nesting.excessive-depth")])[0]
                chk.count(["dotless", rid, st_], True)
                chk.dist("dotless")
                chk.traces_validated += 3
                info = {"level": "unit", "content": f"x = 1  {st_} thailint: ignore[{rid}.*]\n", "line": 1, "rule_id": rid}
                if not plain or other:
                    chk.violation(dict(info, reason="a same-line directive naming a dot-less rule id is not honoured / names another rule"))
                elif not wild:
                    chk.known_finding("dotless_wildcard", info)
    _tick("unit/raw implementation runs")
    obs = pool_map(run_obs, obs_in, procs=8) if obs_in else []
    _tick("observable implementation runs")
    for o in obs:
        if "skip" in o or o.get("via") != "cli":
            continue
        c = run_cli_pair(o)
        if c is None:
            continue
        chk.dist("via:cli")
        pkg = c.get("pkg")
        api0 = sorted(v[:3] for v in o["v0"] if PKG_OF_PREFIX.get(prefix_of(v[0])) == pkg)
        api1 = sorted(v[:3] for v in o["v1"] if PKG_OF_PREFIX.get(prefix_of(v[0])) == pkg)
        if "error" in c or c["before"] != api0 or c["after"] != api1:
            chk.violation({"reason": "the CLI (`thailint <linter> --format json`) does not report what the in-process run reports for the same file",
                           "cli": c, "api_before": api0, "api_after": api1, "content": o["content"], "lang": o["lang"]})
    _tick("CLI subset")
    for pc in pat_in:
        decide_patterns(chk, run_patterns(pc))
    pm_results = []
    if pat_in and not replay:
        # one file per language holding every snippet, so that every linter of the table is exercised
        full = [{"i": "full:" + lang, "lang": lang, "seed": seed, "npat": 10 if quick else 40,
                 "base": list(LANGS[lang][3]) + [x for n, b in enumerate(LANGS[lang][0]) for l in b + [""] for x in l.replace("{n}", str(n)).split("\n")]}
                for lang in LANGS]
        pm_results = pool_map(run_pattern_model, full, procs=4)
        with scratch_dir("tv-c04-pmj-") as pwd:
            judge_pattern_model(chk, pm_results, pwd)
    _tick("file-pattern level")
    for o in obs:
        if "skip" in o:
            chk.dist("obs-skipped:" + o["skip"])
            continue
        if o["failures"]:
            chk.violation({"reason": "a rule failed internally (swallowed exception) during the run", "failures": o["failures"][:3], "content": o["content"]})
            continue
        if o["new_violations"]:
            chk.violation({"reason": "inserting a suppression comment made a violation appear that was not reported before", "new": o["new_violations"][:5],
                           "content": o["content"], "lang": o["lang"], "form": o["form"], "violations_before": o["v0"], "violations_after": o["v1"],
                           "obs_case": o["obs_case"]})
            continue
        structured.append(o)

    evaluate(chk, structured, raws, leafs, p2_cap)
    if chk.broken and not chk.violations and not replay:
        # a proof obligation / generated item / the model evaluation no longer checks: look for a concrete input on which the implementation
        # departs from the specification as evaluated with the LAST VALIDATED generated layer (coq/Gen.expected/IgnoreGen.v.txt)
        with scratch_dir("tv-c04-snap-") as sd:
            th = build_snapshot(sd)
            if th is None:
                chk.notes.append("fallback search skipped: the snapshot of the generated layer could not be built (" + _SNAP_ERROR + ")")
            else:
                evaluate(chk, structured, raws, [], p2_cap, th=th, record=False,
                         note=" [judged with the last validated generated layer, coq/Gen.expected/IgnoreGen.v.txt]")
                if pm_results and not chk.violations:
                    global _TH
                    _TH = th
                    judge_pattern_model(chk, pm_results, sd / "pm", record=False)
                    _TH = None
        _tick("fallback search with the snapshot model")
    return chk.finish()


def corpus_obs_cases(seed):
    """observable-level witnesses (a whole file with its directives, run through the real linters)"""
    out = []
    for p in sorted((VERIF / "corpus" / PROP).glob("*.json")):
        c = json.loads(p.read_text())
        if c.get("kind") == "obs-witness":
            out.append({"i": "corpus:" + p.stem, "lang": c["lang"], "seed": seed, "witness": c["afile"], **({"xfile": True} if c.get("xfile") else {})})
    return out


def corpus_cases():
    """refutation witnesses and minimised earlier failures; replayed first on every run"""
    out = []
    d = VERIF / "corpus" / PROP
    for p in sorted(d.glob("*.json")):
        c = json.loads(p.read_text())
        if c.get("kind") == "obs-witness":
            continue
        a = c["afile"]
        qs = [tuple(q) for q in c["queries"]]
        out.append({"kind": "unit", "i": "corpus:" + p.stem, "afile": a, "content": render(a), "queries": qs, "pipes": ["PShared"] * len(qs)})
    return out
