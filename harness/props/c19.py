"""C19 — every linter honours its documented examples, wherever they are embedded  (PARTIAL: see level_note).

Three layers, as in DESIGN.md section 7 / C19:
  (a) translator/docs2cases.py re-extracts every documented example on every run; each is linted in isolation and
      judged against what the document says (violating: reported with the linter's rule id, at the marked lines when
      the document marks them; acceptable: not reported).
  (b) PROVED (Props/C19.v): the embedding algebra and the locality theorem for walker-shaped detectors, instantiated
      with models of the print-statement detector (local) and of the string-concat-in-loop detector (local with its two
      quirk flags off, refuted with them on).  Both models are run against the implementation on every Python example
      and every generated fragment, isolated and embedded (correspondence), and the algebra's `plug` is compared with
      the parse of the really embedded text.
  (c) VALIDATED: for every other pattern linter the embedding law is checked on the implementation itself, with the
      observed isolated result as the detector's value: reports inside the embedded example must be exactly the
      isolated reports moved by the context's offset, the filler code must be reported as it is alone.
A failing (linter, example, context class) is a VIOLATION unless known.d/C19.json lists exactly that key."""
from __future__ import annotations

import ast
import json
import os
import re
import sys
import time
from pathlib import Path

from harness import c19_embed as E
from harness import coq
from harness.common import (VERIF, drain_failures, make_orchestrator, parse_json_violations, pool_map, rng_for, run_cli,
                            scratch_dir)
from harness.framework import Check
from translator import docs2cases

PROP = "C19"
FLAGS = ["q_concat_global_names", "q_concat_dedup_by_name", "q_concat_name_table"]
NF = len(FLAGS)
SL_RULE = "stateless-class.violation"
# quirk-parametric models, in the order of the bit lists of Model/EmbedRun2.v (after the print list)
DETECTORS = [
    {"name": "string-concat", "rule": "performance.string-concat-loop", "flags": FLAGS, "model": "Model/PerfConcat.v"},
    {"name": "stateless-class", "rule": SL_RULE, "flags": ["q_sl_exempt_test_name", "q_sl_exempt_mixin_name", "q_sl_lookup_by_name"],
     "model": "Model/StatelessCls.v"},
    {"name": "method-property", "rule": "method-property.should-be-property", "flags": ["q_mp_class_body_only"], "model": "Model/MethodProp.v"},
    {"name": "conditional-verbose", "rule": "improper-logging.conditional-verbose", "flags": ["q_cv_per_enclosing_if"], "model": "Model/CondVerbose.v"},
    {"name": "regex-in-loop", "rule": "performance.regex-in-loop", "flags": ["q_rx_file_wide_names"], "model": "Model/RegexLoop.v"},
]
CV_RULE = "improper-logging.conditional-verbose"
MP_RULE = "method-property.should-be-property"
ACTUALS = "concat_actual stateless_actual method_actual cv_actual rx_actual"
FILE_LEVEL = ("file-header",)
HEADER = ("From TL Require Import Lib.Base Lib.GenTypes Gen.EmbedGen Model.Embed Model.PrintStmt Model.PerfConcat Model.StatelessCls "
          "Model.MethodProp Gen.Embed2Gen Model.CondVerbose Model.RegexLoop Model.EmbedRun Model.EmbedRun2 Actual.EmbedActual.\n")
PRINT_RULE = "improper-logging.print-statement"
CONCAT_RULE = "performance.string-concat-loop"
MODELLED = (PRINT_RULE, CONCAT_RULE, SL_RULE, "method-property.should-be-property", "improper-logging.conditional-verbose", "performance.regex-in-loop")
MODELLED_LINTERS = ("perf", "improper-logging", "stateless-class", "method-property")
STATEMENT_LEVEL = {"perf", "improper-logging", "lbyl", "magic-numbers", "unwrap-abuse", "clone-abuse", "blocking-async",
                   "lazy-ignores", "pipeline"}
GAP = 2            # blank lines between copies
CLI_CMD = {"pipeline": "pipeline", "perf": "perf", "improper-logging": "improper-logging", "lbyl": "lbyl",
           "method-property": "method-property", "stateless-class": "stateless-class", "lazy-ignores": "lazy-ignores",
           "file-header": "file-header", "stringly-typed": "stringly-typed", "nesting": "nesting", "srp": "srp",
           "magic-numbers": "magic-numbers", "unwrap-abuse": "unwrap-abuse", "clone-abuse": "clone-abuse",
           "blocking-async": "blocking-async"}

PY_FILLER_CLASSES = ["AfterFiller", "BeforeFiller", "AfterOpenFiller", "AfterNamesList", "AfterNamesStr", "AfterNamesNum",
                     "BeforeNamesList", "BeforeNamesNum", "AfterNamesClass", "BeforeNamesClass", "ClassIf", "FnIfAfter", "MethodTryBefore", "IfWithFnFiller"]
TIMES_CLASSES = ["Times2", "Times3", "Times5"]
PY_CLASSES = list(E.PY_LAYERS) + PY_FILLER_CLASSES + TIMES_CLASSES + E.rename_classes()
TS_CLASSES = list(E.TS_LAYERS) + ["AfterFiller", "BeforeFiller"] + TIMES_CLASSES
TS_FILLER = ["function _tvHelper(_tvP) {", "    const _tvAcc = [_tvP];", "    return _tvAcc;", "}", "", ""]
NAME_SPEC: dict = {}      # filled from the documents on every run (docs2cases.name_spec)


def spec_for(ex) -> dict:
    """documented name rules that a renaming of this fragment has to respect: those of the example's own linter and, for
    Python fragments, those of the modelled rules, which are judged on every Python fragment"""
    parts = [NAME_SPEC.get(ex["linter"], {})]
    if ex["lang"] == "py":
        parts += [NAME_SPEC.get("perf", {}), NAME_SPEC.get("method-property", {})]
    out: dict = {}
    for p in parts:
        for k, v in p.items():
            if isinstance(v, bool):
                out[k] = out.get(k, False) or v
            else:
                out[k] = list(dict.fromkeys(list(out.get(k, [])) + list(v)))
    return out


# ------------------------------------------------------------------ fragments
CROSS_FILE = ("dry", "stringly-typed")     # documented as needing occurrences in two or more files


def frag_files(ex) -> list:
    if ex.get("files"):
        return [{"name": re.sub(r"[^A-Za-z0-9_./-]", "_", f["name"]).lstrip("/"), "code": f["code"]} for f in ex["files"]]
    one = [{"name": "pkg/sample_module" + docs2cases.EXT[ex["lang"]], "code": ex["code"]}]
    if ex["linter"] in CROSS_FILE and ex["verdict"] == "violating":
        # a single documented occurrence of a cross-file pattern is completed by the same occurrence in a second file
        one.append({"name": "pkg/other_module" + docs2cases.EXT[ex["lang"]], "code": ex["code"]})
    return one


def body_lines(code: str) -> list[str]:
    return code.rstrip("\n").split("\n")


import functools


@functools.lru_cache(maxsize=4096)
def starts_with_header(lang: str, code: str) -> bool:
    if lang == "py":
        try:
            return ast.get_docstring(ast.parse(code), clean=False) is not None
        except SyntaxError:
            return False
    return code.lstrip().startswith("/*")


@functools.lru_cache(maxsize=4096)
def has_toplevel_def(code: str) -> bool:
    return any(isinstance(s, (ast.FunctionDef, ast.AsyncFunctionDef)) for s in ast.parse(code).body)


def ctx_for(cls: str, lang: str, code: str):
    """text-level context of class `cls` for this fragment, or None when the class is not defined for the language; the
    pseudo contexts ('times', n) and ('rename', cls) are returned for copies and renaming"""
    if cls.startswith("Times"):
        return ("times", int(cls[5:]))
    if cls == "Rename" or cls.startswith("Rn:"):
        return ("rename", cls) if lang == "py" else None
    H = E.hole()
    if lang in ("ts", "js"):
        if cls in E.TS_LAYERS:
            return E.layer(cls, H, "ts")
        if cls == "AfterFiller":
            return E.seq(TS_FILLER, H)
        if cls == "BeforeFiller":
            return E.seq([], H, ["", ""] + TS_FILLER)
        return None
    if cls in E.PY_LAYERS or cls in E.CORPUS_ONLY_LAYERS:
        return E.layer(cls, H)
    if cls == "AfterFiller":
        return E.seq(E.FILLER_CLOSED, H)
    if cls == "BeforeFiller":
        return E.seq([], H, ["", ""] + E.FILLER_CLOSED)
    if cls == "AfterOpenFiller":
        return E.seq(E.FILLER_OPEN, H)
    if cls == "AfterLocalReFiller":      # corpus-only: an unrelated function with a local variable `re` holding a compiled pattern
        return E.seq(E.FILLER_LOCAL_RE, H)
    if cls.startswith("AfterNames"):
        fl = E.names_filler(code, cls[10:].lower())
        return E.seq(fl, H) if fl else None
    if cls.startswith("BeforeNames"):
        fl = E.names_filler(code, cls[11:].lower())
        return E.seq([], H, ["", ""] + fl) if fl else None
    if cls == "ClassIf":
        return E.layer("InClassBody", E.layer("InIf", H))
    if cls == "FnIfAfter":
        return E.seq(E.FILLER_CLOSED, E.layer("InFn", E.layer("InIf", H)))
    if cls == "MethodTryBefore":
        return E.seq([], E.layer("InMethod", E.layer("InTry", H)), ["", ""] + E.FILLER_CLOSED)
    if cls == "IfWithFnFiller":
        return E.layer("InIf", E.layer("InWith", E.seq(E.names_filler(code, "list"), E.layer("InFn", H))))
    return None


def applicable(cls: str, ex: dict, code: str) -> str | None:
    """None when the context class may be applied to this example, else why not"""
    lang, linter = ex["lang"], ex["linter"]
    if linter == "file-header":
        return None if cls.startswith("Before") else "the header must stay at the top of the file"
    if starts_with_header(lang, code) and not cls.startswith(("Before", "Rn:")) and cls != "Rename":
        return "the example begins with a file header, which must stay at the top of the file"
    if linter == "perf" and cls in E.LOOP_CLASSES:
        return "a loop around the example changes what the loop rules are about"
    if lang == "py" and cls in E.CLASS_BODY_CLASSES and has_toplevel_def(code):
        return "top-level functions would become methods"
    if lang == "py" and ("from __future__" in code):
        return "__future__ import must stay first"
    return None


def embed_text(ctx, lang: str, code: str, spec: dict | None = None):
    """-> dict(text, ranges=[(first line, last line, line offset, indent)], wrapper lines, filler ranges, plan/colmap),
    or a string saying why the embedding does not apply"""
    body = body_lines(code)
    h = len(body)
    if ctx[0] == "times":
        n = ctx[1]
        text = ("\n".join(body) + "\n" + "\n" * GAP) * n
        return {"text": text, "ranges": [(k * (h + GAP) + 1, k * (h + GAP) + h, k * (h + GAP), 0) for k in range(n)],
                "wrapper": set(), "filler": {}, "h": h}
    if ctx[0] == "rename":
        plan, why = E.rename_plan_for(code, ctx[1], spec or {})
        if not plan:
            return why
        text, colmap = E.rename_text(code, plan)
        return {"text": text, "ranges": [(1, h, 0, 0)], "wrapper": set(), "filler": {}, "h": h, "plan": plan, "colmap": colmap}
    lines, hl, hi = E.render(ctx, body)
    wl, fill = E.wrapper_lines(ctx, h)
    return {"text": "\n".join(lines) + "\n", "ranges": [(hl, hl + h - 1, hl - 1, hi)], "wrapper": wl, "filler": fill, "h": h}


def parses(lang: str, text: str) -> bool:
    return docs2cases._parses(lang, text) is None


# ------------------------------------------------------------------ implementation
def run_impl(job):
    """lint the files of one job with a fresh orchestrator; every rule, every file, plus finalize()"""
    with scratch_dir("tv-c19-") as d:
        paths = []
        for f in job["files"]:
            p = d / f["name"]
            p.parent.mkdir(parents=True, exist_ok=True)
            p.write_text(f["code"])
            paths.append(p)
        o = make_orchestrator(d, job.get("config") or {})
        try:
            vs = o.lint_files(paths)
        except Exception as e:  # noqa: BLE001
            return {"error": f"{type(e).__name__}: {e}", "v": [], "failures": drain_failures()}
        out = []
        for v in vs:
            try:
                rel = str(Path(v.file_path).resolve().relative_to(d.resolve()))
            except ValueError:
                rel = str(v.file_path)
            out.append([v.rule_id, rel, int(v.line or 0), int(v.column or 0), v.message])
        return {"v": sorted(out), "failures": drain_failures()}


def run_cli_job(job):
    with scratch_dir("tv-c19-cli-") as d:
        f = job["files"][0]
        p = d / f["name"]
        p.parent.mkdir(parents=True, exist_ok=True)
        p.write_text(f["code"])
        rc, so, se = run_cli([job["cmd"], "--format", "json", str(p)], cwd=d)
        vs = parse_json_violations(so)
        if vs is None or rc not in (0, 1):
            return {"error": f"rc={rc} stdout={so[:200]} stderr={se[-300:]}"}
        return {"v": sorted([v["rule_id"], int(v["line"])] for v in vs)}


def norm_msg(m: str) -> str:
    return re.sub(r"\d+", "#", m)


# ------------------------------------------------------------------ the embedding law on the implementation
def law_check(iso_reports, filler_iso, emb, got, fname, prefixes):
    """compare the embedded run with what the law predicts from the isolated run.
    iso_reports / got: [rule, file, line, col, msg] restricted to file `fname` and to rules starting with a prefix.
    Returns a list of discrepancies (empty = the law holds)."""
    sel = lambda rs: [r for r in rs if r[1] == fname and r[0].startswith(tuple(prefixes))]   # noqa: E731
    iso, emb_got = sel(iso_reports), sel(got)
    plan, colmap = emb.get("plan"), emb.get("colmap")
    problems = []
    in_range, rest = [], []
    for r in emb_got:
        (in_range if any(a <= r[2] <= b for a, b, _, _ in emb["ranges"]) else rest).append(r)
    expected = []
    for a, b, off, ind in emb["ranges"]:
        for r in iso:
            msg = E.rename_message(r[4], plan) if plan else r[4]
            col = E.col_after_rename(colmap, r[2], r[3]) if colmap is not None else r[3] + ind
            expected.append((r[0], r[2] + off, col, r[3], msg))
    pool = [(r[0], r[2], r[3], r[4]) for r in in_range]
    for rule, line, col, col0, msg in expected:
        # rule id, line and column decide; the message text is shown in the replay but not compared (it may name the enclosing class)
        hit = next((p for p in pool if p[0] == rule and p[1] == line and p[2] in (col, col0)), None)
        if hit is None:
            problems.append({"missing": [rule, line, col, msg]})
        else:
            pool.remove(hit)
    for p in pool:
        problems.append({"unexpected": list(p)})
    # filler code: reported exactly as it is alone
    for (a, b), lines in emb["filler"].items():
        pf = tuple(p for p in prefixes if not p.startswith(FILE_LEVEL))      # a file-level rule does not speak about the filler code
        if not pf:
            continue
        want = sorted((r[0], r[2] + a - 1) for r in filler_iso.get(tuple(lines), []) if r[0].startswith(pf))
        have = sorted((r[0], r[2]) for r in rest if a <= r[2] <= b and r[0].startswith(pf))
        if want != have:
            problems.append({"filler_lines": [a, b], "expected": want, "got": have})
    return problems


# ------------------------------------------------------------------ Coq judging of the modelled detectors
def _ireps(reports, fname, rule, colback=None):
    out = []
    for r in reports:
        if r[0] == rule and r[1] == fname:
            col = r[3]
            if colback is not None:
                col = colback(r[2], r[3])
            msg = r[4]
            if rule == MP_RULE:      # message texts of this rule are not modelled: class and method name stand for the message
                m = re.match(r"Method '([^']*)'(?: in class '([^']*)')?", msg)
                msg = f"{m.group(2) or ''}|{m.group(1)}" if m else msg
            out.append(f"({r[2]}, {col}, {coq.coq_string(msg)})")
    return coq.coq_list(out)


def coq_emb(case) -> str | None:
    ctx, h = case["ctx"], case["emb"]["h"]
    if ctx[0] == "times":
        return f"(ECopies {ctx[1]} {h + GAP})"
    if ctx[0] == "rename":
        return "(ERename " + coq.coq_list([f"({coq.coq_string(a)}, {coq.coq_string(b)})" for a, b in case["emb"]["plan"].items()]) + ")"
    term, role = E.ctx_to_coq(ctx, h)
    case["hole_role"] = role
    return f"(EPlug {term})"


JUDGE_FILES = ["Lib/Base.v", "Lib/GenTypes.v", "Gen/EmbedGen.v", "Gen/Embed2Gen.v", "Model/Embed.v", "Model/PrintStmt.v", "Model/PerfConcat.v",
               "Model/StatelessCls.v", "Model/MethodProp.v", "Model/CondVerbose.v", "Model/RegexLoop.v", "Model/EmbedRun.v", "Model/EmbedRun2.v",
               "Actual/EmbedActual.v"]


def snapshot_judge_dir(wd: Path):
    """when the generated layer of the tree under test no longer fits the models (a translator item failed closed), the models
    cannot be evaluated and no concrete input could be named.  Fallback: a scratch copy of the judge's cone (models only, no
    proofs) with Gen taken from coq/Gen.expected, the generated layer of the UNCHANGED tree.  Results obtained this way say
    how the implementation under test differs from the behaviour the theorems were proved about; the broken obligations
    stay broken.  Returns the scratch `theories` directory or None."""
    import shutil
    import subprocess
    th = wd / "snap" / "theories"
    for rel in JUDGE_FILES:
        dst = th / rel
        dst.parent.mkdir(parents=True, exist_ok=True)
        src = (coq.COQ / "Gen.expected" / (Path(rel).name + ".txt")) if rel.startswith("Gen/") else (coq.COQ / "theories" / rel)
        if not src.exists():
            return None
        shutil.copy(src, dst)
    for rel in JUDGE_FILES:
        p = subprocess.run(["timeout", "600", "coqc", "-Q", str(th), "TL", "-w", "-notation-overridden", str(th / rel)],
                           capture_output=True, text=True, cwd=str(th.parent))
        if p.returncode != 0:
            return None
    return th


def judge_all(frags, cases, workdir, per_shard=6):
    """frags: {fid: frag}; cases: list of embedded python cases.  Returns ({fid: iso bits}, {case idx: bits}, {case idx: algebra_ok})"""
    by_frag = {}
    for i, c in enumerate(cases):
        by_frag.setdefault(c["fid"], []).append(i)
    fids = [fid for fid, f in frags.items() if f.get("coq")]
    shards, index = [], []
    for s in range(0, len(fids), per_shard):
        body, idx = [], []
        for fid in fids[s:s + per_shard]:
            f = frags[fid]
            name = f["files"][0]["name"]
            me = f"frag_{len(idx)}"
            body.append(f"Definition {me} := {f['coq']}.")
            body.append(f"Definition iso_{me} := Eval vm_compute in (all_outs {ACTUALS} {me}).")
            impls = " ".join(_ireps(f['iso']['v'], name, r) for r in [PRINT_RULE] + [d["rule"] for d in DETECTORS])
            body.append(f"Eval vm_compute in (judge_iso2 {ACTUALS} iso_{me} {impls}).")
            idx.append(("iso", fid))
            for i in by_frag.get(fid, []):
                c = cases[i]
                if c.get("coq_emb") is None:
                    continue
                back = None
                if c["ctx"][0] == "rename":
                    cm = c["emb"]["colmap"]
                    back = lambda line, col, cm=cm: _col_back(cm, line, col)   # noqa: E731
                role = c.get("hole_role", "body")
                if role == "body":
                    fx, io = me, f"iso_{me}"
                else:      # else / finally positions: the fragment's statements hang under that field of the wrapper
                    fx = f"(rerole {coq.coq_string(role)} {me})"
                    io = f"(all_outs {ACTUALS} {fx})"
                impls = " ".join(_ireps(c['got']['v'], name, r, back) for r in [PRINT_RULE] + [d["rule"] for d in DETECTORS])
                body.append(f"Eval vm_compute in (judge_embed2 {ACTUALS} {c['coq_emb']} {fx} {io} {impls}).")
                idx.append(("emb", i))
                if c.get("check_algebra"):
                    body.append(f"Eval vm_compute in (algebra_ok {c['coq_emb']} {fx} {E.forest(c['emb']['text'])}).")
                    idx.append(("alg", i))
        shards.append("\n".join(body))
        index.append(idx)
    shards = [intern_literals(b) for b in shards]
    if os.environ.get("C19_KEEP"):
        Path(os.environ["C19_KEEP"]).mkdir(exist_ok=True)
        for k, b in enumerate(shards):
            (Path(os.environ["C19_KEEP"]) / f"s{k}.v").write_text(HEADER + "\n".join("Time " + l for l in b.split("\n")))
    outs = coq.eval_shards(workdir, HEADER, shards, timeout=900)
    iso_bits, emb_bits, alg = {}, {}, {}
    for idx, out in zip(index, outs):
        if len(out) != len(idx):
            raise RuntimeError(f"expected {len(idx)} results, got {len(out)}")
        for (kind, key), o in zip(idx, out):
            if kind == "iso":
                iso_bits[key] = [[bool(b) for b in l] for l in o]
            elif kind == "emb":
                emb_bits[key] = [[bool(b) for b in l] for l in o]
            else:
                alg[key] = bool(o)
    return iso_bits, emb_bits, alg


_LIT = re.compile(r'"(?:[^"]|"")*"|(?<![A-Za-z_0-9\'])\d+(?![A-Za-z_0-9\'])')


def intern_literals(body: str) -> str:
    """Coq spends its time elaborating string and number literals (each is expanded to constructor terms): name every
    distinct literal of a shard once and refer to it"""
    table: dict[str, str] = {}

    def sub(m):
        lit = m.group(0)
        if lit not in table:
            table[lit] = f"lit_{len(table)}"
        return table[lit]

    new = _LIT.sub(sub, body)
    defs = "".join(f"Definition {v} := {k}.\n" for k, v in table.items())
    return defs + new


def _col_back(colmap, line, q):
    """column in the original text of column q of the renamed text"""
    shift = 0
    for a, g in colmap.get(line, []):
        if a + shift < q:
            shift += g
        else:
            break
    return q - shift


# ------------------------------------------------------------------ isolated verdict
def marked_lines(ex) -> list[int]:
    """lines the document marks; a marker on a comment-only line refers to the next code line"""
    lines = ex["code"].split("\n")
    out = []
    for m in ex["expected_lines"] or []:
        j = m
        while j <= len(lines) and re.match(r"^\s*(#|//)", lines[j - 1]):
            j += 1
        while j > 1 and re.match(r"^\s*\.", lines[j - 1]):      # a `.method()` continuation line: the call chain starts above
            j -= 1
        out.append(j)
    return sorted(out)


def isolated_verdict(ex, reports) -> str | None:
    """None when the isolated run agrees with the document, else what is wrong"""
    mine = [r for r in reports if r[0].startswith(ex["rule_prefix"])]
    if ex["verdict"] == "acceptable":
        return None if not mine else f"documented as acceptable but reported: {[(r[0], r[2]) for r in mine][:4]}"
    if not mine:
        return "documented as a violation but nothing is reported under rule id prefix " + ex["rule_prefix"]
    if ex["expected_lines"] and ex["linter"] in STATEMENT_LEVEL:
        want, got = marked_lines(ex), sorted(r[2] for r in mine)
        if want != got:
            return f"documented violation lines {want}, reported lines {got}"
    return None


# ------------------------------------------------------------------ main
def load_known(chk: Check):
    """known.d/C19.json is the per-property source of known_findings.json (assembled by tools/mkmanifest.py); read it
    directly so that the check does not depend on the assembly step having been run"""
    p = VERIF / "known.d" / f"{PROP}.json"
    if p.exists():
        chk.known = {"known": {}, "fixed": {}}      # known.d is authoritative for this property (known_findings.json may lag behind)
        for f in json.loads(p.read_text()).get("findings", []):
            if f.get("property") == PROP and f.get("status") == "known":
                chk.known["known"].setdefault(f["key"], f)
            elif f.get("property") == PROP and str(f.get("status", "")).startswith("fixed"):
                chk.known["fixed"].setdefault(f["key"], f)


def build_fragments(tier, seed, scale, extracted):
    frags = {}
    for ex in extracted["examples"]:
        frags[ex["id"]] = {"fid": ex["id"], "kind": "doc", "ex": ex, "lang": ex["lang"], "files": frag_files(ex),
                           "config": ex.get("config") or {}}
    n_gen = (40 if tier == "quick" else 500) * scale
    for i in range(n_gen):
        r = rng_for(seed, PROP, "gen", i)
        code = E.gen_fragment(r)
        fid = f"gen#{i}"
        ex = {"id": fid, "linter": "modelled", "rule_prefix": "\0", "pattern_linter": True, "lang": "py", "verdict": None,
              "expected_lines": None, "code": code, "schematic": None, "files": [], "doc_line": 0}
        frags[fid] = {"fid": fid, "kind": "gen", "ex": ex, "lang": "py", "files": [{"name": "pkg/sample_module.py", "code": code}], "config": {}}
    return frags


def corpus_fragments():
    out = {}
    d = VERIF / "corpus" / PROP
    for p in sorted(d.glob("*.json")):
        c = json.loads(p.read_text())
        fid = "corpus#" + p.stem
        ex = {"id": fid, "linter": c.get("linter", "modelled"), "rule_prefix": c.get("rule_prefix", "\0"), "pattern_linter": True,
              "lang": c.get("lang", "py"), "verdict": None, "expected_lines": None, "code": c["code"], "schematic": None, "files": [],
              "doc_line": 0, "only_classes": c.get("classes")}
        out[fid] = {"fid": fid, "kind": "corpus", "ex": ex, "lang": ex["lang"],
                    "files": [{"name": "pkg/sample_module" + docs2cases.EXT[ex["lang"]], "code": c["code"]}], "config": c.get("config") or {}}
    return out


def make_case(fr, cls, filler_texts):
    """the embedded case (fragment, context class), or the reason why the class does not apply to this fragment"""
    ex = fr["ex"]
    files, embs, ctx0 = [], [], None
    for f in fr["files"]:
        why = applicable(cls, ex, f["code"])
        if why:
            return why
        ctx = ctx_for(cls, fr["lang"], f["code"])
        if ctx is None:
            return "context class not defined for this language"
        emb = embed_text(ctx, fr["lang"], f["code"], spec_for(ex))
        if isinstance(emb, str):
            return emb
        if not parses(fr["lang"], emb["text"]):
            return "the embedded text is not well-formed (e.g. import/export inside a block)"
        files.append({"name": f["name"], "code": emb["text"]})
        embs.append(emb)
        ctx0 = ctx0 or ctx
        for lines in emb["filler"].values():
            filler_texts[tuple(lines)] = fr["lang"]
    return {"fid": fr["fid"], "cls": cls, "ctx": ctx0, "files": files, "embs": embs, "emb": embs[0]}


def classes_of(fr):
    return PY_CLASSES if fr["lang"] == "py" else TS_CLASSES if fr["lang"] in ("ts", "js") else []


def plan_cases(frags, fids, tier, seed, only, chk, filler_texts):
    """which (fragment, context class) pairs this run embeds.
    thorough: every documented example under every context class; generated fragments under a sample.
    quick: one PRNG chain per (linter, language) deals every context class to that linter's examples in turn - first to
    the examples that are reported in isolation (there is something to move), every other class also to an unreported
    one - so that every class is exercised for every linter in every run while each example gets only a share."""
    cases, never, done = [], {}, set()

    def add(fr, cls):
        c = make_case(fr, cls, filler_texts)
        if isinstance(c, str):
            chk.dist("not_applicable:" + ("excluded_by_documented_name_rules" if c.startswith("excluded by the documented") else cls.split(":")[0]))
            return False
        cases.append(c)
        done.add((fr["ex"]["linter"], fr["lang"] == "py", cls))
        return True

    groups: dict = {}
    for fid in fids:
        fr = frags[fid]
        ex = fr["ex"]
        if not ex.get("pattern_linter") or not classes_of(fr):
            continue
        if fid in only:
            for cls in only[fid]:
                add(fr, cls)
        elif ex.get("only_classes"):
            for cls in ex["only_classes"]:
                add(fr, cls)
        elif tier == "thorough" and fr["kind"] == "doc":
            for cls in classes_of(fr):
                add(fr, cls)
        else:
            groups.setdefault((ex["linter"], "py" if fr["lang"] == "py" else "ts"), []).append(fr)
    for (linter, lg), members in sorted(groups.items()):
        r = rng_for(seed, PROP, "deal", linter, lg)
        classes = list(PY_CLASSES if lg == "py" else TS_CLASSES)
        r.shuffle(classes)
        hot = [f for f in members if any(x[0].startswith(f["ex"]["rule_prefix"]) or x[0] in MODELLED for x in f["iso"]["v"])]
        cold = [f for f in members if f not in hot]
        r.shuffle(hot)
        r.shuffle(cold)
        rounds = 1 if tier == "quick" or linter != "modelled" else max(1, (8 * len(members)) // max(1, len(classes)))
        ph = pc = 0
        for rnd in range(rounds):
            for n, cls in enumerate(classes):
                placed = False
                for pool, every in ((hot, 1), (cold, 2)):
                    if not pool or (n + rnd) % every:
                        continue
                    start = ph if pool is hot else pc
                    for k in range(len(pool)):
                        if add(pool[(start + k) % len(pool)], cls):
                            placed = True
                            if pool is hot:
                                ph = (start + k + 1) % len(pool)
                            else:
                                pc = (start + k + 1) % len(pool)
                            break
                if not placed and (linter, lg == "py", cls) not in done:
                    never.setdefault(f"{linter}/{lg}", []).append(cls)
    if never:      # e.g. class renamings for a linter whose examples define no class
        chk.extra_cov["context_classes_without_an_applicable_example"] = {g: {"count": len(v), "first": sorted(v)[:8]} for g, v in never.items()}
    return cases


def _t(chk, what):
    now = time.time()
    chk.extra_cov.setdefault("phase_seconds", {})[what] = round(now - chk._tlast, 1)
    if os.environ.get("C19_DEBUG"):
        print(f"[c19] {what}: {now - chk._tlast:.1f}s", file=sys.stderr)
    chk._tlast = now


def run(tier: str, seed: int, replay: str | None = None) -> int:
    chk = Check(PROP, tier, seed)
    chk._tlast = time.time()
    load_known(chk)
    chk.rule = ("fragments = every fenced example of docs/*-linter.md that the document marks as violating or acceptable (re-extracted on "
                "every run) + seeded random Python fragments aimed at the modelled detectors (loops, += of strings / numbers / lists, "
                "prints, main blocks, logger calls under nested / negated / case-varied verbose-like tests of all four forms, re calls through module aliases / directly imported functions / compiled patterns with the imports and compile assignments at module level or local to a function); each fragment is linted alone and, for the pattern linters, embedded under context classes: every "
                "statement position of CPython (def, async def, nested def, method, class body, class in class, if / elif / else, for / "
                "while bodies and their else, try body / except / try-else / finally, with, match case, async for / async with) and of "
                "TS/JS (function, arrow callback, class method, if / else, for, while, do-while, try / catch / finally, switch case, "
                "namespace), after / before closed, open and name-sharing filler code, 2-5 copies, compositions, and identifier renamings "
                "Rn:<kind>:<position>:<token> that rename the class, function or variable identifiers the fragment binds by embedding a token "
                "linters are known to key on (test, Test, mixin, util, helper, manager, verbose, debug, log, tmp, _, __, single letters, "
                "UPPER case) as prefix / infix / suffix - consistently, and only within what the documents say about names "
                "(docs2cases.name_spec: names a document defines a pattern or exemption by are kept / never produced). thorough: every "
                "documented example under every class; quick: per (linter, language) one PRNG chain deals every class to the linter's "
                "examples in turn, so every class is exercised for every linter in every run. A case (fragment, context) is non-trivial "
                "when the fragment alone is reported by the linter under test or by a modelled rule, i.e. there is something to move; "
                "distinct = distinct (fragment text, context class)")
    chk.trusted_base += [
        "docs2cases: which fenced blocks count as examples and what the document claims about them (label / heading / inline marker rules, stated in translator/docs2cases.py); blocks it cannot parse are listed in the evidence, not judged",
        "CPython ast is the parser oracle of the modelled detectors: the abstract input is the image of ast.parse (harness/c19_embed.py conv); Model/Embed.v plug/copies/rename are compared with the parse of the really embedded text on sampled cases of every context class (algebra_ok)",
        "six detectors are modelled (print-statement, string-concat-loop, stateless-class, method-property, conditional-verbose, regex-in-loop; message texts of method-property are not modelled; the conditional-verbose model reports the logger call position while the implementation prints a constant column taken from Gen); the others (pipeline, lbyl, stringly-typed, cqs, lazy-ignores, file-header, the TypeScript analyzers) are NOT modelled: for them the embedding law is tested on the implementation (metamorphic validation justified by the locality theorem, not a proof about those detectors)",
        "inline suppression directives are outside the models (fragments carrying noqa / thailint: comments are not judged by the models; C04 covers directives)",
    ]
    chk.build(["theories/Props/C19.v"], ["EmbedGen", "Embed2Gen"], known_v=["theories/Props/C19Known.v"])
    _t(chk, "build")
    # only the hand-modelled sources of THIS property enlarge its budget (the shared fingerprint file covers all properties)
    from translator import items_embed, items_embed2
    mine = {f"{rel}::{','.join(names)}" for rel, names in items_embed.FINGERPRINTS + items_embed2.FINGERPRINTS}
    chk.fingerprint_changed = [k for k in chk.fingerprint_changed if k in mine]
    scale = chk.budget_scale()
    extracted = docs2cases.extract()
    chk.extra_cov["documented_examples"] = len(extracted["examples"])
    chk.extra_cov["docs_extraction_stats"] = extracted["stats"]
    chk.extra_cov["unparsable_examples"] = extracted["unparsable"]
    chk.extra_cov["schematic_examples_not_judged_in_isolation"] = sorted(e["id"] for e in extracted["examples"] if e["schematic"])
    for u in extracted["unknown_docs"]:
        chk.broken.append(f"Docs:{u} (docs2cases does not know this linter document: fail-closed)")
    if not extracted["examples"]:
        chk.broken.append("Docs:no documented example could be extracted")
    ns = docs2cases.name_spec()
    NAME_SPEC.clear()
    NAME_SPEC.update(ns["spec"])
    chk.extra_cov["documented_name_rules"] = ns["spec"]
    for u in ns["problems"]:
        chk.broken.append(f"Docs:{u} (the documented name rules that renamings must respect could not be read: fail-closed)")

    if replay:
        rp = json.loads(Path(replay).read_text())["violation"]
        fr = rp["fragment"]
        frags = {fr["fid"]: fr}
        only = {fr["fid"]: [rp["context_class"]]} if rp.get("context_class") not in (None, "Isolated") else {fr["fid"]: []}
    else:
        frags = corpus_fragments()
        frags.update(build_fragments(tier, seed, scale, extracted))
        only = {}

    # ---------------- isolated runs (+ filler code alone)
    fids = list(frags)
    isos = pool_map(run_impl, [{"files": frags[f]["files"], "config": frags[f]["config"]} for f in fids], procs=4)
    for f, r in zip(fids, isos):
        frags[f]["iso"] = r
    _t(chk, "isolated runs")

    # ---------------- embedded cases
    filler_texts = {}
    cases = plan_cases(frags, fids, tier, seed, only, chk, filler_texts)
    chk.extra_cov["context_classes"] = {"python": len(PY_CLASSES), "typescript_javascript": len(TS_CLASSES)}
    gots = pool_map(run_impl, [{"files": c["files"], "config": frags[c["fid"]]["config"]} for c in cases], procs=4)
    for c, g in zip(cases, gots):
        c["got"] = g
    fill_keys = list(filler_texts)
    fill_runs = pool_map(run_impl, [{"files": [{"name": "pkg/sample_module" + docs2cases.EXT[filler_texts[k]], "code": "\n".join(k) + "\n"}]} for k in fill_keys], procs=4)
    filler_iso = {k: [x for x in fr_["v"]] for k, fr_ in zip(fill_keys, fill_runs)}
    _t(chk, "embedded runs")

    # ---------------- Coq: models of the two detectors on every Python fragment and case
    seen_alg = {}
    for fid in fids:
        fr = frags[fid]
        if fr["lang"] != "py" or len(fr["files"]) != 1:
            continue
        code = fr["files"][0]["code"]
        if re.search(r"noqa|thailint:|pylint:|type:\s*ignore", code):
            chk.dist("model_domain:skipped_suppression_comment")
            continue
        try:
            fr["coq"] = E.forest(code)
        except (E.NonAscii, SyntaxError, RecursionError):
            chk.dist("model_domain:skipped_non_ascii_identifier")
    for i, c in enumerate(cases):
        fr = frags[c["fid"]]
        if not fr.get("coq"):
            continue
        relevant = (fr["kind"] != "doc" or fr["ex"]["linter"] in MODELLED_LINTERS
                    or any(r[0] in MODELLED for r in fr["iso"]["v"]) or any(r[0] in MODELLED for r in c["got"]["v"]))
        if not relevant and tier == "quick":
            chk.dist("model_embedded:skipped_no_modelled_report")
            continue
        try:
            c["coq_emb"] = coq_emb(c)
        except (ValueError, AttributeError, TypeError, E.NonAscii, SyntaxError) as e:
            chk.notes.append(f"context {c['cls']} of {c['fid']} could not be expressed in the algebra: {e}")
            continue
        k = seen_alg.get(c["cls"], 0)
        if k < (2 if tier == "quick" else 6):
            seen_alg[c["cls"]] = k + 1
            c["check_algebra"] = True
    iso_bits, emb_bits, alg = {}, {}, {}
    snapshot_used = False
    with scratch_dir("tv-c19-coq-") as wd:
        try:
            iso_bits, emb_bits, alg = judge_all(frags, cases, wd)
        except RuntimeError as e:
            chk.broken.append(f"Model:evaluation of the models failed ({str(e)[:600]})")
            th = snapshot_judge_dir(wd)
            if th is not None:
                old_th = coq.TH
                coq.TH = th
                try:
                    iso_bits, emb_bits, alg = judge_all(frags, cases, wd / "snapshot-judging")
                    snapshot_used = True
                    chk.notes.append("the models could not be evaluated against the generated layer of this tree; cases were judged against the "
                                     "models built from coq/Gen.expected (the generated layer of the unchanged tree) to name concrete inputs")
                except RuntimeError as e2:
                    chk.notes.append(f"judging against the Gen.expected snapshot failed as well: {str(e2)[:300]}")
                finally:
                    coq.TH = old_th
    _t(chk, "coq judging")

    # ---------------- decisions
    first_mismatch: dict = {}              # per detector: a file on which the implementation matches no candidate quirk vector
    cands_all = [None] * len(DETECTORS)    # per detector: does the implementation match [actual, -flag..., ideal] on every file?
    pr_all = True

    def upd(k, bits):
        cands_all[k] = bits if cands_all[k] is None else [a and b for a, b in zip(cands_all[k], bits)]

    for fid in fids:
        fr = frags[fid]
        ex, iso = fr["ex"], fr["iso"]
        chk.dist("fragment:" + fr["kind"] + ":" + fr["lang"])
        if iso.get("error") or iso["failures"]:
            chk.violation({"reason": "linting the isolated example failed internally", "detail": iso.get("error") or iso["failures"][:3],
                           "fragment": _frag_payload(fr), "context_class": "Isolated"})
            continue
        reported = [r for r in iso["v"] if r[0].startswith(ex["rule_prefix"]) or r[0] in MODELLED]
        chk.count([fid, fr["files"], "Isolated"], bool(reported))
        if fr["kind"] == "doc":
            chk.dist("linter:" + ex["linter"])
            chk.sample({"example": fid, "doc_line": ex["doc_line"], "verdict": ex["verdict"], "isolated_reports": [r for r in iso["v"] if r[0].startswith(ex["rule_prefix"])][:3]}, 4)
            if ex["schematic"]:
                chk.dist("isolated:schematic_not_judged")
            else:
                bad = isolated_verdict(ex, iso["v"])
                chk.dist("isolated:" + ("agrees" if bad is None else "disagrees"))
                if bad is not None:
                    key = f"{ex['linter']}|{fid}|Isolated"
                    case = {"reason": bad, "fragment": _frag_payload(fr), "context_class": "Isolated", "key": key}
                    if key in chk.known["fixed"]:
                        case["reason"] = f"finding {key} is recorded as fixed but was observed again: " + case["reason"]
                    if key in chk.known["known"] or key in chk.known["fixed"]:
                        chk.known_finding(key, case)
                    else:
                        chk.violation(case)
        if fid in iso_bits:
            b = iso_bits[fid]
            chk.traces_validated += 1
            pr_all = pr_all and b[0][0]
            for k in range(len(DETECTORS)):
                upd(k, b[1 + k])
                if not any(b[1 + k]) and k not in first_mismatch:
                    first_mismatch[k] = {"fragment": fid, "text": fr["files"][0]["code"][:1200],
                                         "impl": [r for r in iso["v"] if r[0] == DETECTORS[k]["rule"]][:8]}
            if not b[0][0]:
                chk.correspondence_broken({"level": "print model vs implementation (isolated)", "fragment": fid, "text": fr["files"][0]["code"][:800],
                                           "impl": [r for r in iso["v"] if r[0] == PRINT_RULE]})

    cli_done = set()
    cli_jobs = []
    for i, c in enumerate(cases):
        fr = frags[c["fid"]]
        ex, iso, got = fr["ex"], fr["iso"], c["got"]
        chk.dist("context:" + c["cls"])
        if got.get("error") or got["failures"]:
            chk.violation({"reason": "linting the embedded example failed internally", "detail": got.get("error") or got["failures"][:3],
                           "fragment": _frag_payload(fr), "context_class": c["cls"], "embedded": c["files"]})
            continue
        prefixes = [ex["rule_prefix"]] + (list(MODELLED) if fr["lang"] == "py" else [])
        if c["cls"] in E.LOOP_CLASSES:      # a loop around the fragment is not a neutral context for the loop rules
            prefixes = [p for p in prefixes if not p.startswith("performance")]
        moved = [r for r in iso["v"] if r[0].startswith(tuple(prefixes))]
        chk.count([c["fid"], fr["files"], c["cls"]], bool(moved))
        problems = []
        for f, emb in zip(c["files"], c["embs"]):
            problems += law_check(iso["v"], filler_iso, emb, got["v"], f["name"], prefixes)
        bits = emb_bits.get(i)
        if bits is not None:
            chk.traces_validated += 1
            pr_all = pr_all and bits[0][0]
            for k, d in enumerate(DETECTORS):
                upd(k, bits[1 + k][:len(d["flags"]) + 2])
            if not bits[0][0]:
                chk.correspondence_broken({"level": "print model vs implementation (embedded)", "fragment": c["fid"], "context_class": c["cls"],
                                           "text": c["files"][0]["code"][:800], "impl": [r for r in got["v"] if r[0] == PRINT_RULE]})
            doms = bits[-1]
            if doms[0] and not bits[0][1]:
                chk.broken.append(f"Model:print model violates its own locality theorem on {c['fid']} / {c['cls']} (impossible unless judge and theorem diverged)")
            for k, d in enumerate(DETECTORS):
                if doms[1 + k] and not bits[1 + k][-1]:
                    chk.broken.append(f"Model:ideal {d['name']} model violates its own locality theorem on {c['fid']} / {c['cls']}")
                chk.dist(f"{d['name']}_theorem_domain:" + ("in" if doms[1 + k] else "outside"))
        if i in alg and not alg[i]:
            chk.correspondence_broken({"level": "algebra: plug/copies/rename differs from the parse of the embedded text", "fragment": c["fid"],
                                       "context_class": c["cls"], "text": c["files"][0]["code"][:800]})
        # one CLI cross-check per linter (an embedded example that is reported)
        if (fr["kind"] == "doc" and ex["linter"] in CLI_CMD and ex["linter"] not in cli_done and not fr["config"]
                and len(fr["files"]) == 1 and any(r[0].startswith(ex["rule_prefix"]) for r in got["v"])):
            cli_done.add(ex["linter"])
            cli_jobs.append((c, {"files": c["files"], "cmd": CLI_CMD[ex["linter"]]}))
        if moved and fr["kind"] == "doc":
            chk.sample({"example": c["fid"], "context_class": c["cls"], "embedded_text": c["files"][0]["code"][:500],
                        "isolated_reports": moved[:3], "embedded_reports": [r for r in got["v"] if r[0].startswith(tuple(prefixes))][:3]}, 7)
        if not problems:
            continue
        payload = {"reason": "embedding law fails on the implementation: reports inside the embedded example are not the isolated reports moved by the context's offset (or the filler code is reported differently than alone)",
                   "problems": problems[:6], "fragment": _frag_payload(fr), "context_class": c["cls"], "embedded": c["files"],
                   "isolated_reports": moved[:10], "embedded_reports": [r for r in got["v"] if r[0].startswith(tuple(prefixes))][:12]}
        rules_hit = set()
        for p in problems:
            for k in ("missing", "unexpected"):
                if k in p:
                    rules_hit.add(p[k][0])
            for k in ("expected", "got"):
                for t in p.get(k, []):
                    rules_hit.add(t[0])
        for rule in sorted(rules_hit):
            det = next((k for k, d in enumerate(DETECTORS) if d["rule"] == rule), None)
            if det is not None and fr["lang"] == "py":
                d = DETECTORS[det]
                nf = len(d["flags"])
                if bits is None:
                    if c.get("coq_emb") is not None and not emb_bits and any(k in chk.known["known"] for k in d["flags"]):
                        # the case was given to the judge but the model could not be evaluated at all (broken build): a law failure of a
                        # detector with listed defects cannot be attributed - it is not shown as the failing input of this run
                        msg = f"Model:{d['name']} law failures could not be attributed to the listed defects because the model could not be evaluated"
                        if msg not in chk.broken:
                            chk.broken.append(msg)
                        continue
                    chk.violation({**payload, "note": f"{d['name']} law failure on a file outside the model's domain"})
                    continue
                cand = bits[1 + det][:nf + 2]
                law = bits[1 + det][nf + 2:]
                iso_ok = iso_bits.get(c["fid"], [[0]] * (2 + det))[1 + det][0]
                explained = cand[0] and law[nf + 1] and not law[0] and iso_ok
                relevant = [d["flags"][k] for k in range(nf) if not cand[1 + k] or law[1 + k] != law[0]]
                if explained and not relevant:
                    relevant = list(d["flags"])
                if explained:
                    for k in relevant:
                        chk.known_finding(k, {"fragment": fr["files"][0]["code"], "context_class": c["cls"], "embedded": c["files"][0]["code"],
                                              "problems": problems[:3]})
                else:
                    chk.violation({**payload, "model_actual_matches_impl": cand[0], "ideal_model_satisfies_law": law[nf + 1], "actual_model_satisfies_law": law[0]})
            elif rule == PRINT_RULE and fr["lang"] == "py":
                chk.violation({**payload, "note": "the print-statement detector is proved local; no known finding can explain this"})
            else:
                linter = ex["linter"] if rule.startswith(ex["rule_prefix"]) else rule.split(".")[0]
                key = f"{linter}|{c['fid']}|{c['cls']}"
                if key in chk.known["fixed"]:
                    chk.known_finding(key, {**payload, "key": key, "reason": f"finding {key} is recorded as fixed but was observed again: " + payload["reason"]})
                elif key in chk.known["known"]:
                    chk.known_finding(key, {**payload, "key": key})
                else:
                    chk.violation({**payload, "key": key, "rule": rule})

    if cli_jobs and not replay:
        outs = pool_map(run_cli_job, [j for _, j in cli_jobs], procs=4)
        for (c, j), o in zip(cli_jobs, outs):
            fr = frags[c["fid"]]
            pre = fr["ex"]["rule_prefix"]
            chk.dist("via:cli")
            if "error" in o:
                chk.violation({"reason": "CLI run failed", "detail": o, "fragment": _frag_payload(fr), "context_class": c["cls"]})
                continue
            a = sorted([r[0], r[2]] for r in c["got"]["v"] if r[0].startswith(pre))
            b = sorted(x for x in o["v"] if x[0].startswith(pre))
            if a != b:
                chk.violation({"reason": "CLI and in-process results differ on the embedded example", "cli": b, "api": a,
                               "fragment": _frag_payload(fr), "context_class": c["cls"], "embedded": c["files"]})

    if not pr_all:
        pass   # already recorded case by case
    for k, d in enumerate(DETECTORS):
        if cands_all[k] is not None and not cands_all[k][0]:
            names = ["actual"] + ["actual without " + f for f in d["flags"]] + ["ideal"]
            alt = [j for j, ok in enumerate(cands_all[k]) if ok]
            if alt:
                chk.notes.append(f"{d['name']} implementation no longer matches the claimed quirk vector but matches: " + names[alt[0]] +
                                 " on every file (a listed defect is no longer observed; the locality theorem covers that vector)")
            else:
                chk.correspondence_broken({"level": "observable" + (" (models built from the Gen.expected snapshot)" if snapshot_used else ""),
                                           "detail": f"{d['model']} under Actual/EmbedActual.v disagrees with the implementation and no candidate quirk vector matches all files",
                                           "example_input": first_mismatch.get(k)})
    _t(chk, "decisions")
    # show a failure that is new in kind first: string-concat failures that could not be attributed only because the
    # model could not be evaluated look like the listed findings and go last
    chk.violations.sort(key=lambda v: 1 if "outside the model's domain" in str(v.get("note", "")) else 0)
    if os.environ.get("C19_DUMP"):
        Path(os.environ["C19_DUMP"]).write_text(json.dumps({"violations": chk.violations, "known_seen": chk.known_seen, "broken": chk.broken,
                                                            "corr": chk.corr_broken, "fingerprint_changed": chk.fingerprint_changed}, indent=1, default=str))
    return chk.finish()


def _frag_payload(fr):
    return {"fid": fr["fid"], "kind": fr["kind"], "lang": fr["lang"], "files": fr["files"], "config": fr["config"],
            "ex": {k: v for k, v in fr["ex"].items() if k != "code"} | {"code": fr["ex"].get("code", "")}}
