"""C11: the healthy files among which offending files are placed, and the donors that get mutated.

Every template is parametrised by an index k so that identifiers, numbers and string literals differ from
file to file: two different pool files never share a 3-line window (no DRY duplicates across them) nor a
repeated string validation, so a mutated donor placed among siblings has no *legitimate* cross-file influence
on them.  The twin pair deliberately shares a block (the siblings then have cross-file findings of their own).
"""
from __future__ import annotations

PY = '''"""
Purpose: order handling number {k} — Größe 中文 😀
"""
import re
import os

LIMIT{w} = 3{k}7
NAMES{w} = ["n{w}a", "n{w}b"]


class Basket{w}:
    """holds items{w}"""

    def __init__(self, owner{w}):
        self.owner{w} = owner{w}
        self.items{w} = []

    def get_owner{w}(self):
        return self.owner{w}

    def add{w}(self, item{w}, qty{w}):
        if qty{w} > 4{k}2:
            for part{w} in item{w}:
                if part{w}:
                    while qty{w} > 0:
                        if qty{w} % 2 == 0:
                            try:
                                qty{w} -= 9{k}1
                            except ValueError:
                                qty{w} = 0
                        qty{w} -= 1
        self.items{w}.append(item{w})
        return len(self.items{w})

    def total{w}(self):
        acc{w} = ""
        for it{w} in self.items{w}:
            acc{w} += str(it{w})
            pat{w} = re.compile("x{w}+")
            print("item{w} → ü", it{w}, pat{w})
        return acc{w}


class Helper{w}:
    def shout{w}(self, text{w}):
        return text{w}.upper() + "!{w}"


def pick{w}(mapping{w}, key{w}):
    if key{w} in mapping{w}:
        value{w} = mapping{w}[key{w}]
    else:
        value{w} = 5{k}3
    out{w} = []
    for entry{w} in mapping{w}:
        if not entry{w}:
            continue
        if entry{w} == "skip{w}":
            continue
        out{w}.append(entry{w})
    return value{w}, out{w}


def mode{w}(kind{w}):
    if kind{w} in ("fast{w}", "slow{w}", "idle{w}"):
        return 6{k}4
    if os.path.exists(kind{w}):
        return open(kind{w}).read()
    return 7{k}5 * 1.{k}5
'''

TS = '''/**
 * Purpose: cart handling number {k} — café 中文 😀
 */
import {{ thing{w} }} from "./thing{w}";

const RATE{w} = 4{k}1;

export class Cart{w} {{
  private items{w}: number[] = [];

  constructor(private owner{w}: string) {{}}

  getOwner{w}(): string {{
    return this.owner{w};
  }}

  add{w}(item{w}: number, qty{w}: number): number {{
    if (qty{w} > 8{k}3) {{
      for (const part{w} of [item{w}]) {{
        if (part{w}) {{
          while (qty{w} > 0) {{
            if (qty{w} % 2 === 0) {{
              try {{
                qty{w} -= 9{k}7;
              }} catch (e{w}) {{
                qty{w} = 0;
              }}
            }}
            qty{w} -= 1;
          }}
        }}
      }}
    }}
    this.items{w}.push(item{w});
    console.log("added{w} é→", item{w});
    return this.items{w}.length;
  }}

  total{w}(): string {{
    let acc{w} = "";
    for (const it{w} of this.items{w}) {{
      acc{w} += String(it{w});
    }}
    return acc{w};
  }}
}}

export function mode{w}(kind{w}: string): number {{
  if (kind{w} === "fast{w}" || kind{w} === "slow{w}") {{
    return 6{k}9;
  }}
  const table{w} = [1{k}1, 2{k}2, 0x1{k}F];
  return table{w}[0] * 3.{k}5;
}}

export const arrow{w} = (a{w}: number) => {{
  if (a{w} > 5{k}8) {{
    return thing{w}(a{w});
  }}
  return a{w} + 7{k}7;
}};
'''

JS = '''// Purpose: queue{w} handling number {k} — naïve 中文
const depth{w} = 4{k}4;

function drain{w}(queue{w}, limit{w}) {{
  let text{w} = "";
  for (const job{w} of queue{w}) {{
    if (job{w}) {{
      if (limit{w} > 8{k}8) {{
        while (limit{w} > 0) {{
          if (limit{w} % 2 === 0) {{
            limit{w} -= 6{k}6;
          }}
          limit{w} -= 1;
        }}
      }}
    }}
    text{w} += job{w};
    console.log("job{w} ü😀", job{w});
  }}
  return text{w} + depth{w};
}}

class Runner{w} {{
  run{w}(x{w}) {{
    return x{w} * 9{k}9;
  }}
}}

module.exports = {{ drain{w}, Runner{w} }};
'''

RS = '''//! Purpose: ledger handling number {k} — über 中文
use std::collections::HashMap;

const CAP{w}: u32 = 5{k}5;

pub struct Ledger{w} {{
    entries{w}: HashMap<String, u32>,
}}

impl Ledger{w} {{
    pub fn new() -> Self {{
        Ledger{w} {{ entries{w}: HashMap::new() }}
    }}

    pub fn add{w}(&mut self, key{w}: &str, amount{w}: u32) -> u32 {{
        if amount{w} > 7{k}3 {{
            for part{w} in key{w}.chars() {{
                if part{w} == 'x' {{
                    while self.entries{w}.len() > 3{k}1 {{
                        if amount{w} % 2 == 0 {{
                            match self.entries{w}.get(key{w}) {{
                                Some(v{w}) => {{ return *v{w}; }}
                                None => {{ break; }}
                            }}
                        }}
                        break;
                    }}
                }}
            }}
        }}
        let copy{w} = key{w}.to_string().clone();
        self.entries{w}.insert(copy{w}, amount{w});
        let got{w} = self.entries{w}.get(key{w}).unwrap();
        *got{w} + 9{k}2
    }}

    pub fn names{w}(&self, items{w}: &Vec<String>) -> Vec<String> {{
        let mut out{w} = Vec::new();
        for it{w} in items{w} {{
            out{w}.push(it{w}.clone());
        }}
        out{w}
    }}
}}

pub async fn load{w}(path{w}: &str) -> String {{
    let data{w} = std::fs::read_to_string(path{w}).expect("read{w} é😀");
    std::thread::sleep(std::time::Duration::from_millis(6{k}4));
    data{w}
}}

#[cfg(test)]
mod tests{w} {{
    #[test]
    fn t{w}() {{
        let v{w}: Option<u32> = Some(4{k}9);
        assert_eq!(v{w}.unwrap(), 4{k}9);
    }}
}}
'''

# a block shared by the two twins (cross-file DRY finding among the siblings themselves)
TWIN_BLOCK_PY = '''def shared_twin(values):
    total = 0
    for value in values:
        total = total + value * 31337
        total = total - value // 4242
        total = total ^ 977
    average = total / max(len(values), 1)
    return total, average
'''

TEMPLATES = {"py": PY, "ts": TS, "js": JS, "rs": RS}
EXT = {"py": ".py", "ts": ".ts", "js": ".js", "rs": ".rs"}


SIB_WORDS = {1: "alfa", 2: "bravo", 3: "carol", 4: "delta", 5: "echo"}


def pool_file(lang: str, k: int) -> str:
    """k < 50: a sibling (names carry a word), k >= 50: a donor (names carry `dnr<k>`)"""
    return TEMPLATES[lang].format(k=k, w=SIB_WORDS.get(k, f"dnr{k}"))


# Twins whose shared block stands at the very top of the file, in plain statements without any bracket: whatever an analyzer
# carries over from the file processed before them (an unterminated import list, string, comment ...) hits these lines first.
TOP_BLOCK = {
    "py": "total_top = 0\ncounter_top = total_top + 17\nlimit_top = counter_top * 3\noffset_top = limit_top - 5\nwindow_top = offset_top + counter_top\n"
          "spread_top = window_top - limit_top\n",
    "ts": "let totalTop = 0;\nlet counterTop = totalTop + 17;\nlet limitTop = counterTop * 3;\nlet offsetTop = limitTop - 5;\nlet windowTop = offsetTop + counterTop;\n"
          "let spreadTop = windowTop - limitTop;\n",
    "rs": "const TOTAL_TOP: i64 = 0;\nconst COUNTER_TOP: i64 = TOTAL_TOP + 17;\nconst LIMIT_TOP: i64 = COUNTER_TOP * 3;\nconst OFFSET_TOP: i64 = LIMIT_TOP - 5;\n"
          "const WINDOW_TOP: i64 = OFFSET_TOP + COUNTER_TOP;\nconst SPREAD_TOP: i64 = WINDOW_TOP - LIMIT_TOP;\n",
}
STRINGLY_PY = (
    "\n\ndef check_state_{w}(state_{w}):\n"
    "    if state_{w} in (\"open\", \"closed\", \"held\"):\n"
    "        return state_{w} == \"open\"\n"
    "    return False\n"
)


def top_twins() -> list[tuple[str, str]]:
    out = []
    for lang in ("py", "ts"):      # duplicate-code has no Rust analyzer
        for w in ("a", "b"):
            tail = {"py": f"print(spread_top, '{w}')\n" + STRINGLY_PY.format(w=w),
                    "ts": f"console.log(spreadTop, '{w}');\n",
                    "rs": f"pub fn shown_{w}() -> i64 {{ SPREAD_TOP }}\n"}[lang]
            out.append((f"top_{w}{EXT[lang]}", TOP_BLOCK[lang] + tail))
    return out


def siblings() -> list[tuple[str, str]]:
    """the healthy files of every run: (name, text).  Indices 1..; donors use indices >= 50."""
    out = []
    for lang, ks in (("py", (1, 2)), ("ts", (3,)), ("js", (4,)), ("rs", (5,))):
        for k in ks:
            out.append((f"sib{k}{EXT[lang]}", pool_file(lang, k)))
    out.append(("twin_a.py", '"""\nPurpose: twin a\n"""\n' + TWIN_BLOCK_PY + "\n\ndef only_a(x):\n    return x\n"))
    out.append(("twin_b.py", '"""\nPurpose: twin b\n"""\n' + TWIN_BLOCK_PY + "\n\ndef only_b(y):\n    return y\n"))
    return out + top_twins()


def donor(lang: str, k: int) -> str:
    return pool_file(lang, 50 + k)
