"""C18 — file-placement verdicts follow the allow/deny rules exactly."""
from __future__ import annotations

import json
import os
import re
import warnings
from pathlib import Path

from harness import coq
from harness.common import VERIF, drain_failures, make_orchestrator, parse_json_violations, pool_map, rng_for, run_cli, scratch_dir
from harness.framework import Check

PROP = "C18"
PROCS = max(1, int(os.environ.get("VERIF_PROCS", "8")))   # worker processes (implementation runs) / coqc shards in flight
FLAGS = ["q_global_on_covered", "q_prefix_without_separator", "q_path_relative_to_cwd", "q_allow_dict_unsupported",
         "q_trailing_slash_depth", "q_backslash_separator", "q_rules_toplevel_ignored", "q_rules_do_not_override_file"]
HEADER = ("From TL Require Import Lib.Base Lib.GenTypes Model.PlacementTypes Gen.PlacementGen Model.Placement "
          "Model.PlacementSource Model.PlacementRun Actual.PlacementActual.\n")

# ------------------------------------------------------------------ alphabets
DIR_KEYS = ["src", "src/api", "src/api/v1", "sr", "src2", "tests", "tests/unit", "docs", "lib", "src/ap", "/", "app",
            "src/models", "doc", "lib/core", "t", "README", "src/api2",
            # hidden directories (the key starts with a dot), at the root and nested
            ".github", ".github/workflows", ".config", "src/.hidden", ".g"]
DIRS = ["", "", "src", "src", "src/api", "src/api/v1", "src2", "src/api2", "tests", "tests/unit", "docs", "lib", "lib/core",
        "app", "src/models", "srcs/x", "testsuite", "doc", "docs/guide", "src/src",
        ".github", ".github/workflows", ".config", "src/.hidden", "github", "..data", ".githubx", "lib/.cache/.tmp"]
NAMES = ["a.py", "test_a.py", "ok.py", "h_api.py", "README.md", "x.txt", "notes.tmp", "Main.PY", "index.ts", "srcfile.py",
         "docs.md", "sr.py", "ok", "conftest.py", "b_test.py", "c.bak", "secret.txt", "t.py", "api.py", "user_model.py",
         # dot-files
         ".env", ".env.local", ".hidden.py", "..x.py", ".a", "ci.yml", "run.sh",
         # a backslash is an ordinary character of a POSIX file name
         "a\\b.py"]
PATTERNS = [r".*\.py$", r"test_.*\.py$", r"^src/", "ok", r"\.md$", r"^[^/]+$", r".*_api\.py$", "api",
            r"^(?!src/).*\.py$", r"\.tmp$", ".*", r"^tests/", r"\.(ts|txt)$", "[A-Z]", r"^src/api/", "x^", r".*_test\.py$",
            r"secret", r"^(src|lib)/.*\.py$", r"\.bak$", r"^[a-z_]+\.py$", r"/v1/", r"src", r"conftest\.py$",
            # anchored on a leading dot / on hidden components
            r"^\.env", r"^\.", r"(^|/)\.[^/]+$", r"^\.github/.*\.ya?ml$", r"^[^.]", r"/\."]
BAD_PATTERNS = ["(", "[a-", "*x", "(?P<n", "a{2,1}", r"\\1(", "(?z)"]
REASONS = ["no tests here", "Move it", "", "Python files must be in src/ or tests/", "backup file", "règle 7"]


# ------------------------------------------------------------------ generator
def _ditem(r, bad):
    p = r.choice(BAD_PATTERNS) if bad else r.choice(PATTERNS)
    k = r.random()
    if k < 0.5:
        return ["S", p]
    if k < 0.65:
        return ["D", p, r.choice(REASONS), None]
    if k < 0.8:
        return ["D", p, None, r.choice(REASONS)]
    if k < 0.9:
        return ["D", p, r.choice(REASONS), r.choice(REASONS)]
    return ["D", p, None, None]


def _aitem(r, bad, dicty):
    p = r.choice(BAD_PATTERNS) if bad else r.choice(PATTERNS)
    return ["D", p] if dicty else ["S", p]


def _rule(r, knobs):
    """shape first (neither / only allow / only deny / both), then each list possibly empty"""
    shape = r.choice(["neither", "allow", "allow", "deny", "deny", "both", "both", "both"])
    rule = {"allow": None, "deny": None}
    if shape in ("allow", "both"):
        n = 0 if r.random() < 0.12 else r.randint(1, 3)
        rule["allow"] = [_aitem(r, r.random() < knobs["bad"], r.random() < knobs["adict"]) for _ in range(n)]
    if shape in ("deny", "both"):
        n = 0 if r.random() < 0.12 else r.randint(1, 3)
        rule["deny"] = [_ditem(r, r.random() < knobs["bad"]) for _ in range(n)]
    return rule


def gen_case(seed: int, i: int, n_files: int):
    r = rng_for(seed, PROP, i)
    knobs = {"bad": 0.25 if r.random() < 0.07 else 0.0, "adict": 0.5 if r.random() < 0.08 else 0.0}
    cfg = {"dirs": None, "gdeny": None, "gpat": None}
    if r.random() < 0.88:
        keys = []
        for _ in range(r.choice([0, 1, 1, 2, 2, 3, 3, 4, 5])):
            k = r.choice(DIR_KEYS)
            if keys and r.random() < 0.35:   # a child or a string-extension of a key already chosen
                base = r.choice(keys)
                if base != "/":
                    k = base.rstrip("/") + r.choice(["/api", "/v1", "/core", "2", "s", "/unit", "64", "/.cache"])
            if not k.endswith("/") and r.random() < 0.3:   # the same directory written with a trailing slash
                k = k + "/"
            if k not in keys:
                keys.append(k)
        cfg["dirs"] = [[k, _rule(r, knobs)] for k in keys]
    if r.random() < 0.35:
        cfg["gdeny"] = [_ditem(r, r.random() < knobs["bad"]) for _ in range(r.randint(0, 2))]
    if r.random() < 0.35:
        cfg["gpat"] = _rule(r, knobs)
    via = r.choices(["api", "linter", "cli-rules", "cli-yaml", "cli-json"], [0.84, 0.10, 0.03, 0.02, 0.01])[0]
    wrap = r.choice(["file-placement", "file_placement", None]) if via in ("api", "linter", "cli-rules") else "file-placement"
    paths = []
    real_keys = [k.rstrip("/") for k, _ in (cfg["dirs"] or []) if k != "/"]
    for _ in range(n_files * 3):
        k = r.random()
        if real_keys and k < 0.5:      # directories in and around the configured keys
            base = r.choice(real_keys)
            d = r.choice([base, base, base + "/" + r.choice(["api", "v1", "sub", "unit", ".cache"]), base + "2", base + "s", base + "64",
                          base.rsplit("/", 1)[0] if "/" in base else "", base + "/" + r.choice(["api", "v1"]) + "/deep",
                          base[1:].lstrip("/") if len(base) > 1 else base])   # near miss: the key without its first character
        elif k < 0.62:
            d = ""
        else:
            d = r.choice(DIRS)
        name = r.choice(NAMES)
        if real_keys and not d and r.random() < 0.3:
            name = r.choice(real_keys).split("/")[0] + r.choice(["file.py", ".py", "_notes.md", "rary.txt", "\\x.py"])
        p = (d + "/" if d else "") + name
        if "/" in p and r.random() < 0.04:   # another file: one separator of the path is a backslash inside a name instead
            cut = r.choice([i for i, ch in enumerate(p) if ch == "/"])
            p = p[:cut] + "\\" + p[cut + 1:]
        if any(part in ("dist", "build", "venv", "htmlcov") for part in p.split("/")) or p.split("/")[-1] in ("src.py", "src"):
            continue   # hard-coded exclusions of the orchestrator; `src.py` would shadow the package under `python -m src.cli_main`
        if any(q.startswith(p + "/") or p.startswith(q + "/") for q in paths):
            continue   # a name cannot be both a file and a directory
        if p not in paths:
            paths.append(p)
        if len(paths) >= n_files:
            break
    # one working directory per case for the files handed over relative to it
    cwd_pool = sorted({"/".join(p.split("/")[:k]) for p in paths for k in range(1, p.count("/") + 1)})
    the_cwd = r.choice(cwd_pool) if cwd_pool and r.random() < 0.6 else ""
    files = []
    for p in paths:
        k = r.random()
        if the_cwd and p.startswith(the_cwd + "/") and k < 0.6:
            files.append({"cwd": the_cwd, "rest": p[len(the_cwd) + 1:], "relative": True})
        elif k < 0.25 or via not in ("api", "linter"):
            files.append({"cwd": "", "rest": p, "relative": True})
        else:
            files.append({"cwd": "", "rest": p, "relative": False})
    return finish_case({"i": i, "cfg": cfg, "files": files, "via": via, "wrap": wrap})


def relpath(f):
    return f["rest"] if not f["cwd"] else f["cwd"] + "/" + f["rest"]


def finish_case(case):
    """config file of the CLI modes is a file of the tree; drop files whose two readings collide inside one run"""
    if case["via"] == "cli-yaml":
        case["files"].append({"cwd": "", "rest": ".thailint.yaml", "relative": True})
    if case["via"] == "cli-json":
        case["files"].append({"cwd": "", "rest": ".thailint.json", "relative": True})
    seen, keep = set(), []
    for f in case["files"]:
        names = {relpath(f), f["rest"]}
        if names & seen:
            continue
        seen |= names
        keep.append(f)
    case["files"] = keep
    return case


def gen_cases(seed, n, n_files):
    return [gen_case(seed, i, n_files) for i in range(n)]


EMPTY_CFG = {"dirs": None, "gdeny": None, "gpat": None}


def src_of(case):
    """where the rule set of a case comes from: {"file": None | ["W", key, cfg] | ["U", cfg],
    "rules": None | ["W", key, cfg] | ["U", cfg] | ["T", rule]}; a config dict handed to Orchestrator(config=...) is the
    same thing as inline rules without a config file"""
    if "src" in case:
        return case["src"]
    if case["via"] in ("cli-yaml", "cli-json", "seq-file", "seq-linter"):
        return {"file": ["W", "file-placement", case["cfg"]], "rules": None}
    w = case.get("wrap")
    return {"file": None, "rules": ["W", w, case["cfg"]] if w else ["U", case["cfg"]]}


def spec_cfg(src):
    """the rule set in force according to the specification: inline rules replace the file's"""
    r, f = src["rules"], src["file"]
    if r is not None:
        return {"dirs": None, "gdeny": None, "gpat": r[1]} if r[0] == "T" else r[-1]
    return f[-1] if f is not None else EMPTY_CFG


def src_cfgs(src):
    out = []
    for x in (src["file"], src["rules"]):
        if x is not None:
            out.append({"dirs": None, "gdeny": None, "gpat": x[1]} if x[0] == "T" else x[-1])
    return out


def form_dict(x):
    """a file / rules form as the dict that is written to .thailint.yaml or passed to --rules"""
    if x[0] == "W":
        return {x[1]: cfg_dict(x[2])}
    if x[0] == "U":
        return cfg_dict(x[1])
    return cfg_dict({"dirs": None, "gdeny": None, "gpat": x[1]})["global_patterns"]


def gen_src(seed: int, i: int, n_files: int):
    """config file (wrapped under either spelling / top-level keys / none) x inline rules (wrapped / top-level keys /
    the documented {"allow": .., "deny": ..} form / none), through structure._setup_orchestrator in-process or the CLI"""
    r = rng_for(seed, PROP, "src", i)
    a = gen_case(seed, f"srcA{i}", n_files)
    b = gen_case(seed, f"srcB{i}", n_files)
    knobs = {"bad": 0.0, "adict": 0.0}
    k = r.random()
    ffile = None if k < 0.2 else (["W", r.choice(["file-placement", "file_placement"]), a["cfg"]] if k < 0.75 else ["U", a["cfg"]])
    k = r.random()
    if k < 0.1:
        rules = None
    elif k < 0.35:
        rules = ["W", r.choice(["file-placement", "file_placement"]), b["cfg"]]
    elif k < 0.7:
        rules = ["U", b["cfg"] if r.random() < 0.93 else EMPTY_CFG]
    else:
        rules = ["T", _rule(r, knobs)]
    via = "cli-src" if r.random() < 0.12 else "api-rules"
    files = [{"cwd": "", "rest": relpath(f), "relative": via == "cli-src" or f["relative"]} for f in a["files"]
             if f["rest"] not in (".thailint.yaml", ".thailint.json")]
    if ffile is not None:
        files.append({"cwd": "", "rest": ".thailint.yaml", "relative": via == "cli-src"})
    src = {"file": ffile, "rules": rules}
    return {"i": f"src{i}", "cfg": spec_cfg(src), "src": src, "files": files, "via": via, "wrap": None}


def gen_seq(seed: int, i: int, n_files: int):
    """a history in ONE process for ONE project root: rule set A, then a fresh Orchestrator / Linter with rule set B, then with
    no rules, then A again - through config dicts or through a .thailint.yaml rewritten between the runs.  Every step is an
    ordinary case: expected = specification of the CURRENT rule set."""
    r = rng_for(seed, PROP, "seq", i)
    a = gen_case(seed, f"seqA{i}", n_files)
    b = gen_case(seed, f"seqB{i}", n_files)
    mode = r.choice(["seq-dict", "seq-file", "seq-linter"])
    files = [f for f in a["files"] if f["rest"] not in (".thailint.yaml", ".thailint.json")]
    if mode != "seq-dict":
        files = files + [{"cwd": "", "rest": ".thailint.yaml", "relative": False}]
    order = r.choice([["A", "B", "E", "A"], ["A", "B", "E", "A"], ["B", "E", "A", "B"], ["A", "E", "B", "A"]])
    cfgs = {"A": a["cfg"], "B": b["cfg"], "E": EMPTY_CFG}
    steps = [{"i": f"seq{i}.{k}{name}", "cfg": cfgs[name], "files": files, "via": mode,
              "wrap": "file-placement" if mode != "seq-dict" else a.get("wrap")} for k, name in enumerate(order)]
    return {"seq": steps}


def flatten(items, impls):
    """(cases, impls) with the steps of a history as consecutive ordinary cases"""
    cs, ims = [], []
    for it, im in zip(items, impls):
        if "seq" in it:
            for k, (st, o) in enumerate(zip(it["seq"], im["steps"])):
                cs.append({**st, "history": {"seq": it["seq"][:k + 1]}})
                ims.append(o)
        else:
            cs.append(it)
            ims.append(im)
    return cs, ims


# ------------------------------------------------------------------ rendering
def cfg_dict(cfg):
    def ditem(x):
        if x[0] == "S":
            return x[1]
        d = {"pattern": x[1]}
        if x[2] is not None:
            d["reason"] = x[2]
        if x[3] is not None:
            d["message"] = x[3]
        return d

    def aitem(x):
        return x[1] if x[0] == "S" else {"pattern": x[1]}

    def rule(rl):
        out = {}
        if rl["allow"] is not None:
            out["allow"] = [aitem(a) for a in rl["allow"]]
        if rl["deny"] is not None:
            out["deny"] = [ditem(x) for x in rl["deny"]]
        return out
    out = {}
    if cfg["dirs"] is not None:
        out["directories"] = {k: rule(rl) for k, rl in cfg["dirs"]}
    if cfg["gdeny"] is not None:
        out["global_deny"] = [ditem(x) for x in cfg["gdeny"]]
    if cfg["gpat"] is not None:
        out["global_patterns"] = rule(cfg["gpat"])
    return out


def patterns_of(cfg):
    out = []

    def rule(rl):
        for a in rl["allow"] or []:
            out.append(a[1])
        for x in rl["deny"] or []:
            out.append(x[1])
    for _, rl in cfg["dirs"] or []:
        rule(rl)
    for x in cfg["gdeny"] or []:
        out.append(x[1])
    if cfg["gpat"] is not None:
        rule(cfg["gpat"])
    return list(dict.fromkeys(out))


def tabulate(case, norms=None):
    """the regex oracle of the case: patterns, validity per pattern (re.compile), and per file the rows
    re.search(pattern, s, IGNORECASE) for s = project-relative path, s = path as handed over, and for what the
    implementation's PathResolver.normalize_path_string returned for either (norms, computed next to the run)"""
    pats = list(dict.fromkeys(p for c in src_cfgs(src_of(case)) for p in patterns_of(c)))
    comp, vrow = [], []
    with warnings.catch_warnings():
        warnings.simplefilter("ignore")
        for p in pats:
            try:
                re.compile(p)
                comp.append(re.compile(p, re.IGNORECASE))
                vrow.append(True)
            except re.error:
                comp.append(None)
                vrow.append(False)
        rows = []
        for j, f in enumerate(case["files"]):
            strs = [relpath(f), f["rest"]] + (list(norms[j]) if norms else [])
            rows.append(tuple([c is not None and c.search(x) is not None for c in comp] for x in strs))
    return pats, vrow, rows


def s(x):
    return coq.coq_string(x)


def coq_opt(x, f):
    return "None" if x is None else f"(Some {f(x)})"


def coq_cfg(cfg):
    def ditem(x):
        if x[0] == "S":
            return f"DStr {s(x[1])}"
        return f"DDict {s(x[1])} {coq_opt(x[2], s)} {coq_opt(x[3], s)}"

    def aitem(x):
        return ("AStr " if x[0] == "S" else "ADict ") + s(x[1])

    def rule(rl):
        return ("{| r_allow := " + coq_opt(rl["allow"], lambda l: coq.coq_list([aitem(a) for a in l])) +
                "; r_deny := " + coq_opt(rl["deny"], lambda l: coq.coq_list([ditem(x) for x in l])) + " |}")
    return ("{| c_dirs := " + coq_opt(cfg["dirs"], lambda l: coq.coq_list([f"({s(k)}, {rule(rl)})" for k, rl in l])) +
            "; c_gdeny := " + coq_opt(cfg["gdeny"], lambda l: coq.coq_list([ditem(x) for x in l])) +
            "; c_gpat := " + coq_opt(cfg["gpat"], rule) + " |}")


def coq_rule(rl):
    return coq_cfg({"dirs": None, "gdeny": None, "gpat": rl}).split("c_gpat := (Some ", 1)[1].rsplit(") |}", 1)[0]


def coq_src(src):
    def form(x, pre):
        if x is None:
            return "None"
        if x[0] == "W":
            return f"(Some ({pre}Wrapped {s(x[1])} {coq_cfg(x[2])}))"
        if x[0] == "U":
            return f"(Some ({pre}Unwrapped {coq_cfg(x[1])}))"
        return f"(Some (RToplevel {coq_rule(x[1])}))"
    return "{| s_file := " + form(src["file"], "F") + "; s_rules := " + form(src["rules"], "R") + " |}"


def coq_file(f):
    return f"{{| f_cwd := {s(f['cwd'])}; f_rest := {s(f['rest'])}; f_relative := {coq.coq_bool(f['relative'])} |}}"


def coq_outcome(o):
    if "rejected" in o:
        return f"IRejected {s(o['rejected'])}"
    if "crashed" in o:
        return "ICrashed"
    return "IReports " + coq.coq_list([f"({s(fp)}, {ln}, {col}, {s(msg)})" for fp, ln, col, msg in o["reports"]])


def coq_bools(bs):
    return coq.coq_list([coq.coq_bool(b) for b in bs])


def coq_case(case, impl):
    norms = impl.get("norm") or [[relpath(f).replace("\\", "/"), f["rest"].replace("\\", "/")] for f in case["files"]]
    pats, vrow, rows = tabulate(case, norms)
    runs = coq.coq_list([f"({coq_file(f)}, {coq_bools(r1)}, {coq_bools(r2)}, ({s(n[0])}, {coq_bools(r3)}), ({s(n[1])}, {coq_bools(r4)}), "
                         f"{coq_outcome(o)})"
                         for f, (r1, r2, r3, r4), n, o in zip(case["files"], rows, norms, impl["outcomes"])])
    return (f"judge_src placement_actual placement_source_actual {coq.coq_list([s(p) for p in pats])} {coq_bools(vrow)} "
            f"{coq_src(src_of(case))} {runs}")


# ------------------------------------------------------------------ implementation runner
def _wrapped(case):
    d = cfg_dict(case["cfg"])
    return {case["wrap"]: d} if case.get("wrap") else d


def _shown(case):
    if "src" in case:
        return {"config_file": case["src"]["file"] and form_dict(case["src"]["file"]),
                "inline_rules": case["src"]["rules"] and form_dict(case["src"]["rules"])}
    return _wrapped(case)


def _vrep(v):
    rid = v["rule_id"]
    fp = v["file_path"] if rid == "file-placement" else f"<rule_id {rid}>{v['file_path']}"
    return [fp, v["line"], v["column"], v["message"]]


def _make_tree(root: Path, case):
    root.mkdir(parents=True, exist_ok=True)
    for f in case["files"]:
        p = root / relpath(f)
        p.parent.mkdir(parents=True, exist_ok=True)
        if not p.exists():
            p.write_text("x\n")


def _run_api(case, root: Path, orch=None):
    orch = orch or make_orchestrator(root, _wrapped(case))
    home = os.getcwd()
    outs = []
    for f in case["files"]:
        drain_failures()
        try:
            if f["relative"]:
                os.chdir(root / f["cwd"] if f["cwd"] else root)
                vs = orch.lint_file(Path(f["rest"]))
            else:
                vs = orch.lint_file(root / relpath(f))
            fails = [x for x in drain_failures() if "file-placement" in x["msg"]]
            if fails:
                outs.append({"crashed": fails[0]["exc"]})
            else:
                outs.append({"reports": [_vrep({"rule_id": v.rule_id, "file_path": str(v.file_path), "line": v.line,
                                                "column": v.column, "message": v.message})
                                         for v in vs if str(v.rule_id).startswith("file-placement")]})
        except ValueError as e:
            outs.append({"rejected": str(e)})
        finally:
            os.chdir(home)
    return outs


def _run_linter(case, root: Path):
    """the library entry points below the orchestrator: FilePlacementLinter(config_obj=.., project_root=ROOT).lint_path /
    check_file_allowed, and the package-level lint(path, config) (project root = working directory) for files handed over
    relative to the root"""
    from harness.common import ensure_repo_on_path
    ensure_repo_on_path()
    from loguru import logger as _lg
    _lg.disable("src")
    from src.linters import file_placement as fp
    cfgd = _wrapped(case)
    try:
        linter = fp.FilePlacementLinter(config_obj=cfgd, project_root=root)
    except ValueError as e:
        return [{"rejected": str(e)} for _ in case["files"]]
    except Exception as e:  # noqa: BLE001 - the orchestrator would swallow it
        return [{"crashed": type(e).__name__} for _ in case["files"]]
    home = os.getcwd()
    outs = []
    for f in case["files"]:
        try:
            os.chdir(root / f["cwd"] if (f["relative"] and f["cwd"]) else root)
            path = Path(f["rest"]) if f["relative"] else root / relpath(f)
            if f["relative"] and not f["cwd"]:
                vs = fp.lint(path, cfgd)
            else:
                vs = linter.lint_path(path)
            reps = [_vrep({"rule_id": v.rule_id, "file_path": str(v.file_path), "line": v.line, "column": v.column, "message": v.message})
                    for v in vs]
            if linter.check_file_allowed(path) != (not linter.lint_path(path)):
                reps.append(["<check_file_allowed disagrees with lint_path>", 0, 0, ""])
            outs.append({"reports": reps})
        except ValueError as e:
            outs.append({"rejected": str(e)})
        except Exception as e:  # noqa: BLE001
            outs.append({"crashed": type(e).__name__})
        finally:
            os.chdir(home)
    return outs


def _run_cli(case, root: Path, home: Path):
    import yaml
    via = case["via"]
    pre, post = [], []
    if via == "cli-rules":
        pre = ["--project-root", str(root)]
        post = ["--rules", json.dumps(_wrapped(case))]
    elif via == "cli-src":
        src = case["src"]
        pre = ["--project-root", str(root)]
        if src["file"] is not None:
            (root / ".thailint.yaml").write_text(yaml.safe_dump(form_dict(src["file"]), sort_keys=False, allow_unicode=True))
        if src["rules"] is not None:
            post = ["--rules", json.dumps(form_dict(src["rules"]))]
    elif via == "cli-yaml":
        (root / ".thailint.yaml").write_text(yaml.safe_dump(_wrapped(case), sort_keys=False, allow_unicode=True))
    else:
        (root / ".thailint.json").write_text(json.dumps(_wrapped(case), indent=1))
        pre = ["--project-root", str(root)]
        post = ["--config", str(root / ".thailint.json")]
    groups: dict = {}
    for idx, f in enumerate(case["files"]):
        groups.setdefault((f["relative"], f["cwd"]), []).append(idx)
    outs = [None] * len(case["files"])
    for (relative, cwd), idxs in groups.items():
        wd = root / cwd if (relative and cwd) else root
        args = [case["files"][j]["rest"] if relative else str(root / relpath(case["files"][j])) for j in idxs]
        for attempt in range(3):   # a timeout on a loaded machine says nothing about the property: retry with more time
            rc, so, se = run_cli([*pre, "file-placement", "--format", "json", *post, *args], cwd=wd, home=home,
                                 timeout=180 * (attempt + 1))
            if rc != 124:
                break
        if rc == 124:
            for j in idxs:
                outs[j] = {"timeout": True, "reports": []}
            continue
        if rc == 2 and "Error during linting: " in se:
            msg = se.split("Error during linting: ", 1)[1].split("\n", 1)[0]
            for j in idxs:
                outs[j] = {"rejected": msg}
            continue
        vs = parse_json_violations(so)
        if vs is None or rc not in (0, 1) or (rc == 1) != bool(vs):
            for j in idxs:
                outs[j] = {"reports": [["<cli failure>", rc, 0, (so[:200] + " | " + se[-300:])]]}
            continue
        crashed = "Rule file-placement failed" in se
        by_path: dict = {}
        for v in vs:
            by_path.setdefault(v["file_path"], []).append(v)
        for j in idxs:
            f = case["files"][j]
            mine = by_path.pop(relpath(f), []) + (by_path.pop(f["rest"], []) if f["rest"] != relpath(f) else [])
            outs[j] = {"crashed": "stderr"} if (crashed and not mine) else {"reports": [_vrep(v) for v in mine]}
        if by_path:  # violations about files that were not handed over
            extra = [_vrep(v) for vs_ in by_path.values() for v in vs_]
            outs[idxs[0]]["reports"] = outs[idxs[0]].get("reports", []) + [["<unexpected file>" + e[0], *e[1:]] for e in extra]
    return outs


def _orch_from_source(src, root: Path):
    """the orchestrator the `file-placement` command builds: Orchestrator(project_root) auto-loads ROOT/.thailint.yaml,
    then cli/linters/structure.py merges the --rules JSON into its config"""
    import yaml
    from harness.common import ensure_repo_on_path, install_failure_tap
    ensure_repo_on_path()
    install_failure_tap()
    from loguru import logger as _lg
    _lg.disable("src")
    from src.cli.linters import structure
    if src["file"] is not None:
        (root / ".thailint.yaml").write_text(yaml.safe_dump(form_dict(src["file"]), sort_keys=False, allow_unicode=True))
    rules = json.dumps(form_dict(src["rules"])) if src["rules"] is not None else None
    return structure._setup_orchestrator([root], None, rules, False, root)


def _run_seq(item, root: Path):
    import yaml
    from harness.common import ensure_repo_on_path, install_failure_tap
    ensure_repo_on_path()
    install_failure_tap()
    outs = []
    for st in item["seq"]:
        if st["via"] == "seq-dict":
            orch = None                                   # a fresh Orchestrator(project_root=root, config=...)
        else:
            (root / ".thailint.yaml").write_text(yaml.safe_dump(_wrapped(st), sort_keys=False, allow_unicode=True))
            if st["via"] == "seq-file":
                from src.orchestrator.core import Orchestrator
                orch = Orchestrator(project_root=root)    # loads ROOT/.thailint.yaml
            else:
                from src.api import Linter
                orch = Linter(config_file=root / ".thailint.yaml", project_root=root).orchestrator
        outs.append({"outcomes": _run_api(st, root, orch)})
    return {"steps": outs}


def _norms(case):
    """what the implementation's own PathResolver.normalize_path_string makes of each file's root-relative path and of
    the path as handed over (the strings the regex tables must cover besides the paths themselves)"""
    try:
        from harness.common import ensure_repo_on_path
        ensure_repo_on_path()
        from src.linters.file_placement.path_resolver import PathResolver
        pr = PathResolver(Path("/"))
        return [[str(pr.normalize_path_string(Path(relpath(f)))), str(pr.normalize_path_string(Path(f["rest"])))] for f in case["files"]]
    except Exception:  # noqa: BLE001 - a tree whose normaliser cannot be called: the documented form
        return [[relpath(f).replace("\\", "/"), f["rest"].replace("\\", "/")] for f in case["files"]]


def run_impl(case):
    if "seq" in case:
        with scratch_dir("tv-c18-") as d:
            root = d / "proj"
            _make_tree(root, case["seq"][0])
            out = _run_seq(case, root)
            for st, o in zip(case["seq"], out["steps"]):
                o["norm"] = _norms(st)
            return out
    with scratch_dir("tv-c18-") as d:
        root = d / "proj"
        _make_tree(root, case)
        if case["via"] == "api":
            return {"outcomes": _run_api(case, root), "norm": _norms(case)}
        if case["via"] == "linter":
            return {"outcomes": _run_linter(case, root), "norm": _norms(case)}
        if case["via"] == "api-rules":
            return {"outcomes": _run_api(case, root, _orch_from_source(case["src"], root)), "norm": _norms(case)}
        home = d / "home"
        home.mkdir()
        return {"outcomes": _run_cli(case, root, home), "norm": _norms(case)}


# ------------------------------------------------------------------ judging
MODEL_FILES = [("Model", "PlacementTypes.v"), ("Gen", "PlacementGen.v"), ("Model", "Placement.v"), ("Model", "PlacementSource.v"),
               ("Model", "PlacementRun.v"),
               ("Actual", "PlacementActual.v")]


def recorded_layer_theories(dst: Path) -> Path | None:
    """When the current generated layer (or the model on top of it) no longer builds, the model is rebuilt in a scratch
    directory against the generated layer recorded for the unchanged tree (coq/Gen.expected/PlacementGen.v.txt).  This
    discharges nothing (the run is already failed by the broken obligation); it only lets the search exhibit a concrete
    input on which the changed implementation departs from the specification beyond the listed findings."""
    import shutil
    import subprocess
    snap = coq.COQ / "Gen.expected" / "PlacementGen.v.txt"
    if not snap.exists():
        return None
    th = dst / "theories"
    for sub in ("Lib", "Model", "Gen", "Actual"):
        (th / sub).mkdir(parents=True, exist_ok=True)
    for f in (coq.TH / "Lib").glob("*.vo"):
        shutil.copy(f, th / "Lib" / f.name)
    for sub, name in MODEL_FILES:
        if sub == "Gen":
            (th / sub / name).write_text(snap.read_text())
        else:
            shutil.copy(coq.TH / sub / name, th / sub / name)
        p = subprocess.run(["timeout", "300", "coqc", "-Q", str(th), "TL", "-w", "-notation-overridden", str(th / sub / name)],
                           capture_output=True, text=True, cwd=str(dst))
        if p.returncode != 0:
            return None
    return th


def _eval_shards(workdir: Path, header: str, shards, th: Path, timeout: int = 900):
    """coq.eval_shards against another theories directory"""
    import subprocess
    from concurrent.futures import ThreadPoolExecutor
    workdir.mkdir(parents=True, exist_ok=True)
    paths = []
    for i, body in enumerate(shards):
        p = workdir / f"cases_{i}.v"
        p.write_text(header + "\n" + body + "\n")
        paths.append(p)

    def one(p):
        r = subprocess.run(["timeout", str(timeout), "coqc", "-Q", str(th), "TL", "-w", "-notation-overridden,-abstract-large-number", str(p)],
                           capture_output=True, text=True, cwd=str(p.parent))
        if r.returncode != 0:
            raise RuntimeError(f"coqc failed on {p.name} (rc={r.returncode}): {r.stderr[-1500:]}")
        return coq.parse_nat_lists(r.stdout)
    with ThreadPoolExecutor(max_workers=PROCS) as ex:
        return list(ex.map(one, paths))


def judge(cases, impls, workdir: Path, per_shard=None, th: Path | None = None):
    if per_shard is None:   # one round of shards over the worker threads when possible, at most 40 cases per shard
        per_shard = min(40, max(6, -(-len(cases) // 16)))
    shards, index = [], []
    for st in range(0, len(cases), per_shard):
        chunk = list(range(st, min(len(cases), st + per_shard)))
        shards.append("\n".join(f"Eval vm_compute in ({coq_case(cases[j], impls[j])})." for j in chunk))
        index.append(chunk)
    outs = _eval_shards(workdir, HEADER, shards, th if th is not None else coq.TH)
    verdicts = [None] * len(cases)
    for chunk, out in zip(index, outs):
        if len(out) != len(chunk):
            raise RuntimeError(f"expected {len(chunk)} results, got {len(out)}")
        for j, o in zip(chunk, out):
            verdicts[j] = o
    return verdicts


# ------------------------------------------------------------------ shrinking of a violating input
def _cfg_reductions(cfg):
    """rule sets with one thing less: a directory rule, a list, a list item, a reason/message, global_deny, global_patterns"""
    import copy
    out = []

    def emit(mut):
        c = copy.deepcopy(cfg)
        mut(c)
        out.append(c)

    def rule_reds(get):
        rl = get(cfg)
        for key in ("allow", "deny"):
            if rl[key] is not None:
                emit(lambda c, key=key: get(c).__setitem__(key, None))
                for j in range(len(rl[key])):
                    emit(lambda c, key=key, j=j: get(c)[key].pop(j))
                    it = rl[key][j]
                    if it[0] == "D":
                        emit(lambda c, key=key, j=j: get(c)[key].__setitem__(j, ["S", get(c)[key][j][1]]))
    for i in range(len(cfg["dirs"] or [])):
        emit(lambda c, i=i: c["dirs"].pop(i))
        rule_reds(lambda c, i=i: c["dirs"][i][1])
    if cfg["dirs"] is not None and not cfg["dirs"]:
        emit(lambda c: c.__setitem__("dirs", None))
    if cfg["gdeny"] is not None:
        emit(lambda c: c.__setitem__("gdeny", None))
        for j in range(len(cfg["gdeny"])):
            emit(lambda c, j=j: c["gdeny"].pop(j))
            if cfg["gdeny"][j][0] == "D":
                emit(lambda c, j=j: c["gdeny"].__setitem__(j, ["S", c["gdeny"][j][1]]))
    if cfg["gpat"] is not None:
        emit(lambda c: c.__setitem__("gpat", None))
        rule_reds(lambda c: c["gpat"])
    return out


def _case_reductions(case):
    import copy
    out = []
    if "seq" in case:                       # a history: drop a step other than the last, then reduce the steps' rule sets
        for k in range(len(case["seq"]) - 1):
            out.append({"seq": case["seq"][:k] + case["seq"][k + 1:]})
        for k, st in enumerate(case["seq"]):
            for c in _cfg_reductions(st["cfg"])[:12]:
                out.append({"seq": case["seq"][:k] + [{**st, "cfg": c}] + case["seq"][k + 1:]})
        return out
    if "src" in case:
        src = case["src"]
        for part in ("file", "rules"):
            x = src[part]
            if x is None:
                continue
            out.append({**case, "src": {**src, part: None}})
            if x[0] == "T":
                for c in _cfg_reductions({"dirs": None, "gdeny": None, "gpat": x[1]}):
                    if c["gpat"] is not None:
                        out.append({**case, "src": {**src, part: ["T", c["gpat"]]}})
            else:
                for c in _cfg_reductions(x[-1]):
                    out.append({**case, "src": {**src, part: x[:-1] + [c]}})
        for o in out:
            o["cfg"] = spec_cfg(o["src"])
            if o["src"]["file"] is None:
                o["files"] = [f for f in o["files"] if f["rest"] != ".thailint.yaml"] or o["files"]
        return out
    f = case["files"][0]
    if f["relative"] and not f["cwd"] and case["via"] in ("api", "linter"):
        out.append({**case, "files": [{**f, "relative": False}]})
    for c in _cfg_reductions(case["cfg"]):
        out.append({**copy.deepcopy(case), "cfg": c})
    return out


def shrink(case, workdir: Path, th, ref: int, budget_s: float = 90.0):
    """greedy delta-debugging on the abstract input: keep a reduction as long as the implementation still departs from the
    specification in a way the claimed quirk vector does not explain (judged exactly as in the main loop)"""
    import time
    t0 = time.time()

    def failing(cands):
        items = [c if "seq" in c else c for c in cands]
        cs, ims = flatten(items, [run_impl(c) for c in items])
        vers = judge(cs, ims, workdir / f"r{int((time.time() - t0) * 1000)}", per_shard=max(1, len(cs)), th=th)
        res, pos = [], 0
        for it in items:
            n = len(it["seq"]) if "seq" in it else 1
            steps = list(zip(cs[pos:pos + n], ims[pos:pos + n], vers[pos:pos + n]))
            pos += n
            c_, im_, v_ = steps[-1]        # the verdict that matters is that of the last step (the whole case otherwise)
            bad = False
            for o, bits in zip(im_["outcomes"], v_):
                if o.get("timeout"):
                    continue
                spec_ok, ideal_ok, cand = bool(bits[0]), bool(bits[1]), [bool(b) for b in bits[2:]]
                if not spec_ok and not (cand[ref] and ideal_ok):
                    bad = True
            res.append(bad)
        return res
    if not failing([case])[0]:
        return None       # not reproducible on its own (e.g. depends on process state): keep the original
    cur, changed = case, True
    while changed and time.time() - t0 < budget_s:
        changed = False
        cands = _case_reductions(cur)
        if cur.get("via", "").startswith("cli") or ("seq" in cur):
            cands = cands[:10]
        for st in range(0, len(cands), 16):
            chunk = cands[st:st + 16]
            res = failing(chunk)
            hit = [c for c, b in zip(chunk, res) if b]
            if hit:
                cur, changed = hit[0], True
                break
            if time.time() - t0 > budget_s:
                break
    return cur if cur is not case else None


def load_known_d(chk: Check):
    """known.d/C18.json is this property's part of known_findings.json (assembled by tools/mkmanifest.py); it is read
    directly and is authoritative, so that the check does not depend on when the shared file was last assembled"""
    p = VERIF / "known.d" / f"{PROP}.json"
    if p.exists():
        chk.known = {"known": {}, "fixed": {}}
        for f in json.loads(p.read_text()).get("findings", []):
            if f.get("property") != PROP:
                continue
            if f.get("status") == "known":
                chk.known["known"][f["key"]] = f
            elif str(f.get("status", "")).startswith("fixed"):
                chk.known["fixed"][f["key"]] = f


def classify(cfg, f):
    """which rule kinds bear on the file (for the distribution and the non-triviality rule)"""
    p = relpath(f)
    cov = [k for k, _ in (cfg["dirs"] or []) if (k == "/" and "/" not in p) or (k != "/" and p.startswith(k.rstrip("/") + "/"))]
    near = [k for k, _ in (cfg["dirs"] or []) if k != "/" and p.startswith(k.rstrip("/")) and not p.startswith(k.rstrip("/") + "/")]
    return cov, near


def corpus_cases():
    out = []
    for p in sorted((VERIF / "corpus" / PROP).glob("*.json")):
        c = json.loads(p.read_text())
        if "seq" in c:
            out.append({"seq": [{"i": f"corpus:{p.stem}.{k}", "cfg": st["cfg"], "files": c["files"], "via": c.get("via", "seq-dict"),
                                 "wrap": "file-placement"} for k, st in enumerate(c["seq"])]})
            continue
        if "src" in c:
            out.append({"i": "corpus:" + p.stem, "cfg": spec_cfg(c["src"]), "src": c["src"], "files": c["files"], "via": c["via"],
                        "wrap": None})
            continue
        out.append(finish_case({"i": "corpus:" + p.stem, "cfg": c["cfg"], "files": c["files"], "via": c.get("via", "api"),
                                "wrap": c.get("wrap", "file-placement")}))
    return out


def run(tier: str, seed: int, replay: str | None = None) -> int:
    chk = Check(PROP, tier, seed)
    load_known_d(chk)
    chk.rule = ("seeded random rule sets over a small alphabet of directory keys (nested keys, keys with and without a trailing slash, sibling files and directories sharing a key's string prefix, the "
                "root key '/') and regex patterns (rules with neither / only allow / only deny / both lists, empty lists, string and {pattern, reason|message} items, global_deny, "
                "global_patterns, occasionally a syntactically invalid pattern) x every path of a generated tree (root-level files, "
                "nested directories, names that extend a key without a separator, upper-case names), handed to the linter as an "
                "absolute path or relative to a working directory, through Orchestrator.lint_file in-process and, for a fraction of "
                "the rule sets, through the library entry points (FilePlacementLinter.lint_path / check_file_allowed, file_placement.lint) "
                "and the CLI (--rules, .thailint.yaml, --config json). One evaluation = one (rule set, file). "
                "Non-trivial = the rule set is accepted and some directory rule contains the file or a global list is configured, or "
                "the rule set is rejected; distinct = distinct (rule set, path, presentation). Besides, histories in one process for one "
                "project root (rule set A, fresh Orchestrator/Linter with B, with no rules, A again; by config dict or by a .thailint.yaml "
                "rewritten between the runs): every step must meet the specification of the CURRENT rule set")
    chk.trusted_base += [
        "PathResolver.normalize_path_string is modelled (the string methods found in the source are interpreted by the model); the strings "
        "it returns are also computed by calling the real function, only to extend the regex tables to them",
        "the regex engine is an oracle: the model and every theorem are parametric in `matches`/`valid`; per case the harness tabulates "
        "re.compile(p) / re.compile(p, IGNORECASE).search(path) for the finite pattern x path set and hands the tables to the model",
        "rendering of abstract rule sets to dict / JSON / YAML and of the file tree to a scratch project; pathlib's relative_to and str() "
        "on normalised relative paths; yaml/json loading of the config (validated by the CLI part of the correspondence)",
        "the text of re.error inside the ValueError message is not modelled (only the prefix naming the pattern)",
    ]
    chk.build(["theories/Props/C18.v"], ["PlacementGen"], known_v=["theories/Props/C18Known.v"])
    # larger budget when something of this property no longer checks or its hand-modelled sources changed
    # (fingerprints of other properties' sources are not this check's business): up to `scale` rounds of the
    # normal budget over fresh indices of the same PRNG chain, stopping after the round that exhibits a failing input
    mine_changed = [k for k in chk.fingerprint_changed if "file_placement" in k]
    scale = 4 if chk.broken else 3 if mine_changed else 1
    chk.fingerprint_changed = mine_changed
    n_cfg = 300 if tier == "quick" else 3000
    n_files = 20 if tier == "quick" else 22
    n_seq = 24 if tier == "quick" else 240
    n_src = 70 if tier == "quick" else 700

    def round_items(k):
        if replay:
            rc = json.loads(Path(replay).read_text())["violation"]["case"]
            return [rc if "seq" in rc else finish_case(rc)]
        return ((corpus_cases() if k == 0 else []) + [gen_seq(seed, i, 12) for i in range(k * n_seq, (k + 1) * n_seq)]
                + [gen_src(seed, i, 10) for i in range(k * n_src, (k + 1) * n_src)]
                + [gen_case(seed, i, n_files) for i in range(k * n_cfg, (k + 1) * n_cfg)])
    import contextlib
    stack = contextlib.ExitStack()     # the scratch model directory stays alive for the shrinker
    wd = stack.enter_context(scratch_dir("tv-c18-coq-"))
    failed = getattr(chk, "build_result", None).failed if getattr(chk, "build_result", None) else {}
    state = {"th": None, "th_tried": False, "model_ok": not any(f"theories/{sub}/{name}" in failed for sub, name in MODEL_FILES),
             "cands_all": None, "ref": 0}
    timeouts: list = []

    def judge_round(cases, impls, k):
        verdicts = None
        if state["model_ok"]:
            try:
                return judge(cases, impls, wd / f"a{k}")
            except RuntimeError as e:
                state["model_ok"] = False
                chk.broken.append(f"Model:evaluation of the placement model failed ({str(e)[:400]})")
        if not state["th_tried"]:
            state["th_tried"] = True
            state["th"] = recorded_layer_theories(wd / "recorded")
            if state["th"] is not None:
                chk.notes.append("the current generated layer / model does not build: cases were judged with the model built against the "
                                 "generated layer recorded for the unchanged tree (coq/Gen.expected/PlacementGen.v.txt), only to search "
                                 "for a failing input; the broken obligations above already fail the run")
        if state["th"] is not None:
            try:
                verdicts = judge(cases, impls, wd / f"b{k}", th=state["th"])
            except RuntimeError as e:
                chk.broken.append(f"Model:evaluation with the recorded generated layer failed too ({str(e)[:300]})")
                state["th"] = None
        return verdicts if verdicts is not None else [None] * len(cases)

    def decide_round(cases, impls, verdicts):
        # which candidate vector explains the implementation on ALL files so far (index 0 = the claimed vector)
        cands_all = state["cands_all"]
        for impl, ver in zip(impls, verdicts):
            for o, bits in zip(impl["outcomes"], ver or []):
                if o.get("timeout"):
                    continue
                cand = [bool(b) for b in bits[2:]]
                cands_all = cand if cands_all is None else [a and b for a, b in zip(cands_all, cand)]
        state["cands_all"] = cands_all
        ref = 0
        if cands_all is not None and not cands_all[0] and any(cands_all):
            ref = cands_all.index(True)
        state["ref"] = ref
        for case, impl, ver in zip(cases, impls, verdicts):
            cfg = spec_cfg(src_of(case))
            chk.dist("via:" + case["via"])
            if "src" in case:
                sf, sr = case["src"]["file"], case["src"]["rules"]
                chk.dist("source:file=" + {None: "none", "W": "section", "U": "top-level keys"}[sf and sf[0]] +
                         ",rules=" + {None: "none", "W": "section", "U": "top-level keys", "T": "allow/deny form"}[sr and sr[0]])
            chk.dist(f"dir_rules:{len(cfg['dirs'] or [])}")
            chk.dist("global_deny:" + ("yes" if cfg["gdeny"] is not None else "no"))
            chk.dist("global_patterns:" + ("yes" if cfg["gpat"] is not None else "no"))
            bad = not all(tabulate(case)[1])
            if bad:
                chk.dist("rule sets with an invalid pattern")
            chk.sample({"config": _shown(case), "via": case["via"],
                        "files": [{"path": relpath(f), "cwd": f["cwd"], "relative": f["relative"], "impl": o}
                                  for f, o in list(zip(case["files"], impl["outcomes"]))[:6]]}, 3)
            for j, (f, o) in enumerate(zip(case["files"], impl["outcomes"])):
                cov, near = classify(cfg, f)
                has_global = cfg["gdeny"] is not None or cfg["gpat"] is not None
                chk.count([cfg, f], bool(bad or cov or has_global))
                chk.dist("file:covered" if cov else ("file:global-only" if has_global else "file:no-rule-applies"))
                if len(cov) > 1:
                    chk.dist("file:nested-rules")
                if near:
                    chk.dist("file:key-is-bare-string-prefix")
                if f["relative"] and f["cwd"]:
                    chk.dist("file:relative-to-subdirectory")
                if "\\" in relpath(f):
                    chk.dist("file:backslash in a name")
                if any(part.startswith(".") for part in relpath(f).split("/")) and not relpath(f).startswith(".thailint."):
                    chk.dist("file:dot-prefixed component" + (" (leading)" if relpath(f).startswith(".") else " (nested)"))
                    if any(part.startswith(".") for k in cov for part in k.split("/")):
                        chk.dist("file:covered by a hidden-directory key")
                chk.dist("impl:" + ("rejected" if "rejected" in o else "crashed" if "crashed" in o else "reported" if o["reports"] else "clean"))
                if o.get("timeout"):
                    timeouts.append({"via": case["via"], "file": f})
                    continue
                if ver is None:
                    continue
                bits = ver[j]
                chk.traces_validated += 1
                spec_ok, ideal_ok, cand = bool(bits[0]), bool(bits[1]), [bool(b) for b in bits[2:]]
                if spec_ok:
                    continue
                one = case.get("history") or {**{k: case[k] for k in ("i", "cfg", "via", "wrap", "src") if k in case}, "files": [f]}
                info = {"reason": "reported violations differ from the allow/deny specification", "config": _wrapped(case),
                        "file": f, "impl": o, "case": one}
                if ref == 0:
                    relevant = [FLAGS[k] for k in range(len(FLAGS)) if not cand[1 + k]]
                else:  # a listed defect is no longer observed: the remaining listed flags explain the case
                    relevant = [FLAGS[k] for k in range(len(FLAGS)) if 1 + k != ref and ref != len(FLAGS) + 1]
                if cand[ref] and ideal_ok and not relevant and ref == 0:
                    # several listed defects compensate one another on this input: no single flag changes the output,
                    # switching all of them off does (model ideal = spec); attribute to the findings still listed as known
                    relevant = [k for k in FLAGS if k in chk.known["known"]]
                if cand[ref] and ideal_ok and relevant:
                    for k in relevant:
                        chk.known_finding(k, {"config": _shown(case), "file": f, "impl": o})
                else:
                    info["model_actual_matches_impl"] = cand[0]
                    info["model_ideal_matches_spec"] = ideal_ok
                    chk.violation(info)

    rounds = 1 if replay else scale
    for k in range(rounds):
        items = round_items(k)
        cases, impls = flatten(items, pool_map(run_impl, items, procs=PROCS))
        decide_round(cases, impls, judge_round(cases, impls, k))
        if chk.violations:
            if k + 1 < rounds:
                chk.notes.append(f"search stopped after round {k + 1} of {rounds}: a failing input was found")
            break
    cands_all, ref, th_used = state["cands_all"], state["ref"], state["th"]
    if timeouts:
        chk.broken.append(f"Impl:{len(timeouts)} CLI runs timed out three times (180/360/540 s); no verdict for those files, e.g. {timeouts[0]}")
    if cands_all is not None and not cands_all[0]:
        alt = [k for k, ok in enumerate(cands_all) if ok]
        if alt:
            names = ["actual"] + [f"actual without {f}" for f in FLAGS] + ["ideal"]
            chk.notes.append("implementation no longer matches the claimed quirk vector but matches: " + names[alt[0]] +
                             " (a listed defect is no longer observed; theorems hold for every vector)")
        else:
            chk.correspondence_broken({"level": "observable", "detail": "Model/Placement.v under Actual/PlacementActual.v disagrees "
                                       "with the implementation and no candidate quirk vector matches all cases"})
    if chk.violations and "case" in chk.violations[0] and not replay:
        try:
            small = shrink(chk.violations[0]["case"], wd / "shrink", th_used, ref)
            if small is not None:
                chk.violations[0]["unshrunk_case"] = chk.violations[0]["case"]
                chk.violations[0]["case"] = small
                chk.violations[0]["shrunk"] = _shown(small["seq"][-1] if "seq" in small else small)
        except Exception as e:  # noqa: BLE001 - shrinking is a convenience, never a reason to lose the finding
            chk.notes.append(f"shrinking failed: {type(e).__name__}: {str(e)[:200]}")
    stack.close()
    return chk.finish()
