"""C10 — directory, file-list, CLI and library runs agree with one another.

Generated multi-language projects; for each case one "command-line" run (the real `thailint <cmd> --format json`
process, or in-process `execute_linting_on_paths` on a fresh Orchestrator) over a set of targets, and
`Linter.lint(target)` on a fresh Linter for every one of those targets.  Three case kinds:
  union   a directory (or file list) against each of its files on its own            -> per-file findings must be the union
  single  one file or one directory, through a linter command and through the API   -> all findings must agree
  multi   several directories / files+directories in one command                    -> all findings (directories only) or per-file findings
The Coq model (Model/OrchHist.v: cli_run / api_run) is evaluated on the same targets under the claimed quirk vector,
that vector with one flag off, and the ideal; rule behaviour enters as measured tables exactly as in C08."""
from __future__ import annotations

import json
import os
from pathlib import Path

from harness import coq
from harness.common import (VERIF, drain_failures, ensure_repo_on_path, install_failure_tap, parse_json_violations, pool_map,
                            rng_for, run_cli, scratch_dir)
from harness.framework import Check
from harness.props import orchhist_common as oc
from harness.props.c08 import measure_queries

PROP = "C10"
FLAGS = ["q_dry_keeps_storage", "q_lintfile_leaves_evidence", "q_consts_in_processing_order", "q_ignore_parser_reused", "q_api_file_no_finalize",
         "q_dry_config_sticky", "q_fp_config_sticky"]
HEADER = "From Coq Require Import NArith.\nFrom TL Require Import Lib.Base Model.OrchHist Model.OrchHistRun Actual.OrchHistActual.\n"
# CLI command -> function holding its rule_id filter (Gen.cli_filters is keyed by function name)
CMD_FN = {"dry": "_run_dry_lint", "stringly-typed": "_run_stringly_typed_lint", "nesting": "_run_nesting_lint",
          "magic-numbers": "_run_magic_numbers_lint", "improper-logging": "_run_improper_logging_lint",
          "file-header": "_run_file_header_lint", "lbyl": "_run_lbyl_lint", "srp": "_run_srp_lint",
          "method-property": "_run_method_property_lint", "stateless-class": "_run_stateless_class_lint",
          "pipeline": "_run_pipeline_lint", "file-placement": "_execute_file_placement_lint"}
# CLI command -> package under src/linters whose rule classes it is the front end of (the specification of what the
# command ought to report: the findings of those rules; their rule ids are attributed by running each rule on its own)
CMD_PKG = {"dry": "dry", "stringly-typed": "stringly_typed", "nesting": "nesting", "magic-numbers": "magic_numbers",
           "improper-logging": "print_statements", "file-header": "file_header", "lbyl": "lbyl", "srp": "srp",
           "method-property": "method_property", "stateless-class": "stateless_class", "pipeline": "collection_pipeline",
           "file-placement": "file_placement"}
CROSS_CMDS = ["dry", "dry", "dry", "stringly-typed", "stringly-typed"]
LOCAL_CMDS = ["nesting", "magic-numbers", "improper-logging", "file-header", "lbyl", "srp", "method-property", "stateless-class", "pipeline", "file-placement"]


# ------------------------------------------------------------------ generation
def gen_cases(seed: int, n: int) -> list:
    cases = []
    for i in range(n):
        r = rng_for(seed, PROP, i)
        proj = oc.gen_project(r, n_files=(3, 7))
        paths = proj["paths"]
        live = sorted(int(k) for k in proj["fs0"])
        code = [p for p in live if paths[p] not in (oc.CONFIG_NAME, oc.IGNORE_NAME)]
        dirs_live = [di for di, d in enumerate(proj["dirs"]) if any(oc.in_dir(d, paths[p]) for p in live)]
        x = r.random()
        if x < 0.30:
            kind, via, cmd = "union", "inproc", None
            if r.random() < 0.6:
                files, dirs, as_dir = [], [], r.choice(dirs_live)      # a directory against its files
            else:
                as_dir = None
                files = r.sample(live, r.randint(1, min(6, len(live))))  # an explicit file list against its files
                dirs = []
        elif x < 0.72:
            kind, as_dir = "single", None
            cmd = r.choice(CROSS_CMDS + LOCAL_CMDS[:6]) if r.random() < 0.8 else r.choice(LOCAL_CMDS)
            via = "cli" if r.random() < 0.6 else "inproc"
            if r.random() < (0.35 if cmd in CROSS_CMDS else 0.55):
                files, dirs = [r.choice(code + live[:1])], []
            else:
                # cross-file commands mostly on the whole project, where their findings are
                files, dirs = [], [0 if (cmd in CROSS_CMDS and r.random() < 0.7) else r.choice(dirs_live)]
        else:
            kind, as_dir = "multi", None
            cmd = r.choice(CROSS_CMDS + LOCAL_CMDS[:4])
            via = "cli" if r.random() < 0.5 else "inproc"
            sub = [d for d in dirs_live if d != 0]
            if len(sub) >= 2 and r.random() < 0.6:
                files, dirs = [], r.sample(sub, 2)
            else:
                files = r.sample(code, r.randint(2, min(4, len(code)))) if len(code) >= 2 else list(code)
                dirs = r.sample(sub, 1) if sub and r.random() < 0.5 else []
        cfgv = None
        if kind == "single" and r.random() < 0.45:
            # per-file command through the real CLI with an explicit config file next to a differing project config
            cfgv = r.choice(["same", "empty", "empty", "comments", "comments", "json_empty", "other_sections", "differs"])
            via, cmd = "cli", r.choice(CFG_CMDS)
            proj["config"].update(json.loads(json.dumps(ROOT_EXTRA)))
        cases.append({"i": i, "proj": proj, "kind": kind, "via": via, "cmd": cmd, "files": files, "dirs": dirs, "as_dir": as_dir, "cfg": cfgv})
    return cases


def corpus_cases() -> list:
    out = []
    for p in sorted((VERIF / "corpus" / PROP).glob("*.json")):
        c = json.loads(p.read_text())
        c["i"] = "corpus:" + p.stem
        out.append(c)
    return out


# explicit configuration files at the boundaries: what `--config X` / Linter(config_file=X) must mean when X says nothing
# about the linter (the project root carries its own, differing, auto-discoverable .thailint.yaml)
CFG_VARIANTS = {
    "same": None,                                   # X has the text of the root config
    "empty": ("explicit.yaml", ""),
    "comments": ("explicit.yaml", "# CI baseline profile: deliberately empty, every linter with its built-in defaults\n"),
    "json_empty": ("explicit.json", "{}\n"),
    "other_sections": ("explicit.yaml", "srp:\n  max_methods: 30\n"),
    "differs": ("explicit.yaml", "magic-numbers:\n  allowed_numbers: [0, 1, 50]\nnesting:\n  max_nesting_depth: 2\n"),
}
ROOT_EXTRA = {"magic-numbers": {"allowed_numbers": [-1, 0, 1, 2, 10, 50, 100, 1000, 4242]}, "nesting": {"max_nesting_depth": 9},
              "improper-logging": {"enabled": False}}
CFG_CMDS = ["magic-numbers", "magic-numbers", "nesting", "nesting", "improper-logging", "improper-logging", "lbyl", "srp", "method-property", "stateless-class"]


def _explicit_config(case: dict, d: Path, root: Path) -> Path:
    v = case.get("cfg")
    if not v:
        return root / oc.CONFIG_NAME
    (d / "cfg").mkdir(exist_ok=True)
    if CFG_VARIANTS[v] is None:
        f = d / "cfg" / "explicit.yaml"
        f.write_text((root / oc.CONFIG_NAME).read_text())
    else:
        f = d / "cfg" / CFG_VARIANTS[v][0]
        f.write_text(CFG_VARIANTS[v][1])
    return f


def _linter(root: Path, cfg: Path):
    """a Linter as a fresh process would build it, with the case's explicit configuration file"""
    ensure_repo_on_path()
    try:
        from src.linter_config.ignore import clear_ignore_parser_cache
        clear_ignore_parser_cache()
    except ImportError:
        pass
    from src.api import Linter
    return Linter(config_file=cfg, project_root=root)


# ------------------------------------------------------------------ implementation
def _c6(v, root):
    return oc.canon_violation(v, root)[:6]


def run_impl(case: dict) -> dict:
    ensure_repo_on_path()
    install_failure_tap()
    proj, paths = case["proj"], case["proj"]["paths"]
    res = {"error": None, "cli": None, "api": [], "api_rules": None, "pf": [], "files": [], "dirs": [], "failures": [], "side": []}
    with scratch_dir("tv-c10-") as d:
        root, home = d / "proj", d / "home"
        root.mkdir()
        home.mkdir()
        try:
            fs = {int(k): v for k, v in proj["fs0"].items()}
            oc.write_project(root, proj, fs)
            res["hard"], res["ign"] = oc.path_flags(root, proj)
            cfg = _explicit_config(case, d, root)
            if case["kind"] == "union" and case["as_dir"] is not None:
                dname = proj["dirs"][case["as_dir"]]
                listing = oc.os_listing(root, dname, proj)
                files, dirs = [p for p in listing if p in fs], []
                lin = _linter(root, cfg)
                res["cli"] = [_c6(v, root) for v in lin.lint(root / dname if dname else root)]
                del lin
            else:
                files = list(case["files"])
                dirs = [[di, oc.os_listing(root, proj["dirs"][di], proj)] for di in case["dirs"]]
                targets = [root / paths[p] for p in files] + [(root / proj["dirs"][di]) if proj["dirs"][di] else root for di, _ in dirs]
                if case["via"] == "cli":
                    s0 = oc.snapshot(root)
                    argv = ([ "--project-root", str(root)] if case.get("cfg") else []) + [case["cmd"], "--format", "json"] \
                        + (["--config", str(cfg)] if case.get("cfg") else []) + [str(t) for t in targets]
                    rc, so, se = run_cli(argv, cwd=root, home=home, timeout=180)
                    for x in oc.snapshot_diff(s0, oc.snapshot(root)):
                        res["side"].append(x)
                    vs = parse_json_violations(so)
                    if vs is None or rc not in (0, 1):
                        res["error"] = f"CLI failed rc={rc}: {so[:200]} {se[-400:]}"
                        return res
                    res["cli"] = [oc.canon_dict_violation(x, root, root) for x in vs]
                    res["cli_rc"] = rc
                else:
                    from src.cli.utils import execute_linting_on_paths
                    orch = _linter(root, cfg).orchestrator
                    res["cli"] = [_c6(v, root) for v in execute_linting_on_paths(orch, targets, True, False)]
                    del orch
            res["files"], res["dirs"] = files, dirs
            for p in files:
                lin = _linter(root, cfg)
                res["api"].append([_c6(v, root) for v in lin.lint(str(root / paths[p]))])
                del lin
            for di, _ in dirs:
                lin = _linter(root, cfg)
                res["api"].append([_c6(v, root) for v in lin.lint((root / proj["dirs"][di]) if proj["dirs"][di] else root)])
                del lin
            if case["kind"] == "single" and case["cmd"]:
                # the API's own rule filter, asked for the rule ids the run emits that the command's filter accepts
                ids = sorted({v[0] for v in res["api"][0]} & {v[0] for v in res["cli"]}) or None
                if ids:
                    lin = _linter(root, cfg)
                    t = (root / paths[files[0]]) if files else ((root / proj["dirs"][dirs[0][0]]) if proj["dirs"][dirs[0][0]] else root)
                    res["api_rules"] = {"rules": ids, "out": [_c6(v, root) for v in lin.lint(t, rules=ids)]}
                    del lin
            look = set(files)
            for di, lst in dirs:
                look |= {p for p in lst if oc.in_dir(proj["dirs"][di], paths[p])}
            for p in sorted(look):
                lin = _linter(root, cfg)
                res["pf"].append([p, fs.get(p), [_c6(v, root) for v in lin.orchestrator.lint_file(root / paths[p])]])
                del lin
            if case["cmd"] and case["via"] == "cli":
                res["emitted"] = attribute_rule_ids(root, proj, sorted(look), cfg)
            res["failures"] = drain_failures()
        except Exception as e:  # noqa: BLE001
            import traceback
            res["error"] = f"{type(e).__name__}: {e}\n{traceback.format_exc()[-1200:]}"
    return res


def attribute_rule_ids(root: Path, proj: dict, pids: list, cfg: Path) -> dict:
    """package of src/linters -> rule ids its rule classes emit on these files (each rule object run on its own: check()
    on every file, then finalize())"""
    from src.orchestrator.core import FileLintContext
    from src.orchestrator.language_detector import detect_language
    orch = _linter(root, cfg).orchestrator
    orch._ensure_rules_discovered()
    out: dict = {}
    for rule in orch.registry.list_all():
        mod = type(rule).__module__.split(".")
        pkg = mod[2] if len(mod) > 2 and mod[:2] == ["src", "linters"] else ".".join(mod)
        ids = out.setdefault(pkg, set())
        for p in pids:
            f = root / proj["paths"][p]
            if not f.is_file():
                continue
            ctx = FileLintContext(f, detect_language(f), metadata={**orch.config, "_project_root": orch.project_root})
            try:
                ids.update(str(v.rule_id) for v in rule.check(ctx))
            except Exception:  # noqa: BLE001  (attribution only; failures are caught by the real runs)
                pass
        try:
            ids.update(str(v.rule_id) for v in rule.finalize())
        except Exception:  # noqa: BLE001
            pass
    return {k: sorted(v) for k, v in out.items()}


def measure_proj(case: dict) -> dict:
    """the project as the cross-file report measurements must see it: with the configuration the explicit file means"""
    v = case.get("cfg")
    if not v or CFG_VARIANTS[v] is None:
        return case["proj"]
    import yaml
    proj = json.loads(json.dumps(case["proj"]))
    name, text = CFG_VARIANTS[v]
    proj["_force_config"] = (json.loads(text) if name.endswith(".json") else yaml.safe_load(text)) or {}
    proj["_force_config"].setdefault("dry", {"enabled": False})
    return proj


def measure6(job):
    return [m if isinstance(m, dict) else [t[:6] for t in m] for m in measure_queries(job)]


# ------------------------------------------------------------------ Coq side
def _ctx(case, impl) -> str:
    paths = case["proj"]["paths"]
    return (f"{oc.coq_nat_list(impl['hard'])} {oc.coq_ign(impl['ign'])} {paths.index(oc.IGNORE_NAME)} {paths.index(oc.CONFIG_NAME)} "
            f"{oc.coq_dirs(case['proj'])}")


def _dirs(impl) -> str:
    return "[" + "; ".join(f"({di}, {oc.coq_nat_list(lst)})" for di, lst in impl["dirs"]) + "]"


def phase_queries(cases, impls, wd: Path, per_shard=16, th=None):
    lines = [f"Eval vm_compute in (queries10 {_ctx(c, im)} orch_actual {oc.coq_fs(c['proj']['fs0'])} {oc.coq_nat_list(im['files'])} {_dirs(im)})."
             for c, im in zip(cases, impls)]
    shards = ["\n".join(lines[s:s + per_shard]) for s in range(0, len(lines), per_shard)]
    flat = [x for o in oc.eval_shards(th, wd / "q", HEADER, shards) for x in o]
    if len(flat) != len(cases):
        raise RuntimeError(f"expected {len(cases)} query lists, got {len(flat)}")
    res = []
    for q in flat:
        seen, lst = set(), []
        for enc in q:
            if tuple(enc) not in seen:
                seen.add(tuple(enc))
                lst.append((enc[0], enc[1], enc[2], [(enc[i], enc[i + 1]) for i in range(3, len(enc), 2)]))
        res.append(lst)
    return res


def phase_judge(cases, impls, queries, measured, wd: Path, per_shard=10, th=None):
    lines = []
    for case, impl, qs, ms in zip(cases, impls, queries, measured):
        ids = oc.Ids()
        cfg_cid = int(case["proj"]["fs0"][str(case["proj"]["paths"].index(oc.CONFIG_NAME))])

        def ver(c):
            return oc.absent_version(cfg_cid) if c is None else oc.enc_version(c, cfg_cid)

        def split(vs, fp):
            return [v for v in vs if str(v[0]).startswith("file-placement") == fp]
        pf_tbl = "[" + "; ".join(f"({p}, {coq.coq_option(ver(c))}, {oc.coq_N_list(ids.many(split(vs, False)))})" for p, c, vs in impl["pf"]) + "]"
        pf_tbl += " [" + "; ".join(f"({p}, {coq.coq_option(ver(c))}, {oc.coq_N_list(ids.many(split(vs, True)))})" for p, c, vs in impl["pf"]) + "]"
        rows, cross = [], set()
        for (kind, npend, rkey, ev), m in zip(qs, ms):
            if isinstance(m, dict):
                continue
            key = [kind, npend, rkey] + [x for pc in ev for x in pc]
            nums = ids.many(m)
            cross.update(nums)
            rows.append(f"({oc.coq_nat_list(key)}, {oc.coq_N_list(nums)})")
        cli = ids.many(impl["cli"])
        api = [ids.many(a) for a in impl["api"]]
        # violations of cross-file rules seen only on the implementation side are cross-file too
        for t, n in ids.map.items():
            if oc.kind_of(t[0], t[4]) is not None:
                cross.add(n)
        rule_ids = sorted({t[0] for t in ids.map})
        rid = "[" + "; ".join(f"({n}%N, {rule_ids.index(t[0])})" for t, n in ids.map.items()) + "]"
        fn = CMD_FN.get(case["cmd"], "?") if (case["cmd"] and case["via"] == "cli") else ""
        spec_rules = []
        if fn:
            em = impl.get("emitted") or {}
            mine = set(em.get(CMD_PKG.get(case["cmd"], "?"), []))
            others = {x for k, v in em.items() if k != CMD_PKG.get(case["cmd"], "?") for x in v}
            # a rule id is the command's iff a rule class of its package emits it and no other package does
            spec_rules = [j for j, x in enumerate(rule_ids) if x in mine and x not in others]
        lines.append(
            f"Eval vm_compute in (judge10 {_ctx(case, impl)} {pf_tbl} [{'; '.join(rows)}] {coq.coq_list([coq.coq_string(x) for x in rule_ids])} {rid} "
            f"{oc.coq_N_list(sorted(cross))} {oc.coq_nat_list(spec_rules)} orch_actual {oc.coq_fs(case['proj']['fs0'])} {coq.coq_string(fn)} {oc.coq_nat_list(impl['files'])} {_dirs(impl)} "
            f"{oc.coq_N_list(cli)} [{'; '.join(oc.coq_N_list(a) for a in api)}]).")
    shards = ["\n".join(lines[s:s + per_shard]) for s in range(0, len(lines), per_shard)]
    flat = [x for o in oc.eval_shards(th, wd / "j", HEADER, shards) for x in o]
    if len(flat) != len(cases):
        raise RuntimeError(f"expected {len(cases)} verdicts, got {len(flat)}")
    return flat


# ------------------------------------------------------------------ decision
def run(tier: str, seed: int, replay: str | None = None) -> int:
    chk = Check(PROP, tier, seed)
    kd = VERIF / "known.d" / f"{PROP}.json"
    if kd.exists():
        for f in json.loads(kd.read_text()).get("findings", []):
            if f.get("property") == PROP and f.get("status") == "known":
                chk.known["known"][f["key"]] = f
                chk.known["fixed"].pop(f["key"], None)
            elif f.get("property") == PROP and str(f.get("status", "")).startswith("fixed"):
                chk.known["fixed"][f["key"]] = f     # a fixed entry suppresses nothing: observed again = violation
                chk.known["known"].pop(f["key"], None)
    chk.rule = ("seeded multi-language projects (3-10 files in nested directories, hard-excluded and ignored paths, files sharing "
                "duplicate code, constants and string-set patterns, some files with a duplicate inside themselves); per case one "
                "command-line run (real `thailint <cmd> --format json` process or in-process execute_linting_on_paths on a fresh "
                "Orchestrator) over one file / one directory / a file subset / several directories, and Linter.lint on a fresh Linter "
                "for each of those targets; 'union' cases compare a directory or file list with each of its files on its own; a case "
                "is non-trivial when the command-line side reports at least one finding; distinct = distinct (project, targets, command, route)")
    chk.trusted_base += [
        "rule behaviour is a PARAMETER of the model (as in C08): per-file results and cross-file reports are measured from the implementation on fresh objects and handed to the model as tables",
        "click option parsing, project-root detection and configuration loading of the CLI are outside the model: the CLI is run in a scratch project whose .thailint.yaml both routes discover; agreement of the two routes' configuration is what the correspondence observes",
        "violations are compared on the fields the JSON output carries (rule_id, file_path, line, column, message, severity), paths given as absolute paths to both routes (path spelling is C09)",
    ]
    chk.build(["theories/Props/C10.v"], ["OrchHistGen"], known_v=["theories/Props/C10Known.v"])
    scale = chk.budget_scale()
    n = (150 if tier == "quick" else 1500) * scale
    n = min(n, int(os.environ.get("VERIF_CASES_CAP", n)))   # self-test runs on mutated copies use a smaller budget
    if replay:
        cases = [json.loads(Path(replay).read_text())["violation"]["case"]]
    else:
        cases = corpus_cases() + gen_cases(seed, n)
    impls = pool_map(run_impl, cases, procs=oc.PROCS)
    ok = [i for i, im in enumerate(impls) if not im["error"]]
    for i, im in enumerate(impls):
        if im["error"]:
            chk.violation({"reason": "a run failed: " + im["error"][:600], "case": cases[i]})
    verdicts = {}
    with scratch_dir("tv-c10-coq-") as wd:
        try:
            sc, si = [cases[i] for i in ok], [impls[i] for i in ok]
            th = oc.model_theories(chk, wd)
            if th is False:
                raise RuntimeError("no executable model")
            queries = phase_queries(sc, si, wd, th=th)
            measured = pool_map(measure6, [(measure_proj(c), q) for c, q in zip(sc, queries)], procs=oc.PROCS)
            verdicts = dict(zip(ok, phase_judge(sc, si, queries, measured, wd, th=th)))
        except RuntimeError as e:
            if str(e) != "no executable model":
                chk.broken.append(f"Model:evaluation of the entry-point model failed ({str(e)[:400]})")
    cands_all = None
    names = ["actual"] + [f"actual without {f}" for f in FLAGS] + ["ideal"]
    for i, (case, impl) in enumerate(zip(cases, impls)):
        if impl["error"]:
            continue
        chk.count([case["proj"]["paths"], case["proj"]["contents"], case["kind"], case["via"], case["cmd"], impl["files"], impl["dirs"]], bool(impl["cli"]))
        chk.dist("kind:" + case["kind"])
        chk.dist("via:" + case["via"])
        chk.dist("cmd:" + str(case["cmd"]))
        chk.dist("explicit_config:" + str(case.get("cfg")))
        chk.dist(f"targets:{len(impl['files'])}f+{len(impl['dirs'])}d")
        chk.sample({"kind": case["kind"], "via": case["via"], "cmd": case["cmd"], "files": [case["proj"]["paths"][p] for p in impl["files"]],
                    "dirs": [case["proj"]["dirs"][d] for d, _ in impl["dirs"]], "cli_findings": len(impl["cli"]), "api_findings": [len(a) for a in impl["api"]]}, 4)
        if impl["failures"]:
            chk.violation({"reason": "a rule failed internally (swallowed exception)", "failures": impl["failures"][:3], "case": case})
            continue
        for x in impl["side"]:
            chk.violation({"reason": "the CLI run changed the project: " + x, "case": case})
        if impl["api_rules"] is not None:
            want = sorted(v for v in impl["api"][0] if v[0] in impl["api_rules"]["rules"])
            if sorted(impl["api_rules"]["out"]) != want:
                chk.violation({"reason": "Linter.lint(path, rules=R) is not the unfiltered result restricted to R", "rules": impl["api_rules"]["rules"], "case": case})
        bits = verdicts.get(i)
        if bits is None:
            # the model could not be evaluated (a generated item or proof broke): fall back to the plain differential
            # oracle on what every quirk vector agrees on - the per-file findings of both routes
            def _pf(vs):
                return sorted(v for v in vs if oc.kind_of(v[0], v[4]) is None)
            api_all = [v for a in impl["api"] for v in a]
            if case["cmd"] and case["via"] == "cli":
                em = impl.get("emitted") or {}
                mine = set(em.get(CMD_PKG.get(case["cmd"], "?"), []))
                api_all = [v for v in api_all if v[0] in mine]
            if _pf(impl["cli"]) != _pf(api_all):
                chk.violation({"reason": "command-line run and library API disagree on the per-file findings of the same target(s) (model not evaluated)",
                               "cli_only": [v for v in _pf(impl["cli"]) if v not in api_all][:4], "api_only": [v for v in _pf(api_all) if v not in impl["cli"]][:4], "case": case})
            continue
        bits = [bool(b) for b in bits]
        ncand = len(FLAGS) + 2
        full_ok, pf_ok, ideal_ok, cand, agree = bits[0], bits[1], bits[2], bits[3:3 + ncand], bits[3 + ncand:]
        chk.traces_validated += 1
        cands_all = cand if cands_all is None else [a and b for a, b in zip(cands_all, cand)]
        full_applies = case["kind"] == "single" or (case["kind"] == "multi" and not impl["files"])
        oracle_ok = full_ok if full_applies else pf_ok
        if oracle_ok:
            continue
        api_all = [v for a in impl["api"] for v in a]
        info = {"oracle": "all findings" if full_applies else "per-file findings",
                "cli_only": [v for v in impl["cli"] if v not in api_all][:4], "api_only": [v for v in api_all if v not in impl["cli"]][:4], "case": case}
        # a listed defect explains the disagreement when switching that flag off makes the model's two routes agree
        relevant = [FLAGS[j] for j in range(len(FLAGS)) if agree[1 + j]] if full_applies else []
        if not relevant and full_applies and agree[-1]:
            relevant = [FLAGS[j] for j in range(len(FLAGS)) if not cand[1 + j] and FLAGS[j] in chk.known["known"]]
        if cand[0] and ideal_ok and relevant and pf_ok:
            for f in relevant:
                chk.known_finding(f, {k: v for k, v in info.items() if k != "case"} | {"cmd": case["cmd"], "targets": [impl["files"], impl["dirs"]], "paths": case["proj"]["paths"]})
        else:
            chk.violation({"reason": "command-line run and library API disagree on the same target(s) and the listed defects do not explain it"
                           if full_applies else "a directory / file-list run is not the union of the single-file runs for per-file rules",
                           "model_actual_matches_impl": cand[0], "model_ideal_agrees": ideal_ok, **info})
    if cands_all is not None and not cands_all[0]:
        alt = [j for j, okk in enumerate(cands_all) if okk]
        if alt:
            chk.notes.append("implementation no longer matches the claimed quirk vector but matches: " + names[alt[0]] +
                             " (a listed defect is no longer observed; the theorems hold for every vector)")
        elif not chk.violations:
            chk.correspondence_broken({"level": "observable", "detail": "Model/OrchHist.v (cli_run / api_run) under Actual/OrchHistActual.v disagrees with the implementation and no candidate quirk vector matches all cases"})
    return chk.finish()
