"""C15 — each command reports only its own rules; language detection and per-language dispatch.

A case *group* is a scratch project with two twin files (same content, same extension variant) and a
configuration; every linter command is run on it (click's CliRunner in-process = the real CLI path; a sample
through a real subprocess).  The analysis oracle of the Coq model (what each rule finds in the content when
it is analysed as language L) is taken from unfiltered reference runs of the orchestrator on canonically
named copies (`.py/.ts/.js/.rs`) under the base configuration; the commands run on the variant names under a
configuration whose OTHER sections were perturbed (valid settings only; rejected values are C05's domain).  Judging happens inside Coq (Model/DispatchRun.v: judge).
"""
from __future__ import annotations

import json
import os
import re
from pathlib import Path

from harness import coq
from harness.common import REPO, VERIF, pool_map, rng_for, run_cli, scratch_dir
from harness.framework import Check

PROP = "C15"
ISO_SHARE = {"quick": 0.5, "thorough": 0.35}   # share of the random groups whose reference is also taken rule by rule in isolation (grid / corpus: all)
FLAGS = ["q_shebang_any_ext", "q_name_exemption_ext_case"]
HEADER = "From TL Require Import Lib.Base Model.DispatchTypes Gen.DispatchGen Model.Dispatch Model.DispatchRun Actual.DispatchActual.\n"
LANG_EXT = {"python": ".py", "typescript": ".ts", "javascript": ".js", "rust": ".rs"}
ALL_LANGS = ["python", "typescript", "javascript", "rust", "java", "go", "unknown"]

# ------------------------------------------------------------------ the specification, restated in Python
# (used ONLY as a fallback search oracle when the Coq model cannot be evaluated, e.g. a generated table failed
#  closed; in normal runs every verdict is computed by Coq and this copy is cross-checked against it)
CMD_OWNER = {
    "blocking-async": ("blocking_async", None), "clone-abuse": ("clone_abuse", None), "dry": ("dry", None),
    "file-header": ("file_header", None), "file-placement": ("file_placement", None),
    "improper-logging": ("print_statements", None), "print-statements": ("print_statements", None),
    "lazy-ignores": ("lazy_ignores", None), "lbyl": ("lbyl", None), "magic-numbers": ("magic_numbers", None),
    "method-property": ("method_property", None), "nesting": ("nesting", None), "perf": ("performance", None),
    "perf --rule string-concat": ("performance", "performance.string-concat-loop"),
    "perf --rule regex-loop": ("performance", "performance.regex-in-loop"),
    "string-concat-loop": ("performance", "performance.string-concat-loop"),
    "regex-in-loop": ("performance", "performance.regex-in-loop"),
    "pipeline": ("collection_pipeline", None), "srp": ("srp", None), "stateless-class": ("stateless_class", None),
    "stringly-typed": ("stringly_typed", None), "unwrap-abuse": ("unwrap_abuse", None),
}
DOC_LANGS = {
    "blocking_async": ["rust"], "clone_abuse": ["rust"], "unwrap_abuse": ["rust"], "collection_pipeline": ["python"],
    "lbyl": ["python"], "stateless_class": ["python"], "method_property": ["python"],
    "lazy_ignores": ["python", "typescript", "javascript"], "cqs": ["python", "typescript", "javascript"],
    "print_statements": ["python", "typescript", "javascript"], "performance": ["python", "typescript", "javascript"],
    "stringly_typed": ["python", "typescript", "javascript"], "dry": ["python", "typescript", "javascript"],
    "file_header": ["python", "typescript", "javascript"],
    "nesting": ["python", "typescript", "javascript", "rust"], "magic_numbers": ["python", "typescript", "javascript", "rust"],
    "srp": ["python", "typescript", "javascript", "rust"], "file_placement": None,
}
SPEC_EXT = {".py": "python", ".ts": "typescript", ".tsx": "typescript", ".js": "javascript", ".jsx": "javascript", ".rs": "rust"}


def py_suffix(name: str) -> str:
    i = name.rfind(".")
    return name[i:] if 0 < i < len(name) - 1 else ""


def spec_class(name: str, data: bytes) -> str:
    suf = py_suffix(name)
    low = suf.lower()
    if low in SPEC_EXT:
        return SPEC_EXT[low]
    if suf == "" and len(data) > 0:
        try:
            line = data.decode("utf-8").split("\n")[0]
        except UnicodeDecodeError:
            return "other"
        if line.startswith("#!") and "python" in line:
            return "python"
    return "other"


# ------------------------------------------------------------------ content
PY_BLOCKS = {
    "helper": "class Helper{n}:\n    def get_name(self):\n        return self._name\n\n    def alpha(self, a):\n        return a + {k1}\n\n    def beta(self, b):\n        return b * {k2}\n",
    "big": "class Big{n}:\n    def __init__(self):\n        self._v = 0\n\n" + "".join(f"    def m{i}(self):\n        return {i}\n\n" for i in range(1, 10)),
    "deep": "def deep{n}(items, d):\n    for it in items:\n        if it:\n            for j in it:\n                if j:\n                    while d:\n                        if j > {k1}:\n                            print(\"deep\")\n",
    "loops": "def loops{n}(items):\n    out = \"\"\n    for it in items:\n        out += str(it)\n        re.match(\"a+\", it)\n    return out\n",
    "lbyl": "def look{n}(d, verbose, logger):\n    if \"k\" in d:\n        v = d[\"k\"]\n    if verbose:\n        logger.info(\"x\")\n    return d\n",
    "pipe": "def pipe{n}(items):\n    result = []\n    for it in items:\n        if not it:\n            continue\n        if it == {k2}:\n            continue\n        result.append(it)\n    x = os.getcwd()  # noqa: E501\n    return result\n",
    "cqs": "def fetch_and_update{n}(db, x):\n    v = db.read(x)\n    db.write(v)\n    return v\n",
    "strs": "def status_a{n}(status):\n    if status in (\"active\", \"inactive\", \"pending\"):\n        return 1\n    return 0\n\n\ndef status_b{n}(status):\n    if status in (\"active\", \"inactive\", \"pending\"):\n        return 2\n    return 0\n",
}
TS_BLOCKS = {
    "big": "class Big{n} {{\n" + "".join(f"  m{i}() {{{{ return {i}; }}}}\n" for i in range(1, 10)) + "}}\n",
    "deep": "function deep{n}(items, d) {{\n  for (const it of items) {{\n    if (it) {{\n      for (const j of it) {{\n        if (j) {{\n          while (d) {{\n            if (j > {k1}) {{\n              console.log(\"deep\");\n            }}\n          }}\n        }}\n      }}\n    }}\n  }}\n}}\n",
    "loops": "function loops{n}(items) {{\n  let out = \"\";\n  for (const it of items) {{\n    out += String(it);\n  }}\n  const timeout = {k1} * {k2};\n  return out;\n}}\n",
    "cqs": "function fetchAndUpdate{n}(db, x) {{\n  const v = db.read(x);\n  db.write(v);\n  return v;\n}}\n",
    "strs": "function statusA{n}(status) {{\n  if (status === \"active\" || status === \"inactive\" || status === \"pending\") {{\n    return 1;\n  }}\n  return 0;\n}}\nfunction statusB{n}(status) {{\n  if (status === \"active\" || status === \"inactive\" || status === \"pending\") {{\n    return 2;\n  }}\n  return 0;\n}}\n",
}
RS_BLOCKS = {
    "big": "struct Big{n} {{ v: i32 }}\n\nimpl Big{n} {{\n" + "".join(f"    fn m{i}(&self) -> i32 {{{{ {i} }}}}\n" for i in range(1, 10)) + "}}\n",
    "deep": "fn deep{n}(items: Vec<Vec<i32>>, d: bool) -> i32 {{\n    let mut out = 0;\n    for it in items.iter() {{\n        if d {{\n            for j in it.iter() {{\n                if *j > 1 {{\n                    while d {{\n                        if *j > {k1} {{\n                            out += {k2};\n                        }}\n                    }}\n                }}\n            }}\n        }}\n    }}\n    out\n}}\n",
    "clone": "fn clones{n}(items: Vec<String>) {{\n    let s = String::from(\"x\");\n    for it in items.iter() {{\n        let t = s.clone();\n        let u = t.clone().clone();\n    }}\n}}\n",
    "unwrap": "fn parse{n}() -> i32 {{\n    let n: i32 = \"7\".parse().unwrap();\n    let m: i32 = \"8\".parse().expect(\"number\");\n    n + m\n}}\n",
    "async": "async fn load{n}() -> String {{\n    let c = std::fs::read_to_string(\"a.txt\").unwrap();\n    std::thread::sleep(std::time::Duration::from_secs({k1}));\n    c\n}}\n",
}
BLOCKS = {"py": PY_BLOCKS, "ts": TS_BLOCKS, "rs": RS_BLOCKS}
# a tail that makes the whole file unparsable (Python: ast.parse raises SyntaxError, every Python rule takes its syntax-error path;
# TypeScript / Rust: tree-sitter error nodes)
BROKEN = {"py": "\n\ndef broken_tail(:\n    return 1 +\n", "ts": "\nfunction brokenTail( {{{ = ;\n", "rs": "\nfn broken_tail( {{ -> ;\n"}
LINK_EXTS = [".py", ".txt", ".ts", ".rs", "", ".PY", ".js", ".md"]
PRELUDE = {"py": "import os\nimport re\n\n\n", "ts": "", "rs": "use std::fs;\n\n"}
HEADS = ["", "", "", "#!/usr/bin/env python3\n", "#!/usr/bin/python\n", "#!/usr/bin/env python\n", "#!/bin/bash\n", "#! python -u\n",
         "# !/usr/bin/python\n", "#!/usr/bin/env node\n", " #!/usr/bin/python\n", "#!/usr/bin/env PYTHON\n", "#!/opt/py/bin/run\n",
         "#!/usr/bin/env deno run\n", "#!/usr/bin/env ruby\n", "#!/bin/sh\n", "#!/usr/bin/env ts-node\n", "#!/usr/bin/env bpython\n",
         "#!/opt/mypythonista/bin/run\n", "#!/usr/bin/env -S cargo +nightly -Zscript\n", "#!/usr/bin/env rust-script\n"]
STEMS = ["mod", "widget", "svc_core", "data.v2", "X", "thing.min", "py", "a.py", "test_mod", "{t}_mod_test", "{t}.test", "{t}.spec", "{t}_test"]
EXT_MAPPED = [".py", ".js", ".ts", ".tsx", ".jsx", ".java", ".go", ".rs"]
EXT_UNMAPPED = ["", "", "", "", "", ".txt", ".md", ".sh", ".pyw", ".pyi", ".json", ".c", ".", ".py.bak", ".PY.txt", ".tss", ".p", ".rst", ".yaml.j2", ".rs~"]


def case_variant(r, ext: str) -> str:
    mode = r.choice(["lower", "upper", "mixed", "lower"])
    if mode == "lower":
        return ext
    if mode == "upper":
        return ext.upper()
    return "".join(c.upper() if r.random() < 0.5 else c for c in ext)


def make_content(r, kind: str) -> str:
    names = list(BLOCKS[kind])
    r.shuffle(names)
    take = names[: r.randint(max(2, len(names) - 3), len(names))]
    parts = [PRELUDE[kind]]
    for i, b in enumerate(sorted(take)):
        parts.append(BLOCKS[kind][b].format(n=i, k1=r.choice([4242, 5151, 3737, 911]), k2=r.choice([6161, 7272, 1234])))
        parts.append("\n\n" if kind == "py" else "\n")
    return "".join(parts)


# ------------------------------------------------------------------ configuration palette
DENY_B = {"global_deny": [{"pattern": ".*_b.*", "reason": "no b files"}]}
VALID = {
    "nesting": [{"max_nesting_depth": 1}, {"max_nesting_depth": 2}, {"max_nesting_depth": 3, "python": {"max_nesting_depth": 2}}],
    "srp": [{"max_methods": 3}, {"max_methods": 5, "max_loc": 40}],
    "magic_numbers": [{"allowed_numbers": [0, 1, 2, 4242]}, {"max_small_integer": 3}],
    "dry": [{"enabled": True, "min_duplicate_lines": 3}, {"enabled": True, "min_duplicate_lines": 4}, {"enabled": True, "min_duplicate_lines": 3}, {"enabled": True, "min_duplicate_lines": 5, "storage_mode": "tempfile"}],
    "stringly_typed": [{"min_occurrences": 1}, {"require_cross_file": False}],
    "collection_pipeline": [{"min_continues": 2}, {"min_continues": 1}],
    "file_placement": [DENY_B, {"global_deny": [{"pattern": ".*_a.*", "reason": "no a files"}]}],
    "print_statements": [{"allow_in_scripts": False}, {"enabled": False}],
    "performance": [{"enabled": True}, {"enabled": False}],
    "lbyl": [{"detect_dict_key": True}, {"detect_dict_key": False}, {"enabled": False}],
    "cqs": [{"min_operations": 1}, {"enabled": False}],
    "clone_abuse": [{"detect_clone_chain": False}, {"detect_clone_in_loop": False}, {"enabled": False}],
    "unwrap_abuse": [{"allow_expect": True}, {"enabled": False}],
    "blocking_async": [{"detect_sleep_in_async": False}, {"detect_fs_in_async": False}, {"enabled": False}],
    "method_property": [{"enabled": False}],
    "file_header": [{"ignore": ["**/*_a*"]}],
}
PKG_ORDER = ["blocking_async", "clone_abuse", "collection_pipeline", "cqs", "dry", "file_header", "file_placement", "lazy_ignores", "lbyl", "magic_numbers",
             "method_property", "nesting", "performance", "print_statements", "srp", "stateless_class", "stringly_typed", "unwrap_abuse"]
# (own package, visible non-default own option, content kind, extension, command) for the section presence grid
OWN_VISIBLE = [
    ("clone_abuse", {"detect_clone_chain": False}, "rs", ".rs", "clone-abuse"), ("unwrap_abuse", {"enabled": False}, "rs", ".rs", "unwrap-abuse"),
    ("blocking_async", {"detect_sleep_in_async": False}, "rs", ".rs", "blocking-async"), ("nesting", {"max_nesting_depth": 2}, "ts", ".ts", "nesting"),
    ("srp", {"max_methods": 3}, "py", ".py", "srp"), ("magic_numbers", {"allowed_numbers": [0, 1, 2, 4242]}, "py", ".py", "magic-numbers"),
    ("lbyl", {"detect_dict_key": False}, "py", ".py", "lbyl"), ("print_statements", {"enabled": False}, "ts", ".ts", "improper-logging"),
    ("collection_pipeline", {"min_continues": 3}, "py", ".py", "pipeline"), ("performance", {"enabled": False}, "py", ".py", "perf"), ("method_property", {"enabled": False}, "py", ".py", "method-property"),
]
OTHER = {  # further VALID settings used only to perturb OTHER linters' sections (C15's domain: every section valid)
    "nesting": [{"enabled": False}, {"max_nesting_depth": 9}, {"max_nesting_depth": 1, "typescript": {"max_nesting_depth": 6}}],
    "srp": [{"enabled": False}, {"max_methods": 1}, {"max_loc": 5}],
    "magic_numbers": [{"enabled": False}, {"allowed_numbers": []}, {"max_small_integer": 100}],
    "dry": [{"enabled": False}, {"enabled": True, "min_duplicate_lines": 2, "min_occurrences": 3}, {"enabled": True, "detect_duplicate_constants": False}],
    "stringly_typed": [{"enabled": False}, {"min_occurrences": 5}, {"min_values_for_enum": 2, "max_values_for_enum": 3}],
    "collection_pipeline": [{"enabled": False}, {"min_continues": 3}],
    "file_placement": [{"directories": {"src": {"allow": [".*\\.py$"]}}}, {"global_deny": [{"pattern": ".*", "reason": "everything"}]}],
    "print_statements": [{"enabled": False}],
    "performance": [{"enabled": False}],
    "lbyl": [{"enabled": False}],
    "method_property": [{"enabled": False}],
    "stateless_class": [{"enabled": False}],
    "cqs": [{"enabled": False}],
    "file_header": [{"ignore": ["**/*"]}],
    "unwrap_abuse": [{"enabled": False}],
    "clone_abuse": [{"enabled": False}],
    "blocking_async": [{"enabled": False}],
    "lazy_ignores": [{"enabled": False}],
}
# OUT OF C15's DOMAIN (property C05 demands exit code 2 for values a linter rejects): a small deterministic stream whose
# only oracle is "the run ends with an error, no violations printed"; it never influences the C15 verdict
OUT_OF_DOMAIN = [
    ("py", ".py", {"srp": {"max_methods": 0}}, ["nesting", "lbyl"]),
    ("ts", ".ts", {"nesting": {"max_nesting_depth": 0}}, ["srp", "perf"]),
    ("rs", ".rs", {"dry": {"enabled": True, "min_occurrences": -1}}, ["unwrap-abuse"]),
    ("py", ".PY", {"file_placement": {"global_deny": [{"pattern": "([", "reason": "broken"}]}}, ["magic-numbers"]),
]


def wrong_typed(r, sec: dict) -> dict:
    """a section with one value of the wrong type (string for int, list for scalar, null, scalar for list/dict).
    Such values are not rejected by the config classes (no ValueError): the foreign rule fails internally or ignores
    them, which must not change any OTHER linter's findings (Orchestrator swallows per-rule failures)."""
    sec = json.loads(json.dumps(sec)) or {"enabled": True}
    key = r.choice(sorted(sec))
    v = sec[key]
    if isinstance(v, bool):
        sec[key] = r.choice(["yes", [v], None, 7])
    elif isinstance(v, int):
        sec[key] = r.choice(["four", [v], None, {"value": v}, 2.5])
    elif isinstance(v, list):
        sec[key] = r.choice([7, "x", None, {"a": 1}])
    elif isinstance(v, dict):
        sec[key] = r.choice(["x", 3, None, [1, 2]])
    else:
        sec[key] = r.choice([5, [v], None])
    return sec


def make_configs(r):
    base = {}
    for pkg in VALID:
        if r.random() < 0.4:
            base[pkg] = r.choice(VALID[pkg])
    if r.random() < 0.3:
        base.setdefault("dry", VALID["dry"][0])
    pert = dict(base)
    touched = r.sample(sorted(OTHER), r.choice([0, 1, 1, 2, 2, 3, 5]))
    for pkg in touched:
        op = r.random()
        if op < 0.2:
            pert.pop(pkg, None)                 # the whole section absent
        elif op < 0.35:
            pert[pkg] = {}                      # present but empty
        else:
            pert[pkg] = r.choice(OTHER[pkg] + VALID.get(pkg, []))
            if r.random() < 0.4:
                pert[pkg] = wrong_typed(r, pert[pkg])
    return base, pert, sorted(touched)


# ------------------------------------------------------------------ groups
def gen_groups(seed: int, n: int):
    groups = []
    for i in range(n):
        r = rng_for(seed, PROP, i)
        kind = r.choice(["py", "ts", "rs"])
        mapped = r.random() < 0.68
        ext = case_variant(r, r.choice(EXT_MAPPED)) if mapped else r.choice(EXT_UNMAPPED)
        if not mapped and ext and r.random() < 0.3:
            ext = case_variant(r, ext)
        head = r.choice(HEADS)
        if not mapped and r.random() < 0.5:
            head = r.choice(HEADS[3:6])          # over-sample python shebangs on unmapped names
        special = r.random()
        text = head + make_content(r, kind)
        data = text.encode("utf-8")
        if special < 0.03:
            data = b""
        elif special < 0.06:
            data = (head.encode() or b"x = 1\n") + b"\xff\xfe broken \x80\n" + data
        base, pert, touched = make_configs(r)
        g = {"i": i, "kind": kind, "stem": r.choice(STEMS), "ext": ext, "data_hex": data.hex(),
             "base": base, "pert": pert, "touched": touched, "subprocess_cmds": []}
        extra = r.random()
        if extra < 0.12 and special >= 0.06:
            g["data_hex"] = (text + BROKEN[kind]).encode("utf-8").hex()      # does not parse
        elif extra < 0.24:
            cands = [e for e in LINK_EXTS if e.lower() != ext.lower()]
            g["link_ext"] = r.choice(cands)     # the linted names are symbolic links to files with ANOTHER extension
        elif ext == "" and special >= 0.06 and "{t}" not in g["stem"] and extra < 0.8:
            # another extension-less file of the OPPOSITE kind (python shebang / none or another interpreter) in the same invocation,
            # before or after this one, given as paths or found in the directory: every file is classified on its own
            mine_py = spec_class(g["stem"] + "_a", data) == "python"
            comp_head = r.choice(["# no shebang\n", "#!/bin/bash\n", "#!/usr/bin/env node\n", ""]) if mine_py else r.choice(HEADS[3:6])
            comp = [r.choice(["aa_first", "zz_last", "Mid"]), (comp_head + make_content(r, r.choice(["py", "py", "ts"]))).encode().hex()]
            me = [g["stem"], g["data_hex"]]
            g["project"] = [comp, me] if r.random() < 0.5 else [me, comp]
            g["paths_mode"] = r.choice(["files", "files", "dir"])
        groups.append(g)
    return groups


def _fixed_content(kind: str) -> str:
    pick = {"py": ["deep", "lbyl", "helper", "pipe", "loops", "strs"], "ts": ["deep", "loops", "big", "cqs", "strs"], "rs": ["deep", "unwrap", "clone", "async"]}[kind]
    return PRELUDE[kind] + "".join(BLOCKS[kind][b].format(n=i, k1=4242, k2=6161) + "\n\n" for i, b in enumerate(pick))


def grid_groups(cmds_all):
    """deterministic part of every run: (a) every first-line variant on an extensionless / trailing-dot name,
    (b) every mapped extension in lower and upper case with content of its own and of another language;
    the commands rotate so that the grid covers all of them"""
    out, k = [], 0

    def add(kind, stem, ext, text, n_cmds=3):
        nonlocal k
        cmds = [cmds_all[(k * n_cmds + j) % len(cmds_all)] for j in range(n_cmds)]
        k += 1
        out.append({"i": f"grid:{len(out)}", "kind": kind, "stem": stem, "ext": ext, "data_hex": text.encode().hex(), "base": {}, "pert": {},
                    "touched": [], "fixed_cmds": sorted(set(cmds + (["nesting", "lbyl"] if kind == "py" and len(out) % 2 else []))), "subprocess_cmds": []})
    seen = []
    for head in HEADS:
        if head in seen:
            continue
        seen.append(head)
        add("py", "tool", "" if len(seen) % 3 else ".", head + _fixed_content("py"))
    # a wrongly typed value in an EARLY rule's section must not silence rules registered later (unwrap-abuse is last)
    for kind, ext, pert, cmds in (("rs", ".rs", {"nesting": {"max_nesting_depth": "four"}}, ["unwrap-abuse", "srp", "clone-abuse"]),
                                  ("py", ".py", {"cqs": {"min_operations": [1]}, "dry": {"enabled": True, "min_duplicate_lines": None}}, ["stateless-class", "stringly-typed", "perf", "lbyl"]),
                                  ("ts", ".ts", {"magic_numbers": {"allowed_numbers": 7}}, ["print-statements", "srp", "string-concat-loop"])):
        out.append({"i": f"grid:{len(out)}", "kind": kind, "stem": "typed", "ext": ext, "data_hex": _fixed_content(kind).encode().hex(), "base": {},
                    "pert": pert, "touched": sorted(pert), "fixed_cmds": cmds, "subprocess_cmds": []})
    # extension-less files whose shebang names another interpreter, with content of that interpreter's language
    for head in ("#!/usr/bin/env node\n", "#!/usr/bin/env deno run\n", "#!/usr/bin/env ts-node\n", "#!/bin/bash\n", "#!/usr/bin/env ruby\n"):
        out.append({"i": f"grid:{len(out)}", "kind": "ts", "stem": "cli", "ext": "", "data_hex": (head + _fixed_content("ts")).encode().hex(), "base": {}, "pert": {},
                    "touched": [], "fixed_cmds": ["nesting", "srp", "magic-numbers", "improper-logging"], "subprocess_cmds": []})
    for head in ("#!/usr/bin/env rust-script\n", "#!/usr/bin/env node\n"):
        out.append({"i": f"grid:{len(out)}", "kind": "rs", "stem": "cli", "ext": "", "data_hex": (head + _fixed_content("rs")).encode().hex(), "base": {}, "pert": {},
                    "touched": [], "fixed_cmds": ["unwrap-abuse", "clone-abuse", "nesting"], "subprocess_cmds": []})
    # presence / absence of a whole FOREIGN section while the own section holds a visible non-default option
    for n, (pkg, opt, kind, ext, cmd) in enumerate(OWN_VISIBLE):
        i = PKG_ORDER.index(pkg)
        others = [PKG_ORDER[(i + 1) % len(PKG_ORDER)], PKG_ORDER[i - 1], "unwrap_abuse" if pkg != "unwrap_abuse" else "clone_abuse"]
        y = others[n % 3]
        ysec = (VALID.get(y) or OTHER[y])[0]
        everyone = {z: {} for z in PKG_ORDER if z != pkg}
        for base, pert in (({pkg: opt}, {pkg: opt, y: {}}), ({pkg: opt, y: ysec}, {pkg: opt}), ({pkg: opt}, {pkg: opt, y: ysec}),
                           ({pkg: opt}, {pkg: opt, **everyone})):     # every other section present (empty) at once
            y = y if len(pert) <= 2 else "*"
            out.append({"i": f"grid:{len(out)}", "kind": kind, "stem": "own", "ext": ext, "data_hex": _fixed_content(kind).encode().hex(), "base": base, "pert": pert,
                        "touched": [z for z in PKG_ORDER if z != pkg] if y == "*" else [y], "fixed_cmds": [cmd], "subprocess_cmds": []})
    # several extension-less files of different kinds in ONE run, both orders and as a directory: every file is
    # classified on its own (a python-shebang script next to a plain file, a node script, a bash script)
    parts = {"script": "#!/usr/bin/env python3\n" + _fixed_content("py"), "notes": "# plain notes, no shebang\n" + _fixed_content("py"),
             "runner": "#!/usr/bin/env node\n" + _fixed_content("ts"), "job": "#!/bin/bash\n" + _fixed_content("py")}
    for combo, mode in ((["script", "notes"], "files"), (["notes", "script"], "files"), (["runner", "script", "job"], "files"),
                        (["job", "notes", "script"], "files"), (["notes", "script", "runner"], "dir")):
        for me in combo:
            out.append({"i": f"grid:{len(out)}", "kind": "py", "stem": me, "ext": "", "data_hex": parts[me].encode().hex(), "base": {}, "pert": {}, "touched": [],
                        "fixed_cmds": ["nesting", "lbyl", "magic-numbers", "improper-logging", "srp"], "subprocess_cmds": [],
                        "project": [[x, parts[x].encode().hex()] for x in combo], "paths_mode": mode})
    # a Python file that does not parse: EVERY command (each Python rule reports - or does not report - the syntax error under its
    # own id, whichever rules ran before it on the same file), under the names that select / do not select Python
    broken_py = _fixed_content("py") + BROKEN["py"]
    for stem, ext, head, cmds in (("broken", ".py", "", list(cmds_all)), ("broken", ".PY", "", list(cmds_all)[::2]), ("broken", "", "#!/usr/bin/env python3\n", list(cmds_all)[1::2]),
                                  ("broken", ".txt", "#!/usr/bin/env python3\n", ["nesting", "srp", "perf", "lbyl"]), ("broken", ".ts", "", ["nesting", "srp", "perf", "magic-numbers"])):
        out.append({"i": f"grid:{len(out)}", "kind": "py", "stem": stem, "ext": ext, "data_hex": (head + broken_py).encode().hex(), "base": {}, "pert": {},
                    "touched": [], "fixed_cmds": cmds, "subprocess_cmds": []})
    for kind, ext in (("ts", ".ts"), ("ts", ".js"), ("rs", ".rs")):
        out.append({"i": f"grid:{len(out)}", "kind": kind, "stem": "broken", "ext": ext, "data_hex": (_fixed_content(kind) + BROKEN[kind]).encode().hex(), "base": {}, "pert": {},
                    "touched": [], "fixed_cmds": ["nesting", "srp", "magic-numbers", "improper-logging", "unwrap-abuse", "perf"], "subprocess_cmds": []})
    # symbolic links: the language is that of the NAME THAT IS LINTED (its extension / its first line), never of the link target's name
    for kind, ext, link_ext, head in (("py", ".txt", ".py", ""), ("py", ".py", ".txt", ""), ("py", "", ".py", ""), ("py", "", ".py", "#!/usr/bin/env python3\n"),
                                      ("py", "", ".txt", "#!/usr/bin/python\n"), ("py", ".ts", ".py", ""), ("ts", ".ts", ".py", ""), ("ts", ".md", ".ts", ""),
                                      ("rs", ".RS", ".ts", ""), ("rs", ".rs", "", ""), ("rs", ".txt", ".rs", ""), ("ts", ".js", ".TS", ""), ("py", ".PY", ".rs", "")):
        add(kind, "lnk", ext, head + _fixed_content(kind), n_cmds=4)
        out[-1]["link_ext"] = link_ext
        if kind == "py":
            out[-1]["fixed_cmds"] = sorted(set(out[-1]["fixed_cmds"]) | {"nesting", "magic-numbers"})
    # name-based test-file exemptions under case variants of the extension (and their lower-case counterparts)
    for stem, ext, kind, cmds in (("test_mod", ".PY", "py", ["method-property", "magic-numbers", "nesting"]), ("test_mod", ".py", "py", ["method-property", "magic-numbers"]),
                                  ("{t}_mod_test", ".Py", "py", ["magic-numbers", "method-property", "stringly-typed"]), ("{t}_mod_test", ".py", "py", ["magic-numbers", "stringly-typed"]),
                                  ("{t}.test", ".TS", "ts", ["stringly-typed", "magic-numbers", "srp"]), ("{t}.test", ".ts", "ts", ["stringly-typed", "magic-numbers"]),
                                  ("{t}.spec", ".Tsx", "ts", ["stringly-typed"]), ("{t}_test", ".tS", "ts", ["stringly-typed", "improper-logging"])):
        out.append({"i": f"grid:{len(out)}", "kind": kind, "stem": stem, "ext": ext, "data_hex": _fixed_content(kind).encode().hex(), "base": {}, "pert": {},
                    "touched": [], "fixed_cmds": cmds, "subprocess_cmds": []})
    # an extension-less python-shebang script whose stem looks like a test file: it is Python, but not a `test_*.py` / `*_test.py` file
    # (its canonically named reference copy would be: the oracle of the exempting rules comes from a neutrally named copy)
    for stem in ("test_mod", "{t}_mod_test"):
        out.append({"i": f"grid:{len(out)}", "kind": "py", "stem": stem, "ext": "", "data_hex": ("#!/usr/bin/env python3\n" + _fixed_content("py")).encode().hex(), "base": {},
                    "pert": {}, "touched": [], "fixed_cmds": ["method-property", "magic-numbers", "stringly-typed", "nesting"], "subprocess_cmds": []})
    own = {".py": "py", ".js": "ts", ".ts": "ts", ".tsx": "ts", ".jsx": "ts", ".rs": "rs", ".java": "py", ".go": "rs"}
    other = {"py": "rs", "ts": "py", "rs": "ts"}
    for ext in EXT_MAPPED:
        for variant in (ext, ext.upper()):
            add(own[ext], "unit", variant, _fixed_content(own[ext]))
            add(other[own[ext]], "unit", variant, _fixed_content(other[own[ext]]))
    return out


def ood_groups():
    out = []
    for n, (kind, ext, pert, cmds) in enumerate(OUT_OF_DOMAIN):
        out.append({"i": f"out-of-domain:{n}", "ood": True, "kind": kind, "stem": "cfgerr", "ext": ext, "data_hex": _fixed_content(kind).encode().hex(),
                    "base": {}, "pert": pert, "touched": sorted(pert), "fixed_cmds": cmds, "subprocess_cmds": []})
    return out


def corpus_groups():
    out = []
    d = VERIF / "corpus" / PROP
    for p in sorted(d.glob("*.json")):
        g = json.loads(p.read_text())
        g["i"] = "corpus:" + p.stem
        g.setdefault("subprocess_cmds", [])
        out.append(g)
    return out


def _twins(stem: str, ext: str):
    if "{t}" in stem:     # the twin letter goes in front (names that must END with _test.py, .test.ts, ...)
        return stem.replace("{t}", "a") + ext, stem.replace("{t}", "b") + ext
    return stem + "_a" + ext, stem + "_b" + ext


def twin_names(g):
    return _twins(g["stem"], g["ext"])


def _natom(kind, needle, name):
    return {"NStarts": name.startswith(needle), "NEnds": name.endswith(needle), "NContains": needle in name, "NEq": name == needle}[kind]


def exempt_shift(exemptions, name: str) -> list[str]:
    """rules whose name-based exemption answers differently on the name as spelled and on the name with a lower-cased extension"""
    suf = py_suffix(name)
    canon = name[: len(name) - len(suf)] + suf.lower()
    out = []
    for rid, _langs, dnf in exemptions:
        holds = lambda nm: any(all(_natom(k, n, nm) for k, n in conj) for conj in dnf)  # noqa: E731
        if holds(name) != holds(canon):
            out.append(rid)
    return out


def ref_name_shift(exemptions, name: str, data: bytes) -> dict:
    """rules whose name-based exemption answers differently on the name that is linted and on the canonically named reference copy
    (`test_mod_a` with a python shebang is Python but is not a `test_*.py` file, its reference copy `test_mod_a.py` is): rule id -> does
    the exemption hold for the linted name.  For these rules the oracle is the neutrally named copy (or nothing when the linted name is exempt)."""
    cl = spec_class(name, data)
    if cl not in LANG_EXT or py_suffix(name).lower() == LANG_EXT[cl]:
        return {}
    suf = py_suffix(name)
    ref = name[: len(name) - len(suf)] + LANG_EXT[cl]
    out = {}
    for rid, langs, dnf in exemptions:
        holds = lambda nm: any(all(_natom(k, n, nm) for k, n in conj) for conj in dnf)  # noqa: E731
        if cl in langs and holds(name) != holds(ref):
            out[rid] = holds(name)
    return out


def apply_ref_shift(g, res, lang: str, vs: list) -> list:
    """the language reference `vs` (normalised findings) with the rules of g['ref_shift'] taken from the neutrally named copy"""
    shift = g.get("ref_shift") or {}
    if not shift:
        return vs
    rules = res["runtime_rules"]
    keep = [v for v in vs if owner_rule(v[0], rules) not in shift]
    add = [v for v in (res.get("raw") or {}).get(lang, []) if shift.get(owner_rule(v[0], rules)) is False]
    return sorted(keep + add)


# ------------------------------------------------------------------ running the implementation
def _norm(v, names):
    """(rule id, twin, line, column, message with the twins' names replaced)"""
    fp = os.path.basename(str(v["file_path"]))
    twin = "A" if fp == names[0] else "B" if fp == names[1] else "?" + fp
    msg = str(v["message"])
    for nm, ph in sorted(zip(names, ("<A>", "<B>")), key=lambda x: -len(x[0])):
        msg = msg.replace(nm, ph)
    msg = re.sub(r"(?:[^\s/:]*/)+(?=<[AB]>)", "", msg)
    return [str(v["rule_id"]), twin, v["line"], v["column"], msg]


def _write_project(root: Path, names, data: bytes, config: dict, link_ext=None):
    """two twin files under src/; with link_ext the two names are symbolic links to store/real_a<link_ext>, store/real_b<link_ext>"""
    import yaml
    (root / "src").mkdir(parents=True, exist_ok=True)
    if link_ext is not None:
        (root / "store").mkdir(exist_ok=True)
    for nm, target in zip(names, _twins("real", link_ext or "")):
        if link_ext is None:
            (root / "src" / nm).write_bytes(data)
        else:
            (root / "store" / target).write_bytes(data)
            os.symlink(os.path.join("..", "store", target), root / "src" / nm)
    (root / ".thailint.yaml").write_text(yaml.safe_dump(config, sort_keys=True) if config else "{}\n")


def _faillog(d: Path):
    p = d / "faillog.jsonl"
    os.environ["THAILINT_VERIF"] = "1"
    os.environ["THAILINT_VERIF_FAILLOG"] = str(p)
    return p


def _drain(p: Path):
    if not p.exists():
        return []
    recs = [json.loads(l) for l in p.read_text().splitlines() if l.strip()]
    p.unlink()
    return recs


def _lint_src(o, root: Path, relative: bool):
    """lint <root>/src; `relative`: spelled as the commands under test spell it (`src`, working directory = project root).  Used for
    projects of symbolic links, where the path-based file-placement rule judges another path for a relative spelling (it resolves the
    link) than for an absolute one - a path-handling matter outside C15 that must not leak into the oracle of the agnostic rules"""
    if relative:
        os.chdir(root)
        return o.lint_directory(Path("src"))
    return o.lint_directory(root / "src")


def _reference(root: Path, relative: bool = False):
    """unfiltered findings of every registered rule (in-process orchestrator, config from .thailint.yaml)"""
    from src.orchestrator.core import Orchestrator
    o = Orchestrator(project_root=root)
    vs = _lint_src(o, root, relative)
    return [{"rule_id": v.rule_id, "file_path": str(v.file_path), "line": v.line, "column": v.column, "message": v.message} for v in vs]


def _isolated(d: Path, tag: str, names, data: bytes, config: dict, link_ext=None):
    """every registered rule ALONE: one fresh orchestrator per rule whose registry holds only a fresh instance of that rule, each on
    its own copy of the project (own directory), so that nothing another rule did - on this file or on any other - can reach it"""
    from src.orchestrator.core import Orchestrator
    seed = Orchestrator(project_root=d)
    seed._ensure_rules_discovered()
    out = {}
    for k, rule in enumerate(seed.registry.list_all()):
        root = d / f"iso_{tag}" / str(k)
        _write_project(root, names, data, config, link_ext)
        o = Orchestrator(project_root=root)
        o._rules_discovered = True
        o.registry.register(type(rule)())
        vs = _lint_src(o, root, link_ext is not None)
        out[rule.rule_id] = sorted(_norm({"rule_id": v.rule_id, "file_path": str(v.file_path), "line": v.line, "column": v.column, "message": v.message}, names)
                                   for v in vs)
    return out


def _section_rejections(loaded: dict):
    """per top-level section: the languages for which the owning linter's config class raises ValueError"""
    from src.linters.collection_pipeline.config import CollectionPipelineConfig
    from src.linters.dry.config import DRYConfig
    from src.linters.file_placement.pattern_validator import PatternValidator
    from src.linters.magic_numbers.config import MagicNumberConfig
    from src.linters.nesting.config import NestingConfig
    from src.linters.srp.config import SRPConfig
    from src.linters.stringly_typed.config import StringlyTypedConfig
    by_lang = {"nesting": NestingConfig, "srp": SRPConfig, "magic_numbers": MagicNumberConfig, "stringly_typed": StringlyTypedConfig}
    out = []
    for key, sec in loaded.items():
        rej = []
        if isinstance(sec, dict):
            for lang in ALL_LANGS:
                try:
                    if key in by_lang:
                        by_lang[key].from_dict(sec, language=lang)
                    elif key == "dry":
                        DRYConfig.from_dict(sec)
                    elif key == "collection_pipeline":
                        CollectionPipelineConfig.from_dict(sec)
                    elif key == "file_placement" and sec:
                        PatternValidator().validate_config(sec)
                except ValueError:
                    rej.append(lang)
                except Exception:  # noqa: BLE001  (wrong types etc.: swallowed by the orchestrator, no abort)
                    pass
        out.append([str(key), rej])
    return out


_runner = None


def _cli_inprocess(root: Path, cmd: str, paths=("src",)):
    """run `thailint <cmd> --format json src` through click (real command function, filters, formatter, exit code)"""
    global _runner
    from click.testing import CliRunner

    import src.cli.linters  # noqa: F401  registers the commands
    from src.cli.main import cli
    if _runner is None:
        _runner = CliRunner()
    os.chdir(root)
    res = _runner.invoke(cli, ["--project-root", str(root), *cmd.split(" "), "--format", "json", *paths],
                         env={"HOME": str(root), "XDG_CONFIG_HOME": str(root / ".config"), "NO_COLOR": "1"})
    return res.exit_code, res.stdout, (res.stderr or "") + (repr(res.exception) if res.exception and not isinstance(res.exception, SystemExit) else "")


def _outcome(rc, so, se, names, only_mine=False):
    from harness.common import parse_json_violations
    if rc == 2 and "Error during linting" in (se + so):
        m = re.search(r"Error during linting: (.*)", se + so)
        return {"aborted": m.group(1)[:200] if m else "?"}
    vs = parse_json_violations(so)
    if vs is None or rc not in (0, 1):
        return {"error": f"rc={rc} stdout={so[:300]!r} stderr={se[-400:]!r}"}
    if (rc == 1) != bool(vs):
        return {"error": f"exit code {rc} with {len(vs)} violations"}
    if only_mine:   # other files of the same run are judged by their own group
        vs = [v for v in vs if os.path.basename(str(v["file_path"])) in names]
    return {"ok": sorted(_norm(v, names) for v in vs)}


def run_group(g):
    """reference analyses + every command on the variant-named project"""
    import logging
    logging.disable(logging.CRITICAL)
    try:
        from loguru import logger as _lg
        _lg.remove()
    except Exception:  # noqa: BLE001
        pass
    data = bytes.fromhex(g["data_hex"])
    names = twin_names(g)
    out = {"refs": {}, "cmds": {}, "agnostic": [], "sections": [], "detected": None, "sub": {}, "runtime_rules": [], "runtime_pkg": {},
           "ref_failures": []}
    with scratch_dir("tv-c15-") as d:
        os.environ["HOME"] = str(d)
        flog = _faillog(d)
        # reference: the same bytes under canonical names, base configuration
        from src.orchestrator.language_detector import detect_language
        link = g.get("link_ext")
        probe = d / "probe"
        _write_project(probe, names, data, {}, link)
        out["detected"] = detect_language(probe / "src" / names[0])
        cl = spec_class(names[0], data)
        need = {cl, out["detected"], "python" if cl == "other" else cl} & set(LANG_EXT)
        for lang in sorted(need) + ["python"][: 0 if need else 1]:
            ext = LANG_EXT[lang]
            root = d / ("ref_" + lang)
            cn = _twins(g["stem"], ext)
            _write_project(root, cn, data, g["base"])
            out["refs"][lang] = sorted(_norm(v, cn) for v in _reference(root))
            out["ref_failures"] += _drain(flog)
        if g.get("raw") and (cl in LANG_EXT):
            # neutrally named copy: no name-based exemption applies (oracle for the rules whose exemption is extension-case sensitive)
            root = d / "ref_raw"
            cn = _twins("neutral", LANG_EXT[cl])
            _write_project(root, cn, data, g["base"])
            out["raw"] = {cl: sorted(_norm(v, cn) for v in _reference(root))}
            _drain(flog)
        if cl == "javascript" and g.get("js_ts_ok", True) and not any(isinstance(v, dict) and ("javascript" in v or "typescript" in v) for v in g["base"].values()):
            # docs (nesting/magic-numbers "JavaScript Support"): JavaScript files are analysed with the TypeScript parser
            root = d / "ref_js_as_ts"
            cn = _twins(g["stem"], ".ts")
            _write_project(root, cn, data, g["base"])
            out["js_as_ts"] = sorted(_norm(v, cn) for v in _reference(root))
            _drain(flog)
        # reference for path-based (language-agnostic) rules: actual names, base configuration
        root = d / "ref_actual"
        _write_project(root, names, data, g["base"], link)
        out["agnostic"] = sorted(_norm(v, names) for v in _reference(root, relative=link is not None))
        out["ref_failures"] += _drain(flog)
        # every rule alone (own orchestrator, own copy of the project): the reference the property speaks about
        # ("running or configuring other linters never changes X's findings")
        if g.get("iso"):
            if cl in LANG_EXT:
                out["iso_lang"] = cl
                out["iso"] = _isolated(d, "lang", _twins(g["stem"], LANG_EXT[cl]), data, g["base"])
            else:
                out["iso_lang"] = "*"
                out["iso"] = _isolated(d, "actual", names, data, g["base"], link)
            _drain(flog)
        # the run under test: variant names, perturbed configuration
        root = d / "proj"
        _write_project(root, names, data, g["pert"], link)
        paths = ("src",)
        if g.get("project"):
            order = []
            for stem, hx in g["project"]:
                for suffix in ("_a", "_b"):
                    (root / "src" / (stem + suffix)).write_bytes(bytes.fromhex(hx))
                    order.append("src/" + stem + suffix)
            if g.get("paths_mode") == "files":
                paths = tuple(order)
        from src.linter_config.loader import LinterConfigLoader
        from src.orchestrator.core import Orchestrator
        loaded = LinterConfigLoader().load(root / ".thailint.yaml")
        out["sections"] = _section_rejections(loaded)
        o = Orchestrator(project_root=d / "ref_actual")
        o._ensure_rules_discovered()
        out["runtime_rules"] = sorted(r.rule_id for r in o.registry.list_all())
        out["runtime_pkg"] = {r.rule_id: type(r).__module__.split(".")[2] for r in o.registry.list_all()}
        for cmd in g["cmds"]:
            rc, so, se = _cli_inprocess(root, cmd, paths)
            out["cmds"][cmd] = _outcome(rc, so, se, names, only_mine=bool(g.get("project")))
            own = [f for f in _drain(flog) if out["runtime_pkg"].get(str(f.get("rule"))) == CMD_OWNER[cmd][0]]
            if own and "ok" in out["cmds"][cmd]:
                out["cmds"][cmd] = {"error": f"a rule of the command's own linter failed internally (swallowed): {own[:2]}"}
        for cmd in g.get("subprocess_cmds", []):
            rc, so, se = run_cli([*cmd.split(" "), "--format", "json", *paths], cwd=root)
            out["sub"][cmd] = _outcome(rc, so, se, names, only_mine=bool(g.get("project")))
        os.chdir("/")
    return out


# ------------------------------------------------------------------ abstraction for the model
def head_of(data: bytes) -> bytes:
    i = data.find(b"\n")
    return data[: (i + 1 if i >= 0 else len(data))][:400]


def readable(data: bytes) -> bool:
    try:
        data.decode("utf-8")
        return True
    except UnicodeDecodeError:
        return False


def owner_rule(vid: str, rules: list[str]):
    """the registered rule that emits violation id `vid` (independent of the generated tables)"""
    if vid in rules:
        return vid
    cands = [r for r in rules if r.split(".")[0] == vid.split(".")[0]]
    return cands[0] if len(cands) == 1 else "?" + vid


class Tags:
    def __init__(self):
        self.ids = {}

    def tag(self, v):
        return self.ids.setdefault(json.dumps(v[1:]), len(self.ids) + 1)


def build_atab(g, res, agnostic_rules: set[str], tags: Tags):
    rules = res["runtime_rules"]
    tab = {}
    iso_lang = res.get("iso_lang")
    if iso_lang is not None:   # exact attribution: the rule that emitted the finding when it ran alone
        for r, vs in res["iso"].items():
            if (r in agnostic_rules) == (iso_lang == "*"):
                for v in vs:
                    tab.setdefault((r, iso_lang), []).append((v[0], tags.tag(v)))
    for lang, vs in res["refs"].items():
        if lang == iso_lang:
            continue
        for v in vs:
            r = owner_rule(v[0], rules)
            if r in agnostic_rules:
                continue
            tab.setdefault((r, lang), []).append((v[0], tags.tag(v)))
    for v in res["agnostic"] if iso_lang != "*" else []:
        r = owner_rule(v[0], rules)
        if r in agnostic_rules:
            tab.setdefault((r, "*"), []).append((v[0], tags.tag(v)))
    for lang, vs in (res.get("raw") or {}).items():
        for v in vs:
            r = owner_rule(v[0], rules)
            if r in g.get("raw_rules", []):
                tab.setdefault(("raw:" + r, lang), []).append((v[0], tags.tag(v)))
        for r, exempt_here in (g.get("ref_shift") or {}).items():   # the reference copy's name is exempt where the linted name is not (or vice versa)
            tab.pop((r, lang), None)
            if not exempt_here:
                mine = [(v[0], tags.tag(v)) for v in vs if owner_rule(v[0], rules) == r]
                if mine:
                    tab[(r, lang)] = mine
    return tab


def coq_viols(vs):
    return coq.coq_list([f"({coq.coq_string(rid)}, {t})" for rid, t in vs])


def coq_group(g, res, atab, tags: Tags, cmds):
    data = bytes.fromhex(g["data_hex"])
    names = twin_names(g)
    f = f"(mk_file {coq_bytes(names[0].encode())} {coq_bytes(head_of(data))} {coq.coq_bool(len(data) > 0)} {coq.coq_bool(readable(data))})"
    c = coq.coq_list([f"(mk_section {coq.coq_string(k)} {coq.coq_list([coq.coq_string(x) for x in rej])})" for k, rej in res["sections"]])
    t = coq.coq_list([f"(({coq.coq_string(r)}, {coq.coq_string(l)}), {coq_viols(vs)})" for (r, l), vs in sorted(atab.items())])
    runs = []
    for cmd in cmds:
        o = res["cmds"][cmd]
        if "ok" in o:
            impl = f"Ok {coq_viols([(v[0], tags.tag(v)) for v in o['ok']])}"
        else:
            impl = "Aborted"
        runs.append(f"({coq.coq_string(cmd)}, {impl})")
    target = "None" if g.get("link_ext") is None else f"(Some {coq_bytes(_twins('real', g['link_ext'])[0].encode())})"
    return f"judge_e dispatch_actual {c} (mk_entry {f} {target} {t}) {coq.coq_list(runs)}"


def coq_bytes(b: bytes) -> str:
    if all(32 <= c < 127 for c in b):
        return '"' + b.decode().replace('"', '""') + '"'
    return "(bytes_to_string [" + ";".join(str(c) for c in b) + "])"


# ------------------------------------------------------------------ Python restatement of the oracle (fallback only)
def py_expected(g, res, cmd, agnostic_rules):
    names = twin_names(g)
    data = bytes.fromhex(g["data_hex"])
    cl = spec_class(names[0], data)
    pkg, only = CMD_OWNER[cmd]
    rules = res["runtime_rules"]
    pkg_of_rule = res["runtime_pkg"]
    out = []
    if DOC_LANGS.get(pkg, []) is None:
        src = res["agnostic"]
    elif cl != "other" and cl in DOC_LANGS.get(pkg, []):
        src = apply_ref_shift(g, res, cl, res["refs"].get(cl, []))
    else:
        src = []
    for v in src:
        r = owner_rule(v[0], rules)
        if pkg_of_rule.get(r) != pkg:
            continue
        if (DOC_LANGS.get(pkg, []) is None) != (r in agnostic_rules):
            continue
        if only is not None and v[0] != only:
            continue
        out.append(v)
    return sorted(out)


# ------------------------------------------------------------------ leaf level: string functions vs CPython
LEAF_ALPHA = "abPYpyTSxXjJrRs..._- 0Zz~"


def gen_leaf(seed: int, n: int):
    cases = []
    for i in range(n):
        r = rng_for(seed, PROP, "leaf", i)
        mode = r.random()
        if mode < 0.5:
            name = "".join(r.choice(LEAF_ALPHA) for _ in range(r.randint(1, 9)))
        elif mode < 0.85:
            name = r.choice(STEMS + ["", ".", "..", ".hidden", "a."]) + case_variant(r, r.choice(EXT_MAPPED + EXT_UNMAPPED))
        else:
            name = r.choice(["x.\u212as", "x.P\u0178", "x.t\u017f", "x.\uff50\uff59", "x.\u0420Y", "\u00e9.PY", "x.\u0130s", "\u0130.ts", "na\u00efve.Rs", "x.j\u0053", "\u212a.Go",
                             "x.\u212a", "x.\u0130", "x.T\u212aS", "x.\u0130\u0130", "y.p\u00e9", "y.\u00e9\u212a", "z.\u212a\u0130X", "w.\u00c4\u00b0"])
        name = name.replace("/", "_").replace("\x00", "_") or "x"
        if name in (".", ".."):
            name = name + "x"
        head = r.choice(HEADS + ["#!python", "#!", "#", "", "#!/usr/bin/pythonw\r\n", "#!/usr/bin/env -S python3 -u\nimport x\n"])
        body = r.choice(["", "x = 1\n", "fn main() {}\n"])
        cases.append({"name": name, "data_hex": (head + body).encode().hex()})
    return cases


def run_leaf(case):
    from src.orchestrator import language_detector as ld
    data = bytes.fromhex(case["data_hex"])
    with scratch_dir("tv-c15l-") as d:
        p = d / case["name"]
        p.write_bytes(data)
        suf = p.suffix
        try:
            line = data.decode("utf-8").split("\n")[0]
            sheb = ld._parse_shebang_language(line) is not None
        except UnicodeDecodeError:
            sheb = False
        return {"suffix": suf, "lower": suf.lower(), "shebang": sheb, "lang": ld.detect_language(p)}


def coq_leaf(case, impl):
    data = bytes.fromhex(case["data_hex"])
    f = f"(mk_file {coq_bytes(case['name'].encode())} {coq_bytes(head_of(data))} {coq.coq_bool(len(data) > 0)} {coq.coq_bool(readable(data))})"
    return (f"leaf_check dispatch_actual {f} {coq_bytes(impl['suffix'].encode())} {coq_bytes(impl['lower'].encode())} "
            f"{coq.coq_bool(impl['shebang'])} {coq_bytes(impl['lang'].encode())}")


# ------------------------------------------------------------------ the check
def _fingerprints():
    try:
        from translator import items_dispatch as tr
        return tr.FINGERPRINTS
    except Exception:  # noqa: BLE001
        return []


def _gen_tables():
    """generated tables as Python values (for command names / agnostic rules); None when they fail closed"""
    try:
        from translator import items_dispatch as tr
        from translator import lib as tlib
        tlib._parse_cache.clear()
        rules = tr._rules()
        return {"cmds": [c for c, _ in tr._cli_filters()], "rules": rules, "exempt": tr._name_exemptions(),
                "agnostic": {r["rid"] for r in rules if r["langs"] is None}, "pkg": {r["rid"]: r["pkg"] for r in rules}}
    except Exception as e:  # noqa: BLE001
        return {"error": f"{type(e).__name__}: {e}"}


_T0 = [None]


def _t(label):
    import sys
    import time
    now = time.time()
    if os.environ.get("VERIF_DEBUG") and _T0[0] is not None:
        print(f"[c15] {label}: {now - _T0[0]:.1f}s", file=sys.stderr)
    _T0[0] = now


def run(tier: str, seed: int, replay: str | None = None) -> int:
    _t("start")
    chk = Check(PROP, tier, seed)
    _overlay_known(chk)
    chk.rule = ("seeded scratch projects of two twin files whose content (random subset of Python / TypeScript / Rust snippet blocks that "
                "trigger every linter of that language) is written under a file name of every mapped extension in lower/upper/mixed case, "
                "of unmapped extensions, without extension, with and without a (python / other) shebang line, empty or undecodable; every "
                "linter command (22 incl. perf --rule variants) runs on it through click under a configuration whose sections of OTHER "
                "linters were perturbed (arbitrary settings the config classes do not reject: other thresholds, disabling, per-language overrides, other path rules, and wrongly typed values - string for int, list for scalar, null - which make the foreign rule fail internally); expected output = findings of the command's "
                "own rules in an unfiltered reference run on canonically named copies (.py/.ts/.js/.rs) under the unperturbed configuration. "
                "Deterministic grids add: every first-line variant (python, node, deno, bash, ruby, python as part of another word) on extension-less names; every mapped "
                "extension in both cases with own/foreign content; a foreign section added empty / added non-empty / removed while the own section holds a visible "
                "non-default option; several extension-less files of different kinds in one run (both orders, as paths and as a directory); "
                "a Python file that does not parse under every command (and unparsable TypeScript / Rust), also as a random tail on ~12 % of the random groups; "
                "names that are symbolic links to a file with another (mapped / unmapped / no) extension (grid of 13 name x target pairs and ~12 % of the random groups). "
                "For every grid / corpus group and half of the random ones the reference is also taken RULE BY RULE IN ISOLATION (one orchestrator per rule holding only a fresh "
                "instance of that rule, on its own copy of the project): the union must equal the all-rules reference, and the oracle table is attributed by the emitting rule. "
                "A case (project, config, command) is non-trivial when the reference runs contain at least one finding of a rule the "
                "command does not own (something could leak); distinct = distinct (content, file name, configuration, command)")
    chk.trusted_base += [
        "analysis oracle: what a rule reports inside a file of its own language is NOT modelled; it is taken from unfiltered reference runs of the real orchestrator on canonically named copies (the model decides which oracle entries a command may print)",
        "domain: configurations in which every section is valid (a value a linter rejects must end the run with exit code 2 by property C05); the harness confirms validity of every generated section with the real config classes / PatternValidator; a 4-case deterministic out-of-domain stream only records that such runs end with an error",
        "symbolic links: the model's entry carries the link target's name; that the implementation reads the content through the link and names the file by the linted path is validated by the link stream (os.walk / Path.is_file follow links)",
        "pathlib.PurePath.suffix and str.lower are modelled on bytes for ASCII names (leaf-level check against CPython every run); rule discovery (pkgutil/inspect) validated by comparing the generated rule table with the runtime registry",
    ]
    chk.build(["theories/Props/C15.v"], ["DispatchGen"], known_v=["theories/Props/C15Known.v"])
    mine = {f"{rel}::{','.join(ns)}" for rel, ns in _fingerprints()}
    scale = 4 if chk.broken else 3 if any(k in mine for k in chk.fingerprint_changed) else 1
    tables = _gen_tables()
    if "error" in tables:
        chk.notes.append("generated tables unavailable in the harness: " + tables["error"])
        cmds_all = sorted(CMD_OWNER)
        agnostic, pkg_of_rule = {"file-placement"}, {}
    else:
        cmds_all, agnostic, pkg_of_rule = tables["cmds"], tables["agnostic"], tables["pkg"]
        if set(cmds_all) != set(CMD_OWNER):
            chk.broken.append(f"Spec:commands in the source {sorted(set(cmds_all) ^ set(CMD_OWNER))} differ from the documented command table")
    if "error" not in tables:
        chk.extra_cov["generated_tables"] = {"commands": len(cmds_all), "rule_classes": len(tables["rules"]),
                                             "rules_by_guard": {r["rid"]: (r["langs"] if r["langs"] is not None else "every file") for r in tables["rules"]}}
    n_groups = (48 if tier == "quick" else 300) * scale
    n_leaf = (400 if tier == "quick" else 4000) * scale
    per_group = 8 if tier == "quick" else 22
    if replay:
        payload = json.loads(Path(replay).read_text()).get("violation") or {}
        groups = [payload["group"]] if "group" in payload else []
        leafs = [payload["leaf"]] if "leaf" in payload else []
        for g in groups:
            g["only_cmd"] = payload.get("cmd")
    else:
        groups = corpus_groups() + grid_groups(sorted(c for c in cmds_all if c in CMD_OWNER)) + gen_groups(seed, n_groups) + ood_groups()
        for g in groups:
            g.setdefault("touched", [])
        leafs = gen_leaf(seed, n_leaf)
    rsub = rng_for(seed, PROP, "subprocess")
    for g in groups:
        shifted = exempt_shift(tables.get("exempt", []), twin_names(g)[0]) if "error" not in tables else []
        if shifted:
            g["raw"], g["raw_rules"] = True, shifted
        rshift = ref_name_shift(tables.get("exempt", []), twin_names(g)[0], bytes.fromhex(g["data_hex"])) if "error" not in tables else {}
        if rshift:
            g["raw"], g["ref_shift"] = True, rshift
            g.setdefault("raw_rules", [])
        # the JS-vs-TS relation only holds for names no name-based exemption speaks about (a.test.ts is exempt, a.test.js is not)
        g["js_ts_ok"] = not any(_natom(k, n, nm) for _rid, _l, dnf in tables.get("exempt", []) for conj in dnf for k, n in conj
                                for nm in (_twins(g["stem"], ".ts")[0], _twins(g["stem"], ".js")[0]) if k != "NStarts") if "error" not in tables else False
        own_touched = set(g["touched"])
        g["cmds"] = [c for c in cmds_all if c in CMD_OWNER and CMD_OWNER[c][0] not in own_touched and (not g.get("only_cmd") or c == g["only_cmd"])]
        if g.get("ood"):
            g["cmds"] = list(g["fixed_cmds"])
        elif g.get("fixed_cmds"):
            g["cmds"] = [c for c in g["cmds"] if c in g["fixed_cmds"]]
        elif not replay and not str(g["i"]).startswith("corpus:") and len(g["cmds"]) > per_group:
            g["cmds"] = sorted(rsub.sample(g["cmds"], per_group))
        if not replay and g["cmds"] and rsub.random() < (0.3 if tier == "quick" else 0.12):
            g["subprocess_cmds"] = [rsub.choice(g["cmds"])]
        if replay or not isinstance(g["i"], int) or rsub.random() < ISO_SHARE[tier]:
            g["iso"] = True
    _t("build")
    procs = int(os.environ.get("VERIF_PROCS", "0")) or None      # default: the framework's pool size
    results = pool_map(run_group, groups, procs=procs, chunks=1)
    _t(f"groups({len(groups)})")
    leaf_impl = pool_map(run_leaf, leafs, procs=procs)
    _t(f"leafs({len(leafs)})")

    # ---- judge inside Coq
    verdicts, leaf_bits = [None] * len(groups), [None] * len(leafs)
    tagsets = [Tags() for _ in groups]
    atabs = [build_atab(g, res, agnostic, t) for g, res, t in zip(groups, results, tagsets)]
    with scratch_dir("tv-c15-coq-") as wd:
        try:
            shards, index = [], []
            per = 6
            for s in range(0, len(groups), per):
                chunk = [j for j in range(s, min(len(groups), s + per)) if groups[j]["cmds"] and not groups[j].get("ood")
                         and not any(rej for _k, rej in results[j]["sections"])]
                if chunk:
                    shards.append("\n".join(f"Eval vm_compute in ({coq_group(groups[j], results[j], atabs[j], tagsets[j], groups[j]['cmds'])})." for j in chunk))
                    index.append(("g", chunk))
            for s in range(0, len(leafs), 100):
                chunk = list(range(s, min(len(leafs), s + 100)))
                shards.append("\n".join(f"Eval vm_compute in ({coq_leaf(leafs[j], leaf_impl[j])})." for j in chunk))
                index.append(("l", chunk))
            outs = coq.eval_shards(wd, HEADER, shards)
            for (kind, chunk), out in zip(index, outs):
                if len(out) != len(chunk):
                    raise RuntimeError(f"expected {len(chunk)} results, got {len(out)}")
                for j, o in zip(chunk, out):
                    if kind == "g":
                        verdicts[j] = o
                    else:
                        leaf_bits[j] = o
        except RuntimeError as e:
            chk.broken.append(f"Model:evaluation of the dispatch model failed ({str(e)[:400]})")

    _t("coq-eval")
    # ---- census: the only non-ASCII code points whose str.lower() contains an ASCII character are the two the model handles
    special = [cp for cp in range(128, 0x110000) if not 0xD800 <= cp <= 0xDFFF and any(ord(c) < 128 for c in chr(cp).lower())]
    if special != [0x130, 0x212A] or "\u0130".lower().encode() != b"i\xcc\x87" or "\u212a".lower() != "k":
        chk.broken.append(f"Census:str.lower maps other non-ASCII code points to ASCII than the model assumes: {[hex(c) for c in special][:10]}")
    chk.extra_cov["unicode_lower_census"] = {"code_points_checked": 0x110000 - 128 - 2048, "lowering_to_ascii": [hex(c) for c in special]}
    # ---- leaf level
    for case, impl, bits in zip(leafs, leaf_impl, leaf_bits):
        chk.dist("leaf:" + ("ascii" if all(ord(c) < 128 for c in case["name"]) else "non-ascii"))
        if bits is None:
            continue
        chk.traces_validated += 1
        # the byte-level model of str.lower is exact when every non-ASCII character is already lower-case or one of the two
        # code points handled specially (KELVIN SIGN, LATIN CAPITAL I WITH DOT ABOVE); otherwise only the results must agree
        exact = all(ord(c) < 128 or c in "\u212a\u0130" or c.lower() == c for c in impl["suffix"])
        ok = all(bits) if exact else bool(bits[0] and bits[2] and bits[3])
        if not ok:
            chk.correspondence_broken({"level": "leaf", "leaf": case, "impl": impl, "bits [suffix, lower, shebang, detect]": bits})

    # ---- observable level
    cands_all = None
    for g, res, ver, atab in zip(groups, results, verdicts, atabs):
        if not g.get("ood") and any(rej for _k, rej in res["sections"]):
            g["ood"] = True   # a wrongly typed value happened to be rejected (ValueError): outside C15's domain
        if g.get("ood"):
            for cmd in g["cmds"]:
                o = res["cmds"][cmd]
                chk.dist("out-of-domain(C05, not part of the verdict):" + next(iter(o)))
                if "aborted" not in o and str(g["i"]).startswith("out-of-domain"):
                    chk.notes.append(f"out-of-domain stream: `{cmd}` under {g['pert']} did not end with 'Error during linting' / exit 2 ({str(o)[:120]}) - C05's business, not C15's")
            continue
        names = twin_names(g)
        data = bytes.fromhex(g["data_hex"])
        cl = spec_class(names[0], data)
        if "error" not in tables and sorted(tables["pkg"]) != res["runtime_rules"]:
            chk.correspondence_broken({"level": "registry", "detail": "generated rule table differs from the runtime registry",
                                       "generated": sorted(tables["pkg"]), "runtime": res["runtime_rules"]})
        foreign_any = {r for (r, _l), vs in atab.items() if vs}
        if "js_as_ts" in res:
            chk.dist("metamorphic:js-vs-ts")
            if res["js_as_ts"] != res["refs"].get("javascript"):
                chk.violation({"reason": "a JavaScript file is not analysed like the same content under a TypeScript name (documented: JavaScript is analysed with the TypeScript parser)",
                               "only_as_ts": [v for v in res["js_as_ts"] if v not in res["refs"].get("javascript", [])][:5],
                               "only_as_js": [v for v in res["refs"].get("javascript", []) if v not in res["js_as_ts"]][:5],
                               "group": {k: v for k, v in g.items() if k not in ("cmds", "subprocess_cmds", "only_cmd", "fixed_cmds", "ood", "raw", "raw_rules", "ref_shift", "js_ts_ok")}})
        if res.get("iso") is not None:
            chk.dist("isolated-rule reference:" + ("language-agnostic rules, actual names" if res["iso_lang"] == "*" else res["iso_lang"]))
            together = res["agnostic"] if res["iso_lang"] == "*" else res["refs"].get(res["iso_lang"], [])
            alone = sorted(v for vs in res["iso"].values() for v in vs)
            if alone != together:
                chk.violation({"reason": "the findings of the rules when each runs ALONE (own orchestrator, own copy of the project) differ from their findings when all registered rules run "
                                         "on the same file: running other linters changes a linter's findings",
                               "only_alone": [v for v in alone if v not in together][:6], "only_together": [v for v in together if v not in alone][:6],
                               "reference": res["iso_lang"], "file_names": list(names if res["iso_lang"] == "*" else _twins(g["stem"], LANG_EXT[res["iso_lang"]])),
                               "text_tail": data[-120:].decode("utf-8", "replace"),
                               "group": {k: v for k, v in g.items() if k not in ("cmds", "subprocess_cmds", "only_cmd", "fixed_cmds", "ood", "raw", "raw_rules", "ref_shift", "js_ts_ok")}})
        if res["ref_failures"]:
            chk.violation({"reason": "a rule failed internally (swallowed exception) in a reference run under a valid configuration",
                           "failures": res["ref_failures"][:3], "group": {k: v for k, v in g.items() if k not in ("cmds", "subprocess_cmds", "only_cmd", "fixed_cmds", "ood", "raw", "raw_rules", "ref_shift", "js_ts_ok")}})
        for cmd in g["cmds"]:
            o = res["cmds"][cmd]
            pkg = CMD_OWNER[cmd][0]
            nontrivial = any(res["runtime_pkg"].get(r, "?") != pkg for r in foreign_any)
            gkey = {k: g.get(k) for k in ("kind", "stem", "ext", "data_hex", "pert", "link_ext")}
            chk.count([gkey, cmd], nontrivial)
            chk.dist("content:" + g["kind"] + (" (does not parse)" if data.endswith(BROKEN[g["kind"]].encode()) else ""))
            if g.get("project"):
                chk.dist("several extension-less files in one invocation:" + g.get("paths_mode", "dir") + ", this one " + ("first" if g["project"][0][0] == g["stem"] else "later"))
            chk.dist("name is:" + ("a regular file" if g.get("link_ext") is None else "a symbolic link to a file with another extension"))
            chk.dist("spec_language:" + cl)
            chk.dist("ext:" + (g["ext"].lower() if g["ext"].lower() in EXT_MAPPED else "unmapped" if g["ext"] else "none")
                     + ("" if g["ext"] == g["ext"].lower() else "(case variant)"))
            chk.dist("outcome:" + next(iter(o)))
            chk.dist("perturbed_sections:" + str(len(g["touched"])))
            case = {"group": {k: v for k, v in g.items() if k not in ("cmds", "subprocess_cmds", "only_cmd", "fixed_cmds", "ood", "raw", "raw_rules", "ref_shift", "js_ts_ok")}, "cmd": cmd, "file_names": list(names),
                    "text_head": data[:300].decode("utf-8", "replace"), "impl": o, "detected_language": res["detected"], "spec_language": cl}
            if "error" in o:
                chk.violation({"reason": "command failed outside the modelled outcomes", **case})
                continue
            exp = py_expected(g, res, cmd, agnostic)
            py_ok = "ok" in o and o["ok"] == exp
            case["expected"] = exp[:30]
            sub = res["sub"].get(cmd)
            if sub is not None:
                chk.dist("via:subprocess")
                if sub != o:
                    chk.violation({"reason": "real CLI subprocess and in-process click invocation disagree", "subprocess": sub, **case})
                    continue
            if ver is None:
                # Coq verdict unavailable: fall back to the Python restatement of the oracle to find a failing input
                if not py_ok and not _explained_in_python(g, res, cmd, o, cl):
                    chk.violation({"reason": "command output differs from the findings of its own linter for the file's language (fallback oracle; the Coq model could not be evaluated)", **case})
                continue
            bits = [bool(b) for b in ver[g["cmds"].index(cmd)]]
            dom, spec_ok, ideal_ok, cand = bits[0], bits[1], bits[2], bits[3:]
            chk.traces_validated += 1
            if not dom:
                chk.violation({"reason": "a rule reported on a language outside its guard in a reference run, an unregistered rule id was observed (oracle table not well-formed), or a generated section is rejected by its config class (generator left the domain)", "sections": res["sections"],
                               "atab_keys": [list(k) for k in atab], **case})
                continue
            if spec_ok != py_ok:
                chk.broken.append(f"Oracle:Coq spec and its Python restatement disagree on {cmd} / {names[0]}")
            cands_all = cand if cands_all is None else [a and b for a, b in zip(cands_all, cand)]
            chk.sample({"file": names[0], "first_line": data[:60].decode("utf-8", "replace").split("\n")[0], "cmd": cmd, "perturbed": g["touched"],
                        "impl": o["ok"][:3] if "ok" in o else o, "spec_language": cl}, 4)
            if spec_ok:
                continue
            relevant = [FLAGS[i] for i in range(len(FLAGS)) if not cand[1 + i]]
            if cand[0] and ideal_ok and not relevant:
                relevant = list(FLAGS)
            if cand[0] and ideal_ok:
                for k in relevant:
                    chk.known_finding(k, {k2: case[k2] for k2 in ("cmd", "file_names", "text_head", "impl", "detected_language", "spec_language")} | {"perturbed": g["touched"], "pert": g["pert"]})
            else:
                chk.violation({"reason": "command output differs from the findings of its own linter for the file's language",
                               "model_actual_matches_impl": cand[0], "model_ideal_matches_spec": ideal_ok, **case})
    if cands_all is not None and not cands_all[0]:
        alt = [i for i, ok in enumerate(cands_all) if ok]
        if alt:
            names_ = ["actual"] + [f"actual without {f}" for f in FLAGS] + ["ideal"]
            chk.notes.append("implementation no longer matches the claimed quirk vector but matches: " + names_[alt[0]] +
                             " (a listed defect is no longer observed; theorems hold for every vector)")
        else:
            chk.correspondence_broken({"level": "observable", "detail": "Model/Dispatch.v under Actual/DispatchActual.v disagrees with the implementation and no candidate quirk vector matches all cases"})
    return chk.finish()


def _explained_in_python(g, res, cmd, o, cl) -> bool:
    """fallback attribution when Coq is unavailable: the two listed defect classes, recognised conservatively"""
    if "aborted" in o:
        return False
    if twin_names(g)[0] != twin_names(g)[0][: len(twin_names(g)[0]) - len(g["ext"])] + g["ext"].lower() \
            and CMD_OWNER[cmd][0] in ("method_property", "magic_numbers", "stringly_typed") and any(x in g["stem"] for x in ("test", "spec", "stories")):
        return True   # listed defect q_name_exemption_ext_case (conservative recognition; only used when Coq is unavailable)
    names = twin_names(g)
    data = bytes.fromhex(g["data_hex"])
    if cl == "other" and py_suffix(names[0]) != "" and res["detected"] == "python" and readable(data):
        line = data.decode("utf-8").split("\n")[0]
        if line.startswith("#!") and "python" in line:
            g2 = dict(g)
            exp = sorted(v for v in res["refs"].get("python", []) if CMD_OWNER[cmd][0] == res["runtime_pkg"].get(owner_rule(v[0], res["runtime_rules"]))
                         and (CMD_OWNER[cmd][1] is None or v[0] == CMD_OWNER[cmd][1]))
            return o.get("ok") == exp and bool(g2)
    return False


def _overlay_known(chk: Check):
    """known_findings.json is assembled by the lead from known.d/; read this property's own entries directly so that the
    check is self-contained before the next assembly"""
    p = VERIF / "known.d" / f"{PROP}.json"
    if p.exists():
        listed = {f["key"] for f in json.loads(p.read_text()).get("findings", []) if f.get("property") == PROP}
        for kind in ("known", "fixed"):   # known.d is the source of truth; drop stale entries of an older assembly
            chk.known[kind] = {k: v for k, v in chk.known[kind].items() if k in listed}
        for f in json.loads(p.read_text()).get("findings", []):
            if f.get("property") == PROP and f.get("status") == "known":
                chk.known["known"][f["key"]] = f
                chk.known["fixed"].pop(f["key"], None)
            elif f.get("property") == PROP and str(f.get("status", "")).startswith("fixed"):
                chk.known["fixed"][f["key"]] = f
                chk.known["known"].pop(f["key"], None)
