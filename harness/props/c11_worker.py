"""C11 worker process: lints offending files placed among the healthy siblings, in-process, one fresh
Orchestrator per run, and writes one JSON line per case.  Run as a separate process by c11_stream so that a
hard crash (segfault, MemoryError, os._exit) or a hang of the implementation is attributed to the case that
was running and cannot take the check down.

usage: python -m harness.props.c11_worker <jobs.json> <out.jsonl>
"""
from __future__ import annotations

import base64
import json
import logging
import os
import sys
import time
import traceback
from pathlib import Path

CONFIGS = {
    "default": {},
    "dry": {"dry": {"enabled": True, "min_duplicate_lines": 3, "storage_mode": "memory"}},
}


def _tuples(vs, root: Path):
    out = []
    for v in vs:
        fp = str(v.file_path)
        try:
            fp = str(Path(fp).relative_to(root))
        except ValueError:
            pass
        out.append([v.rule_id, fp, v.line, v.column, v.message.replace(str(root) + "/", "")])
    return sorted(out)


def _read_log(path: Path):
    if not path.exists():
        return []
    recs = []
    for line in path.read_text(encoding="utf-8", errors="replace").splitlines():
        try:
            recs.append(json.loads(line))
        except json.JSONDecodeError:
            recs.append({"where": "?", "rule": "?", "file": "?", "exc_type": "unparsable-log-line", "exc_msg": line[:200]})
    return recs


def _rule_in_traceback(e: BaseException):
    """the rule whose check() the exception escaped from (frame of _safe_check_rule), if any"""
    tb, rule = e.__traceback__, None
    while tb is not None:
        if tb.tb_frame.f_code.co_name == "_safe_check_rule":
            try:
                rule = str(tb.tb_frame.f_locals["rule"].rule_id)
            except Exception:  # noqa: BLE001
                rule = None
        tb = tb.tb_next
    return rule


LAST_RAW: list = []      # the Violation objects of the last lint() call (for the output-stage check)


def lint(root: Path, config: dict, paths: list[Path], mode: str, faillog: Path):
    """one run of the implementation; returns (violations | None, crash | None, failures, cpu seconds)"""
    LAST_RAW.clear()
    from src.orchestrator.core import Orchestrator
    if faillog.exists():
        faillog.unlink()
    t0 = time.process_time()
    crash = None
    vs = None
    try:
        o = Orchestrator(project_root=root, config=json.loads(json.dumps(config)))
        if mode == "dir":
            vs = o.lint_directory(root)
        else:
            vs = o.lint_files(paths)
    except BaseException as e:  # noqa: BLE001 - the oracle wants to see everything that escapes
        crash = {"exc_type": type(e).__name__, "exc_msg": str(e)[:300], "tb": traceback.format_exc()[-1500:],
                 "mro": [c.__name__ for c in type(e).__mro__], "rule": _rule_in_traceback(e)}
        if isinstance(e, (KeyboardInterrupt, SystemExit)):
            raise
    cpu = time.process_time() - t0
    LAST_RAW.extend(vs or [])
    return (None if vs is None else _tuples(vs, root)), crash, _read_log(faillog), cpu


def output_stage(res: dict) -> None:
    """the violations of the run just made, through the real output stage in every format (exit status, well-formed document)"""
    from harness.props import c11_output
    try:
        probs = c11_output.output_stage_problems(list(LAST_RAW))
    except BaseException as e:  # noqa: BLE001
        probs = [{"fmt": "?", "problem": f"harness: output-stage check raised {type(e).__name__}: {str(e)[:200]}"}]
        if isinstance(e, (KeyboardInterrupt, SystemExit)):
            raise
    res["output_checked"] = len(LAST_RAW)
    if probs:
        res["output_problems"] = probs[:8]


def layout_case(case: dict, base: Path, faillog: Path) -> dict:
    """a run whose whole file list is given: [(name, data, is_offender)] in lint order; baseline = the same list without the offenders"""
    d = base / "layout"
    if d.exists():
        for p in d.iterdir():
            p.unlink()
    d.mkdir(parents=True, exist_ok=True)
    files = [(n, base64.b64decode(b), bool(off)) for n, b, off in case["layout"]]
    for n, b, _ in files:
        (d / n).write_bytes(b)
    offenders = {n for n, _, off in files if off}
    cfg = CONFIGS[case["config"]]
    vs, crash, fails, cpu = lint(d, cfg, [d / n for n, _, _ in files], "files", faillog)
    res = {"id": case["id"], "crash": crash, "failures": fails, "cpu": round(cpu, 3), "layout": True}
    output_stage(res)
    bvs, bcrash, bfails, _ = lint(d, cfg, [d / n for n, _, off in files if not off], "files", faillog)
    if bcrash or bfails or bvs is None:
        res["baseline_problem"] = {"crash": bcrash, "failures": bfails}
    if vs is not None and bvs is not None:
        sib_vs = [v for v in vs if v[1] not in offenders]
        res["own"] = len(vs) - len(sib_vs)
        res["own_rules"] = sorted({v[0] for v in vs if v[1] in offenders})
        res["siblings_equal"] = sib_vs == bvs
        if not res["siblings_equal"]:
            res["sib_missing"] = [v for v in bvs if v not in sib_vs][:5]
            res["sib_extra"] = [v for v in sib_vs if v not in bvs][:5]
        res["cross_families"] = sorted({(v[0] + (":constant" if v[4].startswith("Duplicate constant") else "")) for v in sib_vs
                                        if v[0].startswith(("dry.", "stringly-typed."))})
        res["base_cross"] = sorted({v[0] for v in bvs if v[0].startswith(("dry.", "stringly-typed."))})
    return res


def slow_rules(root: Path, config: dict, path: Path, limit: float):
    """per-rule CPU time on one file (attribution of a slow run); only rules above limit/4"""
    from src.orchestrator.core import FileLintContext, Orchestrator
    from src.orchestrator.language_detector import detect_language
    o = Orchestrator(project_root=root, config=json.loads(json.dumps(config)))
    o._ensure_rules_discovered()  # noqa: SLF001
    out = []
    for rule in o.registry.list_all():
        ctx = FileLintContext(path, detect_language(path), metadata={**o.config, "_project_root": root})
        t0 = time.process_time()
        try:
            rule.check(ctx)
        except Exception:  # noqa: BLE001
            pass
        dt = time.process_time() - t0
        if dt > limit / 4:       # limit = the CPU time of the whole slow run: rules that account for a quarter of it
            out.append([rule.rule_id, round(dt, 2)])
    return out


def main(jobs_path: str, out_path: str) -> int:
    os.environ["THAILINT_VERIF"] = "1"
    job = json.loads(Path(jobs_path).read_text())
    root = Path(job["root"])
    faillog = Path(job["faillog"])
    os.environ["THAILINT_VERIF_FAILLOG"] = str(faillog)
    lg = logging.getLogger("src.orchestrator.core")
    lg.propagate = False
    lg.addHandler(logging.NullHandler())
    root.mkdir(parents=True, exist_ok=True)
    sibs = []
    for name, text in job["siblings"]:
        p = root / name
        p.write_text(text, encoding="utf-8")
        sibs.append(p)
    baselines: dict[str, list] = {}
    t_ref: dict[str, float] = {}
    sib_bytes = sum(p.stat().st_size for p in sibs)
    factor = float(job.get("hang_factor", 100.0))
    lint(root, CONFIGS["default"], sibs, "files", faillog)      # warm-up (imports, rule discovery): not timed
    with open(out_path, "a", encoding="utf-8") as out:
        def emit(obj):
            out.write(json.dumps(obj) + "\n")
            out.flush()

        for case in job["cases"]:
            if case.get("layout") is not None:
                emit({"start": case["id"]})
                emit(layout_case(case, root.parent, faillog))
                continue
            ck, mode = case["config"], case["mode"]
            bkey = ck + "/" + mode
            if bkey not in baselines:
                emit({"start": "baseline:" + bkey})
                vs, crash, fails, cpu = lint(root, CONFIGS[ck], sibs, mode, faillog)
                vs2, _c2, _f2, cpu2 = lint(root, CONFIGS[ck], sibs, mode, faillog)    # reference workload, measured twice in this very worker
                baselines[bkey] = vs
                t_ref[bkey] = max(0.05, min(cpu, cpu2))
                by_file: dict[str, list] = {}
                for v in vs or []:
                    by_file.setdefault(v[1], [])
                    if v[0] not in by_file[v[1]]:
                        by_file[v[1]].append(v[0])
                emit({"baseline": bkey, "n": None if vs is None else len(vs), "crash": crash, "failures": fails, "cpu": round(cpu, 3),
                      "rules_by_file": {k: sorted(x) for k, x in by_file.items()}})
            emit({"start": case["id"]})
            off = root / case["name"]
            off.write_bytes(base64.b64decode(case["data"]))
            pos = case["pos"] % (len(sibs) + 1)
            paths = sibs[:pos] + [off] + sibs[pos:]
            t0 = time.time()
            vs, crash, fails, cpu = lint(root, CONFIGS[ck], paths, mode, faillog)
            wall = time.time() - t0
            out_res: dict = {}
            output_stage(out_res)
            # the `hang` clause, calibrated in this run: `factor` times what a healthy file set of the same total size costs here and now
            expected = t_ref[bkey] * (1.0 + len(base64.b64decode(case["data"])) / max(1, sib_bytes))
            limit = factor * expected
            res = {"id": case["id"], "crash": crash, "failures": fails, "cpu": round(cpu, 3), "wall": round(wall, 3),
                   "t_ref": round(t_ref[bkey], 3), "expected": round(expected, 3), "cpu_limit": round(limit, 2), **out_res}
            if vs is not None:
                sib_vs = [v for v in vs if v[1] != case["name"]]
                res["own"] = len(vs) - len(sib_vs)
                res["own_rules"] = sorted({v[0] for v in vs if v[1] == case["name"]})
                res["siblings_equal"] = sib_vs == baselines[bkey]
                if not res["siblings_equal"]:
                    base = baselines[bkey] or []
                    res["sib_missing"] = [v for v in base if v not in sib_vs][:5]
                    res["sib_extra"] = [v for v in sib_vs if v not in base][:5]
            try:
                from src.orchestrator.language_detector import detect_language
                res["lang"] = detect_language(off)
            except BaseException as e:  # noqa: BLE001
                res["lang"] = f"<raised {type(e).__name__}>"
            if cpu > limit / 5:
                try:
                    res["slow_rules"] = slow_rules(root, CONFIGS[ck], off, cpu)
                except BaseException as e:  # noqa: BLE001
                    res["slow_rules"] = [["<attribution failed: %s>" % type(e).__name__, 0]]
            off.unlink()
            emit(res)
    return 0


if __name__ == "__main__":
    sys.exit(main(sys.argv[1], sys.argv[2]))
