"""C17 — Rust safety linters (unwrap-abuse, clone-abuse, blocking-async) flag exactly the risky calls outside test code.

Abstract input: a Rust file as a tree of items / statements / expressions (Model/RustSafetyTypes.v).
A node is [kind, children]; kind is a list whose head names the constructor:
  ["Mod", pre, name]  ["Fn", pre, is_async, name, extra]  ["Impl", name]  ["Let", b]  ["Stmt", semi]
  ["Id", x]  ["Lit", text]  ["Field", name]  ["Un", op]  ["Method", sl, sc, ml, name, newline]
  ["Call", sl, sc, path]  ["Closure", p, move]  ["Block"]  ["Loop", lk, pat]  ["If"]  ["Match"]  ["Macro", name]
pre = list of ["A", attribute text] | ["C", comment text].  Positions (sl, sc, ml) are filled in by the
renderer: they are what tree-sitter reports (parser-position oracle); everything else in a kind
beyond what the Coq constructor takes only steers the rendering.
"""
from __future__ import annotations

import copy
import json
from pathlib import Path

from harness import coq
from harness.common import (VERIF, drain_failures, make_orchestrator, parse_json_violations, pool_map, rng_for, run_cli,
                            scratch_dir)
from harness.framework import Check

PROP = "C17"
FLAGS = ["q_macro_opaque", "q_test_attr_substring", "q_cfg_test_literal", "q_attr_stop_at_comment", "q_chain_start_line",
         "q_for_header_in_loop", "q_clone_first_pattern", "q_net_bare_type", "q_wrapper_method_form", "q_blocking_msg_line"]
HEADER = ("From TL Require Import Lib.Base Model.RustSafetyTypes Model.RustSafetySpec Model.RustSafety Model.RustSafetyRun "
          "Actual.RustSafetyActual.\n")
LINTERS = ["unwrap-abuse", "clone-abuse", "blocking-async"]
OPTION_KEYS = {
    "unwrap-abuse": ["allow_in_tests", "allow_expect"],
    "clone-abuse": ["allow_in_tests", "detect_clone_in_loop", "detect_clone_chain", "detect_unnecessary_clone"],
    "blocking-async": ["allow_in_tests", "detect_fs_in_async", "detect_sleep_in_async", "detect_net_in_async"],
}

# the documented vocabulary (docs/*-linter.md), not read from the code
FN_ATTRS_TEST = ["#[test]", "#[tokio::test]", '#[tokio::test(flavor = "multi_thread")]', "#[async_std::test]", "#[actix_rt::test]",
                 '#[tokio::test(flavor = "multi_thread", worker_threads = 2)]']
FN_ATTRS_CFG_TEST = ["#[cfg(test)]", '#[cfg(all(test, feature = "slow"))]']  # a function compiled under cfg(test) only
FN_ATTRS_OTHER = ["#[cfg(not(test))]", "#[cfg(any(test, debug_assertions))]", '#[cfg(feature = "testing")]',
                  "#[allow(clippy::tests_outside_test_module)]", '#[doc = "helpers for cfg(test) builds"]',
                  "#[inline]", "#[allow(dead_code)]", "#[should_panic]", "#[ignore]", "#[must_use]",
                  "#[cfg_attr(test, allow(unused))]", "#[attested]", '#[cfg(feature = "test-utils")]', '#[doc = "runs the \\"test\\" suite"]',
                  '#[cfg(target_os = "linux")]']
MOD_ATTRS_TEST = ["#[cfg(test)]", '#[cfg(all(test, feature = "slow"))]']
MOD_ATTRS_OTHER = ["#[cfg(not(test))]", "#[cfg(any(test, debug_assertions))]", '#[cfg(feature = "testing")]',
                   "#[allow(clippy::tests_outside_test_module)]", '#[doc = "helpers for cfg(test) builds"]', "#[allow(dead_code)]",
                   "#[cfg_attr(test, allow(unused))]", '#[cfg(feature = "test-utils")]', '#[doc = "see cfg(test) \\" below"]']
CFG_ATOMS = ["unix", "windows", "debug_assertions", 'feature = "slow"', 'feature = "testing"', 'target_os = "linux"']


# ---- cfg predicates: generated structurally; (text, value with test false, value with test true) in Kleene's logic
# (True / False / None = unknown).  Used to steer the generator and for the input distribution only, never for judging:
# the verdict on an attribute is computed inside Coq from its text (Model/RustSafetySpec.v::attr_is_cfg_test).
def _k_all(vs):
    return False if any(v is False for v in vs) else (True if all(v is True for v in vs) else None)


def _k_any(vs):
    return True if any(v is True for v in vs) else (False if all(v is False for v in vs) else None)


def gen_pred(r, depth):
    x = r.random()
    if depth <= 0 or x < 0.45:
        if r.random() < 0.5:
            return "test", False, True
        return r.choice(CFG_ATOMS), None, None
    sep = r.choice([", ", ", ", ", ", ","])
    if x < 0.65:
        t, a, b = gen_pred(r, depth - 1)
        return f"not({t})", (None if a is None else not a), (None if b is None else not b)
    subs = [gen_pred(r, depth - 1) for _ in range(r.choice([0, 1, 2, 2, 3]))]
    text = sep.join(t for t, _, _ in subs)
    if x < 0.85:
        return f"all({text})", _k_all([a for _, a, _ in subs]), _k_all([b for _, _, b in subs])
    return f"any({text})", _k_any([a for _, a, _ in subs]), _k_any([b for _, _, b in subs])


def cfg_attr_text(r, pred):
    pad = r.choice(["", "", "", "", " "])
    return f"#[cfg({pad}{pred}{pad})]"


def gen_cfg_attr(r, want_test_only):
    """a #[cfg(..)] attribute with a generated predicate; with want_test_only one that can only hold in a test build"""
    for _ in range(12):
        t, a, b = gen_pred(r, r.choice([1, 2, 2, 3]))
        only = a is False and b is not False
        if want_test_only is None or only == want_test_only:
            return cfg_attr_text(r, t)
    return "#[cfg(test)]" if want_test_only else "#[cfg(not(test))]"


def _attr_tokens(text):
    import re
    return re.findall(r'"(?:[^"\\]|\\.)*"|[A-Za-z_][A-Za-z0-9_]*|::|\S', text)


def attr_sem(text):
    """(marks a test function, test-only configuration) - a Python reading of the attribute for the distribution only"""
    toks = _attr_tokens(text)
    if toks[:2] != ["#", "["] or toks[-1:] != ["]"]:
        return False, False
    m = toks[2:-1]
    i = 0
    while i + 2 < len(m) and m[i + 1] == "::":
        i += 2
    tf = bool(m) and m[i] == "test" and (i + 1 == len(m) or m[i + 1] == "(")
    ct = False
    if m[:2] == ["cfg", "("] and m[-1:] == [")"]:
        try:
            v, rest = _parse_pred(m[2:-1])
            ct = (not rest) and v[0] is False and v[1] is not False
        except (IndexError, ValueError):
            ct = False
    return tf, ct


def _parse_pred(ts):
    if len(ts) >= 2 and ts[1] == "(" and ts[0] in ("all", "any", "not"):
        op, rest, vs = ts[0], ts[2:], []
        while rest[0] != ")":
            v, rest = _parse_pred(rest)
            vs.append(v)
            if rest[0] == ",":
                rest = rest[1:]
        rest = rest[1:]
        if op == "not":
            if len(vs) != 1:
                raise ValueError
            return tuple(None if x is None else not x for x in vs[0]), rest
        f = _k_all if op == "all" else _k_any
        return (f([a for a, _ in vs]), f([b for _, b in vs])), rest
    if len(ts) >= 3 and ts[1] == "=":
        return (None, None), ts[3:]
    return ((False, True) if ts[0] == "test" else (None, None)), ts[1:]


FS_FUNCTIONS = ["read_to_string", "read", "write", "create_dir", "create_dir_all", "remove_file", "remove_dir", "remove_dir_all",
                "rename", "copy", "metadata", "read_dir", "canonicalize", "read_link"]
NET_TYPES = ["TcpStream", "TcpListener", "UdpSocket"]
WRAPPERS = ["asyncify", "spawn_blocking", "block_in_place"]
RISKY_METHODS = ["unwrap", "expect", "clone"]
NEUTRAL_METHODS = ["len", "iter", "to_string", "unwrap_or", "unwrap_or_default", "unwrap_err", "expect_err", "cloned", "clone_from",
                   "to_owned", "push", "send", "next", "map", "unwrapped", "cloner"]
VARS = ["v0", "v1", "v2", "v3", "cfg", "data", "test"]
MACROS = ["println", "format", "vec", "assert", "assert_eq", "dbg"]
LOOPK = {"for": "LFor", "while": "LWhile", "loop": "LLoop"}


def kname(n):
    return n[0][0]


# ------------------------------------------------------------------ generation
class Gen:
    def __init__(self, rng, max_depth=3):
        self.r, self.max_depth, self.counter = rng, max_depth, 0

    def fresh(self, p):
        self.counter += 1
        return f"{p}{self.counter}"

    # ---- expressions
    def atom(self):
        r = self.r
        x = r.random()
        if x < 0.7:
            return [["Id", r.choice(VARS)], []]
        if x < 0.8:
            return [["Field", r.choice(["items", "name", "inner"])], [[["Lit", "self"], []]]]
        return [["Lit", r.choice(["1", "42", '"s"', "self"])], []]

    def blocking_path(self):
        r = self.r
        x = r.random()
        if x < 0.30:
            return r.choice([["std", "fs"], ["fs"]]) + [r.choice(FS_FUNCTIONS)]
        if x < 0.42:
            return r.choice([["std", "thread", "sleep"], ["thread", "sleep"]])
        if x < 0.62:
            return r.choice([["std", "net"], ["net"], []]) + [r.choice(NET_TYPES), r.choice(["connect", "bind"])]
        # near misses and neutral paths
        return r.choice([["tokio", "fs", r.choice(FS_FUNCTIONS)], ["std", "fs", "File", "open"], ["fs", "exists"], ["std", "thread", "spawn"],
                         ["sleep"], [r.choice(FS_FUNCTIONS)], ["tokio", "time", "sleep"], ["std", "net", "lookup_host"], ["thread", "sleep_ms"],
                         ["net", "Ipv4Addr", "new"], ["std", "fs"], ["process"], ["Some"], ["String", "from"], ["Vec", "new"],
                         ["std", "io", "stdin"], ["xstd", "fs", "read"], ["std", "fsx", "read"], ["fs", "reader"]])

    def wrapper_path(self):
        r = self.r
        if r.random() < 0.75:
            return r.choice([[], ["tokio", "task"], ["task"]]) + [r.choice(WRAPPERS)]
        return r.choice([["tokio", "spawn"], ["spawn"], ["task", "spawn_local"], ["spawn_blocking_io"], ["tokio", "task", "spawn_blocking", "now"]])

    def postfix(self, depth):
        """an expression that can be a receiver"""
        r = self.r
        if depth <= 0 or r.random() < 0.35:
            return self.atom()
        x = r.random()
        if x < 0.62:
            return self.method(depth)
        if x < 0.9:
            return self.call(depth)
        return [["Un", r.choice(["try", "await"])], [self.postfix(depth - 1)]]

    def method(self, depth, name=None):
        r = self.r
        name = name or (r.choice(RISKY_METHODS) if r.random() < 0.6 else r.choice(NEUTRAL_METHODS))
        recv = self.postfix(depth - 1)
        if name == "clone" and r.random() < 0.25:
            recv = self.method(depth - 1, "clone")
        if name == "clone" and r.random() < 0.35:
            recv = [["Id", r.choice(VARS)], []]
        args = [[["Lit", '"msg"'], []]] if name in ("expect", "expect_err") else [self.arg(depth - 1) for _ in range(r.choice([0, 0, 0, 1, 2]))]
        newline = kname(recv) in ("Method", "Call") and r.random() < 0.2
        return [["Method", 0, 0, 0, name, newline], [recv] + args]

    def call(self, depth):
        r = self.r
        if r.random() < 0.07:
            # method-form wrapper: handle.spawn_blocking(|| ..), rt.block_in_place(move || { .. })
            inner = self.planted_blocking(depth - 1) if r.random() < 0.8 else self.expr(depth - 1)
            body = inner if r.random() < 0.5 else [["Block"], [[["Stmt", r.random() < 0.6], [inner]]]]
            recv = r.choice([[["Id", "rt"], []], [["Id", "handle"], []], [["Call", 0, 0, ["Handle", "current"]], []]])
            name = r.choice(WRAPPERS + ["spawn_blocking", "spawn", "spawn_local"])
            return [["Method", 0, 0, 0, name, False], [recv, [["Closure", "", r.random() < 0.5], [body]]]]
        if r.random() < 0.25:
            # a (near-)wrapper call around a closure that usually contains a documented blocking call
            inner = self.planted_blocking(depth - 1) if r.random() < 0.75 else self.expr(depth - 1)
            x = r.random()
            if x < 0.45:
                body = [["Block"], self.stmts(depth - 2, 0, 1) + [[["Stmt", r.random() < 0.6], [inner]]]]
            elif x < 0.6:
                body = [["Block"], [[["Let", self.fresh("b")], [inner]]] + self.stmts(depth - 2, 0, 1)]
            else:
                body = inner
            return [["Call", 0, 0, self.wrapper_path()], [[["Closure", "", r.random() < 0.5], [body]]]]
        return [["Call", 0, 0, self.blocking_path()], [self.arg(depth - 1) for _ in range(r.choice([0, 1, 1, 2]))]]

    def planted_blocking(self, depth):
        r = self.r
        e = [["Call", 0, 0, self.documented_path()], [self.atom() for _ in range(r.choice([1, 1, 2]))]]
        if r.random() < 0.5:
            e = [["Method", 0, 0, 0, r.choice(["unwrap", "expect", "len", "clone"]), False], [e]]
            if e[0][4] == "expect":
                e[1].append([["Lit", '"msg"'], []])
        return e

    def documented_path(self):
        r = self.r
        x = r.random()
        if x < 0.45:
            return r.choice([["std", "fs"], ["fs"]]) + [r.choice(FS_FUNCTIONS)]
        if x < 0.65:
            return r.choice([["std", "thread", "sleep"], ["thread", "sleep"]])
        return r.choice([["std", "net"], ["net"], []]) + [r.choice(NET_TYPES), r.choice(["connect", "bind"])]

    def arg(self, depth):
        r = self.r
        x = r.random()
        if depth <= 0 or x < 0.45:
            return self.atom()
        if x < 0.55:
            return [["Un", "ref"], [self.postfix(depth - 1)]]
        if x < 0.65:
            return [["Closure", r.choice(["x", "it", "v0"]), False], [self.expr(depth - 1)]]
        return self.postfix(depth)

    def expr(self, depth):
        r = self.r
        x = r.random()
        if depth > 0 and x < 0.06:
            return [["Match"], [self.postfix(depth - 1)] + [self.expr(depth - 1) if r.random() < 0.6 else self.block(depth - 1, 1, 2) for _ in range(r.randint(1, 3))]]
        if depth > 0 and x < 0.10:
            return [["Macro", r.choice(MACROS)], [self.macro_arg(depth - 1) for _ in range(r.randint(1, 2))]]
        if x < 0.14:
            return [["Un", "ref"], [self.postfix(depth)]]
        return self.postfix(depth)

    def macro_arg(self, depth):
        """expressions whose token-tree form is understood by the model: identifiers, literals, fields, method and path calls"""
        r = self.r
        if depth <= 0 or r.random() < 0.3:
            return self.atom()
        if r.random() < 0.7:
            name = r.choice(RISKY_METHODS) if r.random() < 0.6 else r.choice(NEUTRAL_METHODS)
            args = [[["Lit", '"msg"'], []]] if name in ("expect", "expect_err") else []
            return [["Method", 0, 0, 0, name, False], [self.macro_arg(depth - 1)] + args]
        return [["Call", 0, 0, self.blocking_path()], [self.macro_arg(depth - 1) for _ in range(r.choice([0, 1]))]]

    # ---- statements
    def block(self, depth, lo=1, hi=3):
        return [["Block"], self.stmts(depth, lo, hi)]

    def stmts(self, depth, lo=1, hi=4, tail_ok=False):
        out = [self.stmt(depth) for _ in range(self.r.randint(lo, hi))]
        if depth > 0 and any(kname(x) == "Let" for x in out) and self.r.random() < 0.12:
            # an attributed nested item after a let: the identifier tokens of its attributes (cfg, test, ...) are
            # `identifier` nodes of the block and count as appearances of a variable of that name
            out.append(self.fn(0, nested=True))
        if tail_ok and out and kname(out[-1]) == "Stmt" and kname(out[-1][1][0]) not in ("Loop", "If", "Match", "Block") and self.r.random() < 0.25:
            out[-1][0][1] = False
        return out

    def stmt(self, depth):
        r = self.r
        x = r.random()
        if x < 0.30:
            b = r.choice(VARS) if r.random() < 0.15 else self.fresh("b")
            init = self.expr(depth)
            if r.random() < 0.4:
                init = [["Method", 0, 0, 0, "clone", False], [[["Id", r.choice(VARS)], []]]]
                if r.random() < 0.2:
                    init = [["Method", 0, 0, 0, "clone", False], [init]]
            return [["Let", b], [init]]
        if depth > 0 and x < 0.45:
            lk = r.choice(["for", "for", "while", "loop"])
            hd = [] if lk == "loop" else [self.header(depth - 1)]
            return [["Stmt", True], [[["Loop", lk, r.choice(["i", "item", "v1"]) if lk == "for" else ""], hd + self.stmts(depth - 1, 1, 3)]]]
        if depth > 0 and x < 0.53:
            return [["Stmt", True], [[["If"], [self.header(depth - 1)] + self.stmts(depth - 1, 1, 2)]]]
        if depth > 0 and x < 0.57:
            return [["Stmt", True], [self.block(depth - 1, 1, 2)]]
        if depth > 0 and x < 0.60:
            return self.fn(depth - 1, nested=True)
        if x < 0.70:
            return [["Stmt", True], [[["Macro", r.choice(MACROS)], [self.macro_arg(depth) for _ in range(r.randint(1, 2))]]]]
        return [["Stmt", True], [self.expr(depth)]]

    def header(self, depth):
        """loop / if header: no block-like expression"""
        r = self.r
        if r.random() < 0.45:
            recv = [["Id", r.choice(VARS)], []] if r.random() < 0.6 else self.postfix(depth)
            return [["Method", 0, 0, 0, r.choice(["clone", "clone", "iter", "unwrap", "len"]), False], [recv]]
        e = self.postfix(depth)
        return e if not _has_blocklike(e) else self.atom()

    # ---- items
    def pre(self, on_fn: bool, want_test: bool | None = None):
        r = self.r
        out = []
        if want_test is None:
            want_test = r.random() < 0.4
        if r.random() < 0.12:
            out.append(["C", r.choice(["// helper", "/// Documented item", "// see tests"])])

        def test_attr():
            if on_fn and r.random() < 0.7:
                return r.choice(FN_ATTRS_TEST)
            x = r.random()
            if x < 0.35:
                return "#[cfg(test)]"
            if x < 0.5:
                return r.choice(MOD_ATTRS_TEST)
            return gen_cfg_attr(r, True)

        def other_attr():
            x = r.random()
            if x < 0.6:
                return r.choice(FN_ATTRS_OTHER if on_fn else MOD_ATTRS_OTHER)
            if x < 0.9:
                return gen_cfg_attr(r, False)
            return gen_cfg_attr(r, None)

        n_other = r.choice([0, 0, 0, 1, 1, 2])
        attrs = ([test_attr()] if want_test else []) + [other_attr() for _ in range(n_other)]
        r.shuffle(attrs)
        for a in attrs:
            out.append(["A", a])
            if r.random() < 0.10:
                out.append(["C", r.choice(["// note", "/// Doc comment", "// TODO tidy"])])
        return out

    def fn(self, depth, nested=False, method=False):
        r = self.r
        is_async = r.random() < 0.45
        return [["Fn", self.pre(True), is_async, self.fresh("m" if method else "f"), {"pub": r.random() < 0.3, "self": method}],
                self.stmts(depth, 1, 4, tail_ok=True)]

    def mod(self, depth, level=0):
        r = self.r
        items = []
        for _ in range(r.randint(1, 3)):
            x = r.random()
            if x < 0.15 and level < 2:
                items.append(self.mod(depth, level + 1))
            elif x < 0.25:
                items.append(self.impl(depth))
            else:
                items.append(self.fn(depth))
        return [["Mod", self.pre(False), r.choice(["tests", "util", "inner", "net_impl"]) + str(self.counter)], items]

    def impl(self, depth):
        return [["Impl", self.fresh("K")], [self.fn(depth, method=True) for _ in range(self.r.randint(1, 2))]]

    def file(self):
        r = self.r
        items = []
        for _ in range(r.randint(1, 4)):
            d = r.choice([0, 1, 1, 2, 2, self.max_depth])
            x = r.random()
            if x < 0.25:
                items.append(self.mod(d))
            elif x < 0.35:
                items.append(self.impl(d))
            else:
                items.append(self.fn(d))
        return items


def _has_blocklike(n):
    return kname(n) in ("Block", "Loop", "If", "Match") or any(_has_blocklike(c) for c in n[1])


def gen_configs(r):
    """option settings of one case: defaults, strict, and random assignments (keys present or absent)"""
    runs = [{}, {"unwrap-abuse": {"allow_in_tests": False, "allow_expect": False}, "clone-abuse": {"allow_in_tests": False},
                 "blocking-async": {"allow_in_tests": False}}]
    for _ in range(2):
        c = {}
        for l in LINTERS:
            sec = {k: r.random() < 0.5 for k in OPTION_KEYS[l] if r.random() < 0.6}
            if sec or r.random() < 0.5:
                c[l] = sec
        runs.append(c)
    one_off = {l: {r.choice(OPTION_KEYS[l][1:]): False} for l in LINTERS}
    # the documented `enabled` key: one linter switched off (the other two as in one_off), sometimes spelled out as true
    off = r.choice(LINTERS)
    for l in LINTERS:
        if l == off and r.random() < 0.5:
            one_off[l] = dict(one_off[l], enabled=False)
        elif r.random() < 0.15:
            one_off[l] = dict(one_off[l], enabled=True)
    runs.append(one_off)
    return runs


def gen_cases(seed: int, n_files: int, max_depth: int, start: int = 0):
    cases = []
    for i in range(start, start + n_files):
        r = rng_for(seed, PROP, i)
        g = Gen(r, max_depth=r.choice([1, 2, 2, 3, max_depth]))
        items = g.file()
        text, placed = render(items, top_offset=r.choice([0, 0, 1, 2]))
        runs = gen_configs(r)
        via = "cli" if i % 150 == 7 else "api"  # a fixed fraction goes through the three CLI commands
        if via == "cli":
            runs = [runs[0], runs[1], runs[4]]
        cases.append({"i": i, "items": placed, "text": text, "runs": runs, "via": via})
    return cases


# ------------------------------------------------------------------ rendering
class W:
    def __init__(self, top_offset=0):
        self.parts: list[str] = ["\n" * top_offset]
        self.line, self.col = top_offset, 0

    def put(self, s: str):
        self.parts.append(s)
        nl = s.count("\n")
        if nl:
            self.line += nl
            self.col = len(s) - s.rfind("\n") - 1
        else:
            self.col += len(s)

    def text(self):
        return "".join(self.parts)


def r_expr(w: W, n, ind: int):
    k, cs = n[0], n[1]
    t = k[0]
    if t == "Id":
        w.put(k[1])
    elif t == "Lit":
        w.put(k[1])
    elif t == "Field":
        r_expr(w, cs[0], ind)
        w.put("." + k[1])
    elif t == "Un":
        if k[1] == "ref":
            w.put("&")
            r_expr(w, cs[0], ind)
        else:
            r_expr(w, cs[0], ind)
            w.put("?" if k[1] == "try" else ".await")
    elif t == "Method":
        k[1], k[2] = w.line, w.col
        r_expr(w, cs[0], ind)
        if k[5]:
            w.put("\n" + " " * (ind + 4))
        k[3] = w.line
        w.put("." + k[4] + "(")
        _args(w, cs[1:], ind)
        w.put(")")
    elif t == "Call":
        k[1], k[2] = w.line, w.col
        w.put("::".join(k[3]) + "(")
        _args(w, cs, ind)
        w.put(")")
    elif t == "Closure":
        w.put(("move " if k[2] else "") + "|" + k[1] + "| ")
        r_expr(w, cs[0], ind)
    elif t == "Block":
        w.put("{\n")
        r_stmts(w, cs, ind + 4)
        w.put(" " * ind + "}")
    elif t == "Loop":
        lk = k[1]
        if lk == "for":
            w.put(f"for {k[2]} in ")
            r_expr(w, cs[0], ind)
            w.put(" {\n")
            body = cs[1:]
        elif lk == "while":
            w.put("while ")
            r_expr(w, cs[0], ind)
            w.put(" {\n")
            body = cs[1:]
        else:
            w.put("loop {\n")
            body = cs
        r_stmts(w, body, ind + 4)
        w.put(" " * ind + "}")
    elif t == "If":
        w.put("if ")
        r_expr(w, cs[0], ind)
        w.put(" {\n")
        r_stmts(w, cs[1:], ind + 4)
        w.put(" " * ind + "}")
    elif t == "Match":
        w.put("match ")
        r_expr(w, cs[0], ind)
        w.put(" {\n")
        arms = cs[1:]
        for j, a in enumerate(arms):
            w.put(" " * (ind + 4) + ("_" if j == len(arms) - 1 else str(j)) + " => ")
            r_expr(w, a, ind + 4)
            w.put(",\n")
        w.put(" " * ind + "}")
    elif t == "Macro":
        name = k[1]
        if name == "vec":
            w.put("vec![")
            _args(w, cs, ind)
            w.put("]")
        else:
            w.put(name + "!(")
            if name in ("println", "format"):
                w.put('"' + " ".join("{}" for _ in cs) + '", ')
            _args(w, cs, ind)
            w.put(")")
    else:
        raise ValueError(f"cannot render expression {t}")


def _args(w, args, ind):
    for j, a in enumerate(args):
        if j:
            w.put(", ")
        r_expr(w, a, ind)


def r_stmts(w: W, stmts, ind: int):
    for s in stmts:
        k, cs = s[0], s[1]
        t = k[0]
        if t == "Let":
            w.put(" " * ind + f"let {k[1]} = ")
            r_expr(w, cs[0], ind)
            w.put(";\n")
        elif t == "Stmt":
            w.put(" " * ind)
            r_expr(w, cs[0], ind)
            blocklike = cs[0][0][0] in ("Loop", "If", "Match", "Block")
            w.put("\n" if (blocklike or not k[1]) else ";\n")
        elif t in ("Fn", "Mod", "Impl"):
            r_item(w, s, ind)
        else:
            raise ValueError(f"cannot render statement {t}")


def r_pre(w: W, pre, ind):
    for p in pre:
        w.put(" " * ind + p[1] + "\n")


def r_item(w: W, n, ind: int):
    k, cs = n[0], n[1]
    t = k[0]
    if t == "Fn":
        r_pre(w, k[1], ind)
        extra = k[4] if len(k) > 4 else {}
        w.put(" " * ind + ("pub " if extra.get("pub") else "") + ("async " if k[2] else "") + f"fn {k[3]}(" + ("&self" if extra.get("self") else "") + ") {\n")
        r_stmts(w, cs, ind + 4)
        w.put(" " * ind + "}\n")
    elif t == "Mod":
        r_pre(w, k[1], ind)
        w.put(" " * ind + f"mod {k[2]} {{\n")
        for c in cs:
            r_item(w, c, ind + 4)
        w.put(" " * ind + "}\n")
    elif t == "Impl":
        w.put(" " * ind + f"impl {k[1]} {{\n")
        for c in cs:
            r_item(w, c, ind + 4)
        w.put(" " * ind + "}\n")
    else:
        raise ValueError(f"cannot render item {t}")


def render(items, top_offset=0):
    """(text, items with the tree-sitter positions of every call filled in)"""
    items = copy.deepcopy(items)
    w = W(top_offset)
    for j, it in enumerate(items):
        if j:
            w.put("\n")
        r_item(w, it, 0)
    return w.text(), items


# ------------------------------------------------------------------ Coq encoding
_pool: dict[str, str] = {}


def qs(s: str) -> str:
    """a Coq string term; inside a shard every distinct string is defined once (s<n>) - type-checking string
    literals dominates the cost of a case otherwise"""
    if s not in _pool:
        _pool[s] = f"s{len(_pool)}"
    return _pool[s]


def pool_defs() -> str:
    return "".join(f"Definition {n} : string := {coq.coq_string(s)}.\n" for s, n in _pool.items())


def coq_pre(pre) -> str:
    return coq.coq_list([f"SAttr {qs(p[1])}" if p[0] == "A" else "SComment" for p in pre])


def coq_node(n) -> str:
    k, cs = n[0], n[1]
    t = k[0]
    if t == "Mod":
        ks = f"(KMod {coq_pre(k[1])})"
    elif t == "Fn":
        ks = f"(KFn {coq_pre(k[1])} {coq.coq_bool(k[2])} {qs(k[3])})"
    elif t == "Impl":
        ks = "KImpl"
    elif t == "Let":
        ks = f"(KLet {qs(k[1])})"
    elif t == "Stmt":
        ks = "KStmt"
    elif t == "Id":
        ks = f"(KId {qs(k[1])})"
    elif t == "Lit":
        ks = "KLit"
    elif t == "Field":
        ks = f"(KField {qs(k[1])})"
    elif t == "Un":
        ks = "KUn"
    elif t == "Method":
        ks = f"(KMethod {k[1]} {k[2]} {k[3]} {qs(k[4])})"
    elif t == "Call":
        ks = f"(KCall {k[1]} {k[2]} {coq.coq_list([qs(s) for s in k[3]])})"
    elif t == "Closure":
        ks = f"(KClosure {qs(k[1])})"
    elif t == "Block":
        ks = "KBlock"
    elif t == "Loop":
        ks = f"(KLoop {LOOPK[k[1]]} {qs(k[2])})"
    elif t == "If":
        ks = "KIf"
    elif t == "Match":
        ks = "KMatch"
    elif t == "Macro":
        ks = f"(KMacro {qs(k[1])})"
    else:
        raise ValueError(t)
    return f"N {ks} {coq.coq_list([coq_node(c) for c in cs])}"


def coq_file(items) -> str:
    return coq.coq_list([coq_node(n) for n in items])


def coq_options(sec: dict) -> str:
    return coq.coq_list([f"({qs(k)}, {coq.coq_bool(bool(v))})" for k, v in sec.items()])


def coq_config(cfg: dict) -> str:
    return "(mkcfg " + " ".join(coq_options(cfg.get(l, {})) for l in LINTERS) + ")"


# ------------------------------------------------------------------ implementation runner
_orch = None


def _canon(vs):
    out = []
    for v in vs:
        rid = str(v["rule_id"])
        if rid.split(".")[0] in LINTERS:
            out.append([rid, int(v["line"]), int(v["column"]), str(v["message"])])
    return sorted(out)


def _parse_error(text: str) -> bool:
    from src.analyzers.rust_base import RUST_PARSER
    return RUST_PARSER.parse(text.encode()).root_node.has_error


def run_impl(case):
    """implementation output for every configuration of the case: sorted [rule_id, line, column, message]"""
    global _orch
    with scratch_dir("tv-c17-") as d:
        f = d / "case.rs"
        f.write_text(case["text"])
        res = []
        if case["via"] == "cli":
            for cfg in case["runs"]:
                allv, err = [], None
                # the documented (hyphenated) section names in a config file; the loader normalises them (C05 fix cc0b16c)
                cf = d / "cfg.yaml"
                cf.write_text(json.dumps(cfg))
                for cmd in LINTERS:
                    rc, so, se = run_cli([cmd, "--config", str(cf), "--format", "json", str(f)], cwd=d)
                    vs = parse_json_violations(so)
                    if vs is None or rc not in (0, 1):
                        err = {"error": f"{cmd}: rc={rc} stdout={so[:200]} stderr={se[-300:]}"}
                        break
                    if (rc == 1) != bool(vs):
                        err = {"error": f"{cmd}: exit status {rc} with {len(vs)} violations"}
                        break
                    if any(not str(v["rule_id"]).startswith(cmd) for v in vs):
                        err = {"error": f"{cmd}: reports a foreign rule {vs[:2]}"}
                        break
                    allv.extend(vs)
                res.append(err or _canon(allv))
            return {"runs": res, "failures": [], "parse_error": False}
        if _orch is None:
            _orch = make_orchestrator(d, {})
        _orch.project_root = d
        for cfg in case["runs"]:
            _orch.config = copy.deepcopy(cfg)
            vs = _orch.lint_file(f)
            res.append(_canon([{"rule_id": v.rule_id, "line": v.line, "column": v.column, "message": v.message} for v in vs]))
        return {"runs": res, "failures": drain_failures(), "parse_error": _parse_error(case["text"])}


# ------------------------------------------------------------------ judging
def call_rows(items, acc=None):
    """rows on which a call expression starts or a method name sits"""
    acc = set() if acc is None else acc
    for n in items:
        k = n[0]
        if k[0] == "Method":
            acc.update((k[1], k[3]))
        elif k[0] == "Call":
            acc.add(k[1])
        call_rows(n[1], acc)
    return acc


def coq_lines(case) -> str:
    """the source lines (text between newlines, as the code's code.split("\\n") yields them) of the rows that carry a call"""
    lines = case["text"].split("\n")
    return coq.coq_list([f"({r}, {qs(lines[r])})" for r in sorted(call_rows(case["items"])) if r < len(lines)])


def coq_case(case, impl, fn="judge") -> str:
    runs = []
    for cfg, r in zip(case["runs"], impl["runs"]):
        reps = coq.coq_list([f"({qs(rid)}, {l}, {c}, {qs(m)})" for rid, l, c, m in (r if isinstance(r, list) else [])])
        runs.append(f"({coq_config(cfg)}, {reps})")
    return f"{fn} rust_actual {coq_lines(case)} {coq_file(case['items'])} {coq.coq_list(runs)}"


def _run_shard(args):
    import subprocess
    path, th = args
    p = subprocess.run(["timeout", "600", "coqc", "-Q", str(th), "TL", "-w", "-notation-overridden,-abstract-large-number", str(path)],
                       capture_output=True, text=True, cwd=str(path.parent))
    return p.returncode, p.stdout, p.stderr


def eval_shards(workdir: Path, header: str, shards: list[str], th: Path) -> list[list]:
    from concurrent.futures import ThreadPoolExecutor
    workdir.mkdir(parents=True, exist_ok=True)
    jobs = []
    for i, body in enumerate(shards):
        p = workdir / f"cases_{i}.v"
        p.write_text(header + "\n" + body + "\n")
        jobs.append((p, th))
    with ThreadPoolExecutor(max_workers=8) as ex:
        outs = list(ex.map(_run_shard, jobs))
    results = []
    for (rc, so, se), (p, _) in zip(outs, jobs):
        if rc != 0:
            raise RuntimeError(f"coqc failed on {p.name} (rc={rc}): {se[-1500:]}")
        results.append(coq.parse_nat_lists(so))
    return results


def recorded_layer_theories(dst: Path) -> Path | None:
    """When the current generated layer (or the model on top of it) no longer builds, the model can still be run with
    the generated layer recorded for the unchanged tree (coq/Gen.expected/RustSafetyGen.v.txt): this does not discharge
    anything, it only lets the search exhibit a concrete input on which the changed implementation fails."""
    import shutil
    import subprocess
    snap = coq.COQ / "Gen.expected" / "RustSafetyGen.v.txt"
    if not snap.exists():
        return None
    th = dst / "theories"
    for sub in ("Lib", "Model", "Gen", "Actual"):
        (th / sub).mkdir(parents=True, exist_ok=True)
    for f in list((coq.TH / "Lib").glob("*.vo")) + [coq.TH / "Model" / "RustSafetyTypes.vo", coq.TH / "Model" / "RustSafetySpec.vo"]:
        if not f.exists():
            return None
        shutil.copy(f, th / f.parent.name / f.name)
    (th / "Gen" / "RustSafetyGen.v").write_text(snap.read_text())
    order = [("Gen", "RustSafetyGen.v"), ("Model", "RustSafety.v"), ("Model", "RustSafetyRun.v"), ("Actual", "RustSafetyActual.v")]
    for sub, name in order[1:]:
        shutil.copy(coq.TH / sub / name, th / sub / name)
    for sub, name in order:
        p = subprocess.run(["timeout", "300", "coqc", "-Q", str(th), "TL", "-w", "-notation-overridden", str(th / sub / name)],
                           capture_output=True, text=True, cwd=str(dst))
        if p.returncode != 0:
            return None
    return th


def judge(cases, impls, workdir: Path, per_shard=30, fn="judge", th: Path | None = None):
    shards, index = [], []
    for s in range(0, len(cases), per_shard):
        chunk = list(range(s, min(len(cases), s + per_shard)))
        _pool.clear()
        body = "\n".join(f"Eval vm_compute in ({coq_case(cases[j], impls[j], fn)})." for j in chunk)
        shards.append(pool_defs() + body)
        index.append(chunk)
    outs = eval_shards(workdir, HEADER, shards, th or coq.TH)
    verdicts = [None] * len(cases)
    for chunk, out in zip(index, outs):
        if len(out) != len(chunk):
            raise RuntimeError(f"expected {len(chunk)} results, got {len(out)}")
        for j, o in zip(chunk, out):
            verdicts[j] = o
    return verdicts


def features(items, acc=None, ctx=()):
    """what a file exercises (for the input distribution and the non-triviality rule)"""
    acc = set() if acc is None else acc
    for n in items:
        k = n[0]
        t = k[0]
        here = ctx
        if t in ("Fn", "Mod"):
            texts = [p[1] for p in k[1] if p[0] == "A"]
            sems = [attr_sem(a) for a in texts]
            if any((tf and t == "Fn") or ct for tf, ct in sems):
                here = here + ("test",)
                acc.add("ctx:test-item")
            if any(ct and a not in MOD_ATTRS_TEST for a, (tf, ct) in zip(texts, sems)):
                acc.add("ctx:generated-test-only-cfg")
            if any(not ((tf and t == "Fn") or ct) and "test" in a for a, (tf, ct) in zip(texts, sems)):
                acc.add("ctx:lookalike-attr")
            if any(p[0] == "C" for p in k[1]):
                acc.add("ctx:comment-among-attrs")
            if t == "Fn" and k[2]:
                here = here + ("async",)
                acc.add("ctx:async-fn")
            if t == "Mod" and ctx.count("mod") >= 1:
                acc.add("ctx:nested-mod")
            if t == "Mod":
                here = here + ("mod",)
            if t == "Fn" and "fn" in ctx:
                acc.add("ctx:nested-fn")
            if t == "Fn":
                here = here + ("fn",)
        elif t == "Loop":
            here = here + ("loop",)
            acc.add("loop:" + k[1])
        elif t == "Macro":
            here = here + ("macro",)
        elif t == "Closure":
            acc.add("ctx:closure")
        elif t == "Method" and k[4] in WRAPPERS:
            acc.add("ctx:method-form-wrapper")
            here = here + ("mwrapper",)
        elif t == "Method" and k[4] in RISKY_METHODS:
            acc.add("call:" + k[4])
            for c in ("test", "loop", "macro"):
                if c in here:
                    acc.add(f"call:{k[4]}-in-{c}")
            if k[3] != k[1]:
                acc.add("call:multi-line-chain")
            if k[4] == "clone" and n[1] and n[1][0][0][0] == "Method" and n[1][0][0][4] == "clone":
                acc.add("call:clone-chain")
            if k[4] == "clone" and "let" in here:
                acc.add("call:clone-in-let")
        elif t == "Call":
            p = k[3]
            if p and p[-1] in WRAPPERS:
                acc.add("ctx:wrapper-call")
                here = here + ("wrapper",)
            cls = _py_class(p)
            if cls:
                acc.add("call:" + cls)
                for c in ("test", "async", "wrapper", "mwrapper", "macro"):
                    if c in here:
                        acc.add(f"call:{cls}-in-{c}")
        elif t == "Let":
            here = here + ("let",)
        features(n[1], acc, here)
    return acc


def _py_class(p):
    """documented blocking classes (only used for the distribution / non-triviality, never for judging)"""
    if len(p) >= 3 and p[:2] == ["std", "fs"] and p[2] in FS_FUNCTIONS or len(p) >= 2 and p[0] == "fs" and p[1] in FS_FUNCTIONS:
        return "fs"
    if p[:3] == ["std", "thread", "sleep"] or p[:2] == ["thread", "sleep"]:
        return "sleep"
    if len(p) >= 3 and p[:2] == ["std", "net"] and p[2] in NET_TYPES or len(p) >= 2 and (p[0] == "net" and p[1] in NET_TYPES or p[0] in NET_TYPES):
        return "net"
    return None


def _known_from_dir(chk: Check):
    """the framework reads known_findings.json (assembled by tools/mkmanifest.py from known.d/); read this property's
    own known.d file too, so that the check does not depend on when the shared file was last assembled"""
    p = VERIF / "known.d" / f"{PROP}.json"
    if p.exists():
        chk.known = {"known": {}, "fixed": {}}  # known.d is the source known_findings.json is assembled from
        for f in json.loads(p.read_text()).get("findings", []):
            if f.get("property") == PROP and f.get("status") == "known":
                chk.known["known"][f["key"]] = f
            elif f.get("property") == PROP and str(f.get("status", "")).startswith("fixed"):
                chk.known["fixed"][f["key"]] = f


def run(tier: str, seed: int, replay: str | None = None) -> int:
    chk = Check(PROP, tier, seed)
    _known_from_dir(chk)
    chk.rule = ("seeded random Rust files: 1-4 top-level items (functions sync/async, modules nested up to 3 deep, impl blocks) carrying "
                "0-3 attributes: the documented vocabulary (#[test], #[tokio::test], #[cfg(test)]), look-alikes such as #[cfg(not(test))] or "
                "#[cfg_attr(test, ..)], and #[cfg(P)] with generated predicates P (all / any / not over test, unix, feature = \"..\", ... , "
                "varying spacing), comments among attributes; bodies of let / expression statements, for / while / loop, if, match, blocks, closures, nested "
                "functions, macro invocations, with planted .unwrap() / .expect() / .clone() calls (chains, multi-line chains, clones bound by "
                "let with and without later uses) and path calls from the documented std::fs / thread::sleep / std::net vocabulary plus near "
                "misses, inside and outside spawn_blocking-style wrappers; each file is linted under 5 option settings (defaults, strict, two "
                "random assignments of allow_in_tests / allow_expect / detect_*, one detect_* off per linter and in half of the files one linter with enabled: false) through the in-process "
                "Orchestrator (a fraction through the three CLI commands with --config <file> --format json, three settings each); a case is non-trivial when the file has a "
                "risky call inside an exempting or qualifying context (test item, loop, let, async fn, wrapper, macro) and the implementation "
                "reports something under some setting; distinct = distinct abstract file")
    chk.trusted_base.append("node_type / push_m (Model/RustSafety.v) and idents (Model/RustSafetyTypes.v): the shape of tree-sitter-rust's parse tree "
                            "(node types, which nodes are ancestors of which, identifier tokens, start points of call expressions) is a parser "
                            "oracle, validated by this correspondence; the renderer harness/props/c17.py ties abstract files to Rust text")
    chk.trusted_base.append("`used afterwards` is the documented textual rule (an identifier token of that name appears in a later statement of "
                            "the enclosing block, including binders, closure parameters and the identifier tokens of attributes of nested "
                            "items); variable shadowing is not resolved; fn parameters are outside the generated domain")
    chk.trusted_base.append("attribute semantics is computed from the attribute text inside Coq (Model/RustSafetySpec.v: tokeniser, path, cfg "
                            "predicate in Kleene logic); that reading of Rust's attribute grammar is part of the specification; option loading "
                            "(section lookup, enabled, ignore patterns) belongs to C05 and is exercised here only through the key spelling that works")
    chk.build(["theories/Props/C17.v"], ["RustSafetyGen"], known_v=["theories/Props/C17Known.v"])
    scale = chk.budget_scale()
    base_files = 450 if tier == "quick" else 4500
    # mutation trials on an overloaded machine (tools/trymut_wt.sh) may shorten the search: the generated files are a prefix of
    # the regular run's (same seed chain, same indices), so a failing input found here is found by the regular run as well
    import os
    if os.environ.get("VERIF_C17_FILES", "").isdigit():
        base_files = max(30, int(os.environ["VERIF_C17_FILES"]))
        chk.notes.append(f"search shortened to {base_files} generated files per stage by VERIF_C17_FILES (mutation trial)")
    max_depth = 3 if tier == "quick" else 4
    # staged search: the first stage is the regular budget; further stages (same seed chain, fresh indices) run only
    # when an obligation / the correspondence broke and no failing input has been found yet
    start = 0
    for stage in range(scale):
        if replay:
            cases = [json.loads(Path(replay).read_text())["violation"]["case"]]
        else:
            cases = (corpus_cases() if stage == 0 else []) + gen_cases(seed, base_files, max_depth, start=start)
            start += base_files
        impls = pool_map(run_impl, cases, procs=8)
        NC = len(FLAGS) + 2  # candidates: claimed vector, claimed vector minus one flag, ideal

        def evaluate(fn):
            with scratch_dir("tv-c17-coq-") as wd:
                try:
                    return judge(cases, impls, wd / "a", fn=fn)
                except RuntimeError as e:
                    chk.broken.append(f"Model:evaluation of the Rust safety model failed ({str(e)[:300]})")
                th = recorded_layer_theories(wd / "recorded")
                if th is None:
                    return [None] * len(cases)
                chk.notes.append("the current generated layer / model does not build: cases were judged with the generated layer recorded "
                                 "for the unchanged tree (coq/Gen.expected/RustSafetyGen.v.txt) to search for a failing input")
                try:
                    return judge(cases, impls, wd / "b", fn=fn, th=th)
                except RuntimeError as e:
                    chk.broken.append(f"Model:evaluation with the recorded generated layer failed too ({str(e)[:300]})")
                    return [None] * len(cases)

        verdicts = evaluate("judge")
        actual_everywhere = all(bool(bits[3]) for ver in verdicts if ver is not None for bits in ver)
        base, fixed = 0, None
        if not actual_everywhere:
            # the implementation left the claimed vector somewhere: compute every candidate on every run and look for
            # a vector (claimed minus one flag, or ideal) that explains ALL runs
            verdicts = evaluate("judge_full")
            alln = [all(bool(bits[3 + j]) for ver in verdicts if ver is not None for bits in ver) for j in range(NC)]
            alt = [j for j in range(NC) if alln[j]]
            if alt:
                base = alt[0]
                fixed = list(FLAGS) if base == NC - 1 else [FLAGS[base - 1]]
                chk.notes.append("implementation no longer matches the claimed quirk vector but matches it without " + ", ".join(fixed) +
                                 " on all cases (a listed defect is no longer observed; the theorems hold for every vector)")
            else:
                base = None
                chk.correspondence_broken({"level": "observable", "detail": "Model/RustSafety.v under Actual/RustSafetyActual.v disagrees with the "
                                           "implementation and no candidate quirk vector matches all cases"})
        # A listed defect explains a failing run only while the literals it is built on are the recorded ones: when an
        # obligation or a generated-layer item broke, the faithful model of the UNCHANGED tree (recorded generated layer)
        # must reproduce the implementation's output too; otherwise the run shows a new deviation inside a listed class.
        rec_ver = None
        if chk.broken and not replay:
            with scratch_dir("tv-c17-rec-") as wd:
                th = recorded_layer_theories(wd / "recorded")
                if th is not None:
                    try:
                        rec_ver = judge(cases, impls, wd / "r", fn="judge", th=th)
                    except RuntimeError:
                        rec_ver = None
        for ci, (case, impl, ver) in enumerate(zip(cases, impls, verdicts)):
            feats = features(case["items"])
            reported = any(isinstance(r, list) and r for r in impl["runs"])
            nontrivial = reported and any(f.count("-in-") for f in feats)
            chk.count(case["items"], nontrivial)
            chk.dist("via:" + case["via"])
            for f in feats:
                chk.dist(f)
            chk.sample({"text": case["text"][:700], "runs": case["runs"][:2], "impl": impl["runs"][:2]}, 3)
            if impl["failures"]:
                chk.violation({"reason": "a rule failed internally (swallowed exception) during the run", "failures": impl["failures"][:3], "case": case})
                continue
            if impl.get("parse_error"):
                chk.broken.append(f"Harness:renderer produced Rust text with a parse error (case {case['i']})")
                continue
            if ver is None:
                continue
            chk.traces_validated += len(case["runs"])
            for ri, (cfg, r, bits) in enumerate(zip(case["runs"], impl["runs"], ver)):
                if isinstance(r, dict):
                    chk.violation({"reason": "CLI run failed or was inconsistent", "detail": r, "config": cfg, "case": case})
                    continue
                dom, spec_ok, ideal_ok = bool(bits[0]), bool(bits[1]), bool(bits[2])
                if not dom:
                    chk.broken.append(f"Harness:generated file outside the domain file_domain (case {case['i']})")
                    break
                if spec_ok:
                    continue
                cand, alone = [bool(b) for b in bits[3:3 + NC]], [bool(b) for b in bits[3 + NC:]]
                info = {"config": cfg, "impl": r, "case": case,
                        "reason": "reported calls differ from the documented rule (which calls, rule id, line, column or message text)"}
                # a listed defect matters here when removing it alone changes the faithful model's output, or (several
                # defects hiding one another) when it alone makes the corrected model miss the specification
                relevant = [FLAGS[i] for i in range(len(FLAGS)) if (base == 0 and not cand[1 + i]) or not alone[i]]
                live = [f for f in FLAGS if not fixed or f not in fixed]
                relevant = [f for f in relevant if f in live]
                # without a vector that explains every run, a run is still explained when the claimed vector matches on it
                explained = cand[base or 0] and ideal_ok
                if explained and not relevant:
                    relevant = live
                recorded_differs = (rec_ver is not None and rec_ver[ci] is not None and ri < len(rec_ver[ci])
                                    and not bool(rec_ver[ci][ri][3]))
                if explained and relevant and recorded_differs:
                    info["reason"] = ("reported calls differ from the documented rule and from what the listed defects (" + ", ".join(relevant) +
                                      ") did on the unchanged tree: the faithful model with the recorded generated layer does not reproduce this output")
                    chk.violation(info)
                elif explained and relevant:
                    for k in relevant:
                        chk.known_finding(k, {"text": case["text"], "config": cfg, "impl": r})
                else:
                    info["model_actual_matches_impl"] = cand[0]
                    info["model_ideal_matches_spec"] = ideal_ok
                    chk.violation(info)
        if chk.violations or replay:
            break
    chk.broken = list(dict.fromkeys(chk.broken))
    chk.notes = list(dict.fromkeys(chk.notes))
    chk.corr_broken = chk.corr_broken[:1]
    # the replay is the first violation: prefer the smallest failing input
    chk.violations.sort(key=lambda v: len(v.get("case", {}).get("text", "")) if isinstance(v.get("case"), dict) else 0)
    return chk.finish()


def corpus_cases():
    """refutation witnesses and minimised earlier failures; replayed first on every run"""
    out = []
    d = VERIF / "corpus" / PROP
    for p in sorted(d.glob("*.json")):
        c = json.loads(p.read_text())
        text, placed = render(c["items"])
        out.append({"i": "corpus:" + p.stem, "items": placed, "text": text, "runs": c.get("runs") or [{}], "via": c.get("via", "api")})
    return out
