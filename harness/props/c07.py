"""C07 — `--parallel` reports exactly what the sequential run reports.

The model (coq/theories/Model/OrchPar.v) is parametric in the rules; this harness measures the rule
behaviour from the implementation (per-file results of lint_file in a fresh Orchestrator, the
finalize() report after no file / after every file), runs lint_files and lint_files_parallel (the
completion order of the worker futures is controlled by wrapping src.orchestrator.core.as_completed
in the harness process with a seeded permutation) and lets the Coq judge compare.
"""
from __future__ import annotations

import concurrent.futures as cf
import copy
import dataclasses
import enum
import json
import multiprocessing
import os
import subprocess
import sys
from pathlib import Path

from harness import coq
from harness.common import (PY, REPO, VERIF, clean_env, drain_failures, ensure_repo_on_path, install_failure_tap, parse_json_violations, rng_for,
                            run_cli, scratch_dir)
from harness.framework import Check

PROP = "C07"
FLAGS = ["q_par_crossfile_lost", "q_parent_evidence_raw_path", "q_worker_swallows_errors"]
HEADER = ("From TL Require Import Lib.Base Lib.GenTypes Model.OrchParTypes Gen.OrchParGen Model.OrchPar Model.OrchParRun "
          "Actual.OrchParActual.\n")
CORPUS = Path(__file__).resolve().parent.parent.parent / "corpus" / PROP

# ------------------------------------------------------------------ project generator
PY_DUP = [
    ["    total = 0", "    for item in items:", "        if item.value > limit:", "            total += item.value * 3",
     "        else:", "            total -= item.value", "    result = compute_something(total, limit)", "    return result"],
    ["    rows = []", "    for entry in source.entries():", "        cleaned = entry.strip().lower()",
     "        rows.append(cleaned.replace('-', '_'))", "    rows.sort()", "    return rows"],
    ["    handle = open_resource(name)", "    try:", "        payload = handle.read_all()",
     "        checksum = digest(payload, 'sha1')", "    finally:", "        handle.close()", "    return payload, checksum"],
]
TS_DUP = [
    ["  let total = 0;", "  for (const item of items) {", "    if (item.value > limit) {", "      total += item.value * 3;",
     "    } else {", "      total -= item.value;", "    }", "  }", "  const result = computeSomething(total, limit);", "  return result;"],
    ["  const rows = [];", "  for (const entry of source.entries()) {", "    const cleaned = entry.trim().toLowerCase();",
     "    rows.push(cleaned.replace('-', '_'));", "  }", "  rows.sort();", "  return rows;"],
]
STR_SETS = [("alpha", "beta", "gamma"), ("open", "closed"), ("north", "south", "east", "west"), ("debug", "info", "warn")]


def _py_file(r, idx, dup_groups, str_groups):
    out = [f'"""module {idx}"""', ""]
    out += [f"def unique_{idx}(a, b):", f"    return a + b + {r.choice([3, 17, 250, 4242])}", "", ""]
    for g in dup_groups:
        out += [f"def shared_{g}_{idx}(items, limit, source, name):"] + PY_DUP[g % len(PY_DUP)] + ["", ""]
    for s in str_groups:
        vals = ", ".join(f'"{x}"' for x in STR_SETS[s % len(STR_SETS)])
        out += [f"def check_{s}_{idx}(mode):", f"    if mode in ({vals}):", f"        return {r.choice([1, 7, 99])}", "    return 0", "", ""]
    if r.random() < 0.25:
        out += [f"def deep_{idx}(x):", "    if x:", "        for y in x:", "            while y:", "                if y > 2:",
                "                    y -= 1", "    return x", "", ""]
    if r.random() < 0.2:
        out += [f"def shout_{idx}(x):", "    print(x)", "    return x", ""]
    return "\n".join(out) + "\n"


def _ts_file(r, idx, dup_groups, str_groups):
    out = [f"// module {idx}", ""]
    out += [f"export function unique{idx}(a: number, b: number): number {{", f"  return a + b + {r.choice([3, 17, 250, 4242])};", "}", ""]
    for g in dup_groups:
        out += [f"export function shared{g}x{idx}(items: any[], limit: number, source: any) {{"] + TS_DUP[g % len(TS_DUP)] + ["}", ""]
    for s in str_groups:
        vals = ", ".join(f"'{x}'" for x in STR_SETS[s % len(STR_SETS)])
        out += [f"export function check{s}x{idx}(mode: string): number {{", f"  if ([{vals}].includes(mode)) {{", "    return 1;", "  }", "  return 0;", "}", ""]
    if r.random() < 0.3:
        out += [f"export function loud{idx}(x: number) {{", "  console.log(x);", "  return x;", "}", ""]
    return "\n".join(out) + "\n"


def _rs_file(r, idx):
    out = [f"// module {idx}", f"pub fn unique_{idx}(a: i32, b: Option<i32>) -> i32 {{", "    let c = b.unwrap();",
           f"    if a > {r.choice([3, 17, 250])} {{", "        return a + c;", "    }", "    c", "}", ""]
    return "\n".join(out) + "\n"


BAD_CONFIGS = [{"nesting": {"max_nesting_depth": 0}}, {"dry": {"enabled": True, "min_duplicate_lines": 0}},
               {"srp": {"max_methods": 0}}, {"magic_numbers": {"max_small_integer": -5}}]

# one file per language that gives every registered linter something to report (all linters are on by default, DRY by config),
# including findings that agree in EVERY field (same rule, line, column, message): the TS/JS analyzers report column 0
SINK_PY = """\"\"\"kitchen sink {i}\"\"\"
import re
import logging

logger = logging.getLogger(__name__)


class Helper{i}:
    def get_name(self):
        return self._name

    def area(self):
        return 4242 * 4242

    def scale(self, items):
        return [i * 3 for i in items]


class Stateless{i}:
    def one(self, a):
        return a + 1

    def two(self, b):
        return b * 2


def concat_loop_{i}(items):
    result = ""
    for item in items:
        result += str(item); result += str(item)
    return result


def regex_loop_{i}(lines):
    out = []
    for line in lines:
        if re.match(r"^a+", line):
            out.append(line)
    return out


def embedded_filter_{i}(items):
    for item in items:
        if not item.ok:
            continue
        handle(item)


def lbyl_{i}(d, key):
    if key in d:
        return d[key]
    return None


def cqs_mixed_{i}(store, x):
    store.append(x)
    total = compute(store)
    return total


def lazy_{i}(x):
    return x  # noqa


def shout_{i}(x, verbose):
    print(x); print(x)
    if verbose:
        logger.info("v")
    return 17 + 17
"""
SINK_TS = """// kitchen sink {i}
export class Helper{i} {{
  getName() {{ return this.name; }}
  area() {{ return 4242 * 4242; }}
}}
export function loud{i}(a) {{
  console.log(a); console.log(a);
  return foo(977, 977);
}}
"""
SINK_RS = """// kitchen sink {i}
pub async fn fetch_{i}(items: Vec<String>) -> String {{
    let data = std::fs::read_to_string("x").unwrap();
    std::thread::sleep(std::time::Duration::from_secs(1));
    let mut out = String::new();
    for it in items.iter() {{
        let c = it.clone();
        out.push_str(&c);
    }}
    let n: i32 = "5".parse().unwrap(); let m: i32 = "5".parse().unwrap();
    data
}}
"""
# Name clashes across files.  The sequential run hands ONE rule instance all files, every parallel task builds fresh rules: any
# per-instance table an analyzer forgets to reset between files (imported names, module aliases, compiled-pattern names, string
# accumulators ...) makes the two runs differ.  "Introducer" modules put names into such tables; "user" modules use the SAME bare
# names in another role (own functions / objects / numbers), in loops, without the imports.  Both kinds in either order.
CLASH_PY_INTRO = [
    """\"\"\"regex helpers {i}\"\"\"
from re import match, search, sub, findall, split, fullmatch, finditer, subn


def first_{i}(text):
    return match("a+", text) or search("b+", text) or fullmatch("c+", text)
""",
    """\"\"\"patterns {i}\"\"\"
import re
import re as rx
import re as regex

PAT = re.compile("a+")
WORD: object = rx.compile("[a-z]+")
matcher = regex.compile("x")


def scan_{i}(lines):
    hits = []
    for line in lines:
        if PAT.match(line) or WORD.search(line) or matcher.findall(line):
            hits.append(line)
    return hits
""",
    """\"\"\"report {i}\"\"\"
acc = ""
out = f"{{acc}}"
text: str = "t"
total = 0
rows = []
seen = {{}}


def render_{i}(items):
    buf = ""
    for item in items:
        buf += str(item)
    return buf
""",
]
CLASH_PY_USER = [
    """\"\"\"matching {i}\"\"\"


def match(pattern, value):
    return pattern == value


def search(pattern, value):
    return pattern in value


def sub(a, b):
    return a - b


def findall(rows):
    return list(rows)


def split(row):
    return [row]


def pick_{i}(rows, wanted):
    found = []
    for row in rows:
        if match(wanted, row) or search(wanted, row):
            found.append(sub(len(row), 1))
    while rows:
        last = rows.pop()
        found.extend(split(last))
        found.extend(findall(last))
    return found
""",
    """\"\"\"matcher objects {i}\"\"\"


class Matcher{i}:
    def match(self, value):
        return value

    def search(self, value):
        return value

    def findall(self, value):
        return [value]


rx = Matcher{i}()
regex = Matcher{i}()
PAT = Matcher{i}()
WORD = Matcher{i}()
matcher = Matcher{i}()


def run_{i}(values):
    kept = []
    for value in values:
        if rx.match(value) and regex.search(value) and PAT.search(value) and WORD.match(value) and matcher.findall(value):
            kept.append(value)
    return kept
""",
    """\"\"\"inline regex {i}\"\"\"
import re as PAT
import re as WORD
import re as matcher


def grep_{i}(lines):
    kept = []
    for line in lines:
        if PAT.match("a+", line) or WORD.search("b+", line) or matcher.findall("c", line):
            kept.append(line)
    return kept
""",
    """\"\"\"totals {i}\"\"\"


def sum_{i}(items, acc, out, text, buf):
    total = ""
    rows = ""
    seen = ""
    for item in items:
        acc += item
        out += item
        text += item
        buf += item
        total += str(item)
        rows += str(item)
        seen += str(item)
    return acc, out, text, buf, total, rows, seen
""",
    """\"\"\"counters {i}\"\"\"


def count_{i}(items):
    acc = 0
    out = []
    text = 0
    buf = 0
    for item in items:
        acc += 1
        out += [item]
        text += len(item)
        buf += 2
    return acc, out, text, buf
""",
]
CLASH_TS_INTRO = [
    """// report {i}
export function render{i}(items: string[]): string {{
  let acc = "";
  let text = '';
  let buf = `b`;
  for (const item of items) {{
    acc += item;
    text += item;
    buf += item;
  }}
  return acc + text + buf;
}}
""",
]
CLASH_TS_USER = [
    """// totals {i}
export function sum{i}(items: number[], acc: number, text: number, buf: number): number {{
  let total = 0;
  for (const item of items) {{
    acc += item;
    text += item;
    buf += item;
    total += item;
  }}
  return acc + text + buf + total;
}}
""",
    """// counters {i}
export function count{i}(items: number[]): number {{
  let acc = 0;
  let text = 0;
  let total = "";
  while (items.length) {{
    acc += items.pop();
    text += 1;
    total += "x";
  }}
  return acc + text + total.length;
}}
""",
]

# parents of the scratch project: plain, entries of the hard-coded exclusion table, test markers
PARENTS = ["", "", "", "", "build", "dist", "venv", "node_modules", ".venv", "tests", "test", "htmlcov"]
# root configuration files that say something the explicit configuration does not
ROOT_CONFIGS = [{"nesting": {"max_nesting_depth": 1}}, {"magic_numbers": {"allowed_numbers": [4242, 977, 17, 3, 250]}},
                {"dry": {"enabled": True, "min_duplicate_lines": 3, "min_duplicate_tokens": 5}},
                {"print_statements": {"enabled": False}, "nesting": {"max_nesting_depth": 2}}]
# explicit configurations at the boundary: empty, empty-but-commented file, only sections no linter reads
EDGE_CONFIGS = [{}, {}, {"unrelated_section": {"x": 1}}, {"rules": {}, "ignore": []}]


def _toml(cfg: dict) -> str:
    out = []
    for sec, vals in cfg.items():
        out.append(f"[tool.thailint.{sec}]")
        for k, v in vals.items():
            out.append(f"{k} = {json.dumps(v)}")
        out.append("")
    return "\n".join(out) + "\n"


def root_config_file(rc: dict) -> tuple[str, str]:
    if rc["kind"] == "pyproject.toml":
        return "pyproject.toml", _toml(rc["content"])
    return rc["kind"], json.dumps(rc["content"], indent=1) + "\n"     # JSON is YAML


def gen_case(seed: int, i, via: str = "api") -> dict:
    r = rng_for(seed, PROP, i)
    cpu = multiprocessing.cpu_count()
    if via == "cli":
        k = None
    else:
        # every worker count 1..16 (and the default None), small pools more often: they keep the projects small
        k = r.choice([None, None] + list(range(1, 17)) + [1, 2, 2, 3, 3, 4, 4, 5, 6] * 2)
    clash = via == "api" and r.random() < 0.4
    if clash:
        k = r.choice([1, 2, 2, 3, 3, 4])       # small pools: the project gets 4..9 extra modules and must stay above the threshold
    eff = k or min(8, cpu)   # only to place the file count around the threshold; the model computes its own from Gen
    n = max(0, 2 * eff + r.choice([-3, -1, -1, 0, 0, 0, 1, 1, 2, 5]))
    if via == "api" and r.random() < 0.03:
        n = r.choice([0, 1])
    # ---- configuration: explicit (ctor / assigned after construction / --config) and/or a root file that differs
    edge = r.random() < 0.3
    if edge:
        cfg = copy.deepcopy(r.choice(EDGE_CONFIGS))
    else:
        cfg = {}
        if r.random() < 0.7:
            cfg["dry"] = {"enabled": True, "min_duplicate_lines": r.choice([3, 4]), "min_duplicate_tokens": r.choice([5, 10])}
        if r.random() < 0.25:
            cfg["stringly_typed"] = {"enabled": False}
        if r.random() < 0.4:
            cfg["nesting"] = {"max_nesting_depth": r.choice([1, 2, 3])}
    bad = via == "api" and not edge and r.random() < 0.1
    if bad:
        cfg.update(copy.deepcopy(r.choice(BAD_CONFIGS)))
    root_cfg = None
    if edge or r.random() < 0.3:
        root_cfg = {"kind": r.choice([".thailint.yaml", ".thailint.yaml", ".thailint.json", "pyproject.toml"]),
                    "content": copy.deepcopy(r.choice(ROOT_CONFIGS))}
    cmd = r.choice(["dry", "stringly-typed", "magic-numbers", "magic-numbers"]) if via == "cli" else None
    if via == "cli":
        # explicit --config file (inside the project; the project root is detected from the first target) or the root file alone;
        # `dry` reads --config through its own loader, so it is driven by the root file only
        config_via = "file" if (cmd != "dry" and (edge or r.random() < 0.5)) else "root"
        if cmd == "dry" and edge:
            cfg = {"dry": {"enabled": True, "min_duplicate_lines": 3, "min_duplicate_tokens": 5}}
        if config_via == "root":
            root_cfg = {"kind": ".thailint.yaml", "content": cfg}
    else:
        config_via = r.choice(["ctor", "ctor", "assign"]) if (cfg or edge) else r.choice(["ctor", "assign", "root"])
        if config_via == "root" and root_cfg is None:
            root_cfg = {"kind": ".thailint.yaml", "content": copy.deepcopy(r.choice(ROOT_CONFIGS))}
    crossfile = r.random() < 0.8      # some projects have nothing in common between files
    extra = (1 if root_cfg else 0) + (1 if config_via == "file" else 0)     # configuration files the directory also holds
    entry = "dir" if via == "cli" else r.choice(["files", "files", "dir"])
    n_files = n - extra if entry == "dir" else n
    sinks = {"py": 0, "ts": 0, "rs": 0}
    files = []
    force_dup0 = 0      # a shebang script / odd-cased module shares block 0 with the next plain .py module
    for j in range(max(0, n_files)):
        lang = r.choice(["py", "py", "py", "py", "ts", "js", "rs", "other"])
        dups = [g for g in range(3) if crossfile and r.random() < 0.25]
        strs = [s for s in range(4) if crossfile and r.random() < 0.15]
        sub = r.choice(["", "", "pkg/", "pkg/inner/"])
        if lang == "other":
            # mapped extensions without an analyzer, and files of unknown type that hold Python text: no language, no findings
            kind = r.choice(["java", "go", "txt", "md", "noext", "sh"])
            if kind == "java":
                files.append([f"{sub}Mod{j}.java", f"public class Mod{j} {{\n  int f(int a) {{ return a + 4242; }}\n}}\n"])
            elif kind == "go":
                files.append([f"{sub}mod_{j}.go", f"package p\n\nfunc F{j}(a int) int {{\n\treturn a + 4242\n}}\n"])
            else:
                text = _py_file(r, j, dups or ([0] if crossfile else []), strs)
                name = {"txt": f"notes_{j}.txt", "md": f"notes_{j}.md", "noext": f"data_{j}", "sh": f"run_{j}"}[kind]
                files.append([sub + name, ("#!/bin/sh\n" if kind == "sh" else "") + text])
            continue
        fam = "ts" if lang == "js" else lang
        # every way a file gets its language: each mapped extension in lower / upper / mixed case, a python shebang
        ext = {"py": "py", "ts": r.choice(["ts", "ts", "tsx"]), "js": r.choice(["js", "js", "jsx"]), "rs": "rs"}[lang]
        spell = r.random()
        ext = ext if spell < 0.7 else ext.upper() if spell < 0.85 else ext[0].upper() + ext[1:]
        shebang = lang == "py" and r.random() < 0.2
        sink = r.random() < 0.22 and sinks[fam] < 2
        if lang == "py" and crossfile:
            if shebang or spell >= 0.7:
                dups = sorted(set(dups) | {0})
                force_dup0 += 1
            elif force_dup0 and not sink:
                dups = sorted(set(dups) | {0})
                force_dup0 = 0
        stem = ("sink" if sink else "mod" if not shebang else "tool") + f"_{j}"
        name = f"{sub}{stem}" + ("" if shebang else f".{ext}")
        if sink:
            sinks[fam] += 1
            text = {"py": SINK_PY, "ts": SINK_TS, "rs": SINK_RS}[fam].format(i=j)
        elif lang == "py":
            text = _py_file(r, j, dups, strs)
        elif lang in ("ts", "js"):
            text = _ts_file(r, j, dups, strs)
            if lang == "js":
                text = text.replace(": number", "").replace(": any[]", "").replace(": any", "").replace(": string", "")
        else:
            text = _rs_file(r, j)
        if shebang:
            text = r.choice(["#!/usr/bin/env python3\n", "#!/usr/bin/python\n", "#! /usr/bin/env python3.12\n"]) + text
        if files and not shebang and r.random() < 0.15:
            # the same file name in another directory (index.ts, __init__.py ... are common): only the directory tells them apart
            base = r.choice(files)[0].rsplit("/", 1)[-1]
            if "." in base and base.rsplit(".", 1)[-1].lower() == ext.lower():
                alt = r.choice([d_ for d_ in ("", "pkg/", "pkg/inner/", "lib/") if d_ + base not in {f_[0] for f_ in files}] or [None])
                if alt is not None:
                    name = alt + base
        files.append([name, text])
    if clash:
        # name-clash modules at random positions: introducers before AND after their users
        extra = []
        for _ in range(r.choice([1, 2, 2, 3])):
            extra.append(("py", r.choice(CLASH_PY_INTRO)))
        for _ in range(r.choice([2, 3, 4])):
            extra.append(("py", r.choice(CLASH_PY_USER)))
        if r.random() < 0.6:
            extra.append(("ts", r.choice(CLASH_TS_INTRO)))
            for _ in range(r.choice([1, 2])):
                extra.append(("ts", r.choice(CLASH_TS_USER)))
        for lang, tmpl in extra:
            j = len(files) + 100
            sub = r.choice(["", "", "pkg/", "lib/"])
            ext = lang if r.random() < 0.85 else lang.upper()
            files.insert(r.randrange(len(files) + 1), [f"{sub}names_{j}.{ext}", tmpl.format(i=j)])
    # .thailintignore files BELOW the root (a rule that anchors an ignore parser on the directory of the first file it sees reads them)
    nested_ignores = []
    if r.random() < 0.3:
        for d_ in r.sample(["pkg", "pkg/inner", "lib"], r.choice([1, 1, 2])):
            if any(rel.startswith(d_ + "/") for rel, _ in files):
                nested_ignores.append([d_, r.sample(["mod_*", "*.py", "names_*", "sink_*", "tool_*", "*_1*", "*.ts"], r.choice([1, 2]))])
    # symbolic links to files of the project, some inside a directory the root .thailintignore lists
    symlinks = []
    link_dir_ignored = False
    if files and r.random() < 0.25:
        link_dir = r.choice(["ign", "pkg/inner", "links"])
        link_dir_ignored = r.random() < 0.7
        for t_ in r.sample(range(len(files)), min(len(files), r.choice([1, 2, 3]))):
            trel = files[t_][0]
            suffix = ("." + trel.rsplit(".", 1)[-1]) if "." in trel.rsplit("/", 1)[-1] else ""
            symlinks.append([f"{link_dir}/link_{t_}{suffix}", trel])
    # several targets on one command line (any set of files and directories): some top-level files, a sub-directory,
    # sometimes the whole project as well (overlapping targets are linted once per group, in both modes)
    targets = None
    if via == "cli" and r.random() < 0.45:
        top = [rel for rel, _ in files if "/" not in rel]
        targets = r.sample(top, min(len(top), r.choice([1, 2, 3])))
        if any(rel.startswith("pkg/") for rel, _ in files):
            targets.append("pkg/inner" if (r.random() < 0.3 and any(rel.startswith("pkg/inner/") for rel, _ in files)) else "pkg")
        if r.random() < 0.35:
            targets.append(".")
        r.shuffle(targets)
        targets = targets or None
    parent = r.choice(PARENTS)
    # under an exclusion-named parent an absolute spelling makes both runs skip everything: mostly use the relative spellings there
    rel_w = 4 if parent not in ("", "tests", "test") else 1
    spelling = r.choice(["abs", "abs"] + ["rel", "dot"] * rel_w if entry == "dir" else ["abs", "abs"] + ["rel"] * (2 * rel_w - 1))
    case = {"i": i, "via": via, "k": k, "files": files, "config": cfg, "config_via": config_via, "root_config": root_cfg,
            "entry": entry, "recursive": r.random() < 0.7, "parent": parent, "spelling": spelling, "targets": targets,
            "sched_seed": None if (via == "cli" or r.random() < 0.15) else r.randrange(1 << 30), "bad_config": bad,
            # worker-history stream: one real worker process serves a seeded sequence of up to 8 of these files
            "serve_seed": r.randrange(1 << 30) if (via == "api" and len(files) >= 2 and r.random() < 0.3) else None,
            # a .thailintignore at the project root (the ignore parser is a per-process singleton with a per-path cache)
            "ignore_file": ([f"*_{r.randrange(max(1, len(files)))}*"] + (["pkg/inner/"] if r.random() < 0.4 else []))
            if r.random() < 0.25 else None,
            "nested_ignores": nested_ignores, "symlinks": symlinks, "clash": clash}
    if symlinks and link_dir_ignored:
        case["ignore_file"] = (case["ignore_file"] or []) + [symlinks[0][0].rsplit("/", 1)[0] + "/"]
    if via == "cli":
        case["cmd"] = cmd
    return case


# ------------------------------------------------------------------ implementation runner
_ROOT = None   # the scratch project root of the case being measured; written "@" in every string (path normalisation)


def _enc(x):
    if isinstance(x, bool):
        return ["o", f"bool:{x!r}"]
    if isinstance(x, str):
        return ["s", x.replace(_ROOT, "@") if _ROOT else x]
    if isinstance(x, int):
        return ["i", x]
    if x is None:
        return ["n"]
    if isinstance(x, os.PathLike):
        return ["p", os.fspath(x).replace(_ROOT, "@") if _ROOT else os.fspath(x)]
    if isinstance(x, enum.Enum):
        return ["e", type(x).__name__, x.name]
    return ["o", f"{type(x).__name__}:{x!r}"]


def enc_violation(v) -> list:
    if dataclasses.is_dataclass(v):
        return [[f.name, _enc(getattr(v, f.name))] for f in dataclasses.fields(v)]
    return [["<not a dataclass>", ["o", repr(v)[:200]]]]


def enc_json_violation(d: dict) -> list:
    return [[k, _enc(v)] for k, v in d.items()]


def _controlled(perm):
    def fake(fs, timeout=None):
        fs = list(fs)
        cf.wait(fs)
        order = [j for j in perm if j < len(fs)]
        order += [j for j in range(len(fs)) if j not in order]
        for j in order:
            yield fs[j]
    return fake


def _try(fn):
    try:
        return [enc_violation(v) for v in fn()], None
    except Exception as e:  # noqa: BLE001 - the outcome "raises" is part of the measured behaviour
        return None, f"{type(e).__name__}: {str(e)[:160]}"


def _norm(case: dict) -> dict:
    """defaults for the fields older corpus / replay files do not carry"""
    c = dict(case)
    c.setdefault("entry", "dir" if c.get("via") == "cli" else "files")
    c.setdefault("recursive", True)
    c.setdefault("parent", "")
    c.setdefault("spelling", "abs")
    c.setdefault("config_via", "root" if c.get("via") == "cli" else "ctor")
    c.setdefault("root_config", {"kind": ".thailint.yaml", "content": c.get("config", {})} if c.get("via") == "cli" else None)
    c.setdefault("sched_seed", None)
    c.setdefault("sched", None)
    c.setdefault("serve_seed", None)
    c.setdefault("ignore_file", None)
    c.setdefault("targets", None)
    c.setdefault("nested_ignores", [])
    c.setdefault("symlinks", [])
    c.setdefault("clash", False)
    return c


def _logging_worker(orig, log_path: str):
    """_lint_file_worker with a log line per served task (pid, file): which worker process served which file.  It replaces the
    module attribute in the parent BEFORE the pool forks, keeps the name (tasks are pickled by reference), and calls the original."""
    def _lint_file_worker(args):
        try:
            return orig(args)
        finally:
            try:
                with open(log_path, "a", encoding="utf-8") as fh:
                    fh.write(f"{os.getpid()}\t{args[0]}\n")
            except OSError:
                pass
    _lint_file_worker.__module__ = orig.__module__
    _lint_file_worker.__qualname__ = _lint_file_worker.__name__ = "_lint_file_worker"
    return _lint_file_worker


def _rule_tables(fresh, paths, seen) -> dict:
    """What every single registered rule does, measured through the real lint_file: for each file a new Orchestrator (new
    rule instances) whose registry is cut down to ONE of its instances at a time; whether lint_file gets as far as
    _execute_rules; finalize() per instance of a new registry / after a sequential pass over all files / over the files
    the raw-path test lets through.  Nothing of lint_file is transcribed here."""
    from src.core.base import BaseLintRule

    def overrides(rule) -> bool:
        # Python semantics of "the class of the instance overrides finalize": some class before BaseLintRule in the MRO defines it
        for k in type(rule).__mro__:
            if k is BaseLintRule:
                return False
            if "finalize" in vars(k):
                return True
        return False

    def registry_of(o):
        o._ensure_rules_discovered()
        if not isinstance(o.registry._rules, dict) or list(o.registry._rules.values()) != o.registry.list_all():
            raise RuntimeError("RuleRegistry no longer keeps its instances in the dict _rules")
        return o.registry._rules

    out = {"rule_out": [], "vis": []}
    o = fresh()
    first = list(registry_of(o).items())
    out["rule_ids"] = [rid for rid, _ in first]
    out["rules"] = [overrides(r) for _, r in first]
    out["rule_fin_nil"] = [[enc_violation(v) for v in r.finalize()] for _, r in first]
    for p in paths:
        o = fresh()
        insts = list(registry_of(o).items())
        if [rid for rid, _ in insts] != out["rule_ids"]:
            raise RuntimeError("rule discovery order differs between two Orchestrators of one process")
        reached = []
        o._execute_rules = lambda rules, ctx: (reached.append(len(rules)), [])[1]      # instance attribute: this object only
        try:
            o.lint_file(p)
        except Exception:  # noqa: BLE001
            pass
        del o._execute_rules
        out["vis"].append(bool(reached))
        row = []
        for rid, inst in insts:
            o.registry._rules = {rid: inst}
            vs, _err = _try(lambda: o.lint_file(p))
            row.append(vs)
        out["rule_out"].append(row)

    def fin_after(which):
        o = fresh()
        try:
            for p in which:
                o.lint_file(p)
            return [[enc_violation(v) for v in r.finalize()] for r in registry_of(o).values()]
        except Exception:  # noqa: BLE001 - a file raises: the sequential run raises as well, the table is not consulted
            return [[] for _ in first]
    out["rule_fin_full"] = fin_after(paths)
    out["rule_fin_seen"] = out["rule_fin_full"] if all(seen) else fin_after([p for p, ok in zip(paths, seen) if ok])
    return out


def run_impl(case: dict) -> dict:
    """measure the tables and both runs for one case (own process: nested process pools are created here)"""
    import random
    ensure_repo_on_path()
    install_failure_tap()
    import src.orchestrator.core as core
    from src.orchestrator.core import Orchestrator
    try:
        from loguru import logger as _lg      # the CLI helpers used for the tables log DEBUG lines to stderr
        _lg.remove()
    except Exception:  # noqa: BLE001
        pass
    case = _norm(case)
    res: dict = {"cpu": multiprocessing.cpu_count(), "notes": []}
    old_cwd = os.getcwd()
    with scratch_dir("c7") as d:     # short paths: they are repeated in every violation handed to Coq
        try:
            base = d / case["parent"] if case["parent"] else d
            root = base / "p"
            root.mkdir(parents=True)
            global _ROOT
            _ROOT = str(root)
            for rel, text in case["files"]:
                p = root / rel
                p.parent.mkdir(parents=True, exist_ok=True)
                p.write_text(text)
            if case["root_config"]:
                name, text = root_config_file(case["root_config"])
                (root / name).write_text(text)
            if case["ignore_file"]:
                (root / ".thailintignore").write_text("\n".join(case["ignore_file"]) + "\n")
            for d_, pats in case["nested_ignores"]:
                (root / d_).mkdir(parents=True, exist_ok=True)
                (root / d_ / ".thailintignore").write_text("\n".join(pats) + "\n")
            for link, trel in case["symlinks"]:
                lp = root / link
                lp.parent.mkdir(parents=True, exist_ok=True)
                if not lp.exists():
                    os.symlink(os.path.relpath(root / trel, lp.parent), lp)
            cfg_arg = None
            if case["config_via"] == "file":
                text = "# thai-lint configuration: built-in defaults\n" if case["config"] == {} else json.dumps(case["config"], indent=1) + "\n"
                (root / "alt_config.yaml").write_text(text)
            # ---- spelling of the targets
            sp, entry = case["spelling"], case["entry"]
            if entry == "dir":
                cwd, target = {"abs": (d, root), "rel": (base, Path("p")), "dot": (root, Path("."))}[sp]
            else:
                cwd, target = (root, None) if sp == "rel" else (d, None)
            os.chdir(cwd)
            targets = [target]
            if case["via"] == "cli" and case["targets"]:
                targets = [(target if t == "." else target / t) for t in case["targets"]]
            if case["config_via"] == "file":
                cfg_arg = str(root / "alt_config.yaml") if sp == "abs" else str((target or Path(".")) / "alt_config.yaml")
            # ---- how the orchestrator gets its configuration
            if case["via"] == "cli":
                try:
                    from src.cli.utils import setup_base_orchestrator
                    # the command's own --config does not set the project root (only the root group's options do): the CLI hands
                    # setup_base_orchestrator None and the root is detected from the FIRST target (markers above it, else that directory)
                    o0 = setup_base_orchestrator(list(targets), cfg_arg, False, None)
                    proot, cfg = o0.project_root, o0.config
                except BaseException as e:  # noqa: BLE001  (sys.exit included)
                    res["notes"].append(f"setup_base_orchestrator unavailable ({type(e).__name__}); using Orchestrator(project_root=target)")
                    proot, cfg = root, Orchestrator(project_root=root).config
                via = "assign"
            else:
                proot, cfg, via = root, case["config"], case["config_via"]

            def fresh():
                if via == "ctor":
                    return Orchestrator(project_root=proot, config=copy.deepcopy(cfg))
                o = Orchestrator(project_root=proot)
                if via == "assign":
                    o.config = copy.deepcopy(cfg)      # what the CLI's --config handling does
                return o

            def finalize(o):
                if hasattr(o, "_finalize_rules"):
                    return o._finalize_rules()
                return o.lint_files([])

            group_paths = None
            if len(targets) > 1 or (case["via"] == "cli" and case["targets"]):
                # execute_linting_on_paths: the file targets form one group, every directory target another
                fgroup = [t for t in targets if t.is_file()]
                group_paths = ([fgroup] if fgroup else []) + [list(core._collect_files_fast(t, case["recursive"])) for t in targets if t.is_dir()]
                paths, index = [], {}
                for g in group_paths:
                    for p in g:
                        if str(p) not in index:
                            index[str(p)] = len(paths)
                            paths.append(p)
                res["groups"] = [[index[str(p)] for p in g] for g in group_paths]
            elif entry == "dir":
                paths = list(core._collect_files_fast(target, case["recursive"]))
            else:
                rels = [rel for rel, _ in case["files"]]
                for n_, (link, _t) in enumerate(case["symlinks"]):      # the links are given explicitly too, between the files
                    rels.insert(min(len(rels), 1 + 2 * n_), link)
                paths = [(root / rel) if sp == "abs" else Path(rel) for rel in rels]
            res["files"] = [str(p) for p in paths]
            res["perfile"], res["errors"] = [], []
            for p in paths:
                vs, err = _try(lambda p=p: fresh().lint_file(p))
                res["perfile"].append(vs)
                if err:
                    res["errors"].append(err)
            res["rep_nil"], _ = _try(lambda: finalize(fresh()))
            res["rep_nil"] = res["rep_nil"] or []

            def full():
                o = fresh()
                for p in paths:
                    o.lint_file(p)
                return finalize(o)
            res["rep_full"], _ = _try(full)
            res["rep_full"] = res["rep_full"] or []
            # which files an exclusion / ignore test on the path AS GIVEN lets through (what the parent's evidence loop of
            # lint_files_parallel uses when the generated layer says parent_exclusion_like_lint_file = false), and the
            # finalize() report over exactly those files
            probe = fresh()

            def seen(p):
                try:
                    return not (core._is_hardcoded_excluded(p) or probe.ignore_parser.is_ignored(p))
                except Exception:  # noqa: BLE001
                    return True
            res["seen"] = [bool(seen(p)) for p in paths]
            if all(res["seen"]):
                res["rep_seen"] = res["rep_full"]
            else:
                def part():
                    o = fresh()
                    for p, ok in zip(paths, res["seen"]):
                        if ok:
                            o.lint_file(p)
                    return finalize(o)
                res["rep_seen"], _ = _try(part)
                res["rep_seen"] = res["rep_seen"] or []
            res["group_reports"] = []
            if group_paths is not None:
                def report_over(idx):
                    def run_():
                        o = fresh()
                        for j in idx:
                            o.lint_file(paths[j])
                        return finalize(o)
                    vs, _ = _try(run_)
                    return vs or []
                for g in res["groups"]:
                    res["group_reports"].append([g, report_over(g)])
                    gs = [j for j in g if res["seen"][j]]
                    if gs != g and gs:
                        res["group_reports"].append([gs, report_over(gs)])
            # ---- rule-instance level tables (Model/OrchParRules.v): per registered rule class, in registry order
            res["rules"] = None
            if group_paths is None:
                try:
                    res.update(_rule_tables(fresh, paths, res["seen"]))
                except Exception as e:  # noqa: BLE001 - reported as a broken obligation by run()
                    res["rules_error"] = f"{type(e).__name__}: {str(e)[:200]}"
            res["failures"] = drain_failures()
            res["served"] = []
            if case["serve_seed"] is not None and len(paths) >= 2 and hasattr(core, "_lint_file_worker"):
                rs = random.Random(case["serve_seed"])
                order = rs.sample(range(len(paths)), min(8, len(paths)))     # each file at most once, as in the pool
                eff_cfg = fresh().config
                try:
                    json.dumps(eff_cfg)
                except TypeError:
                    order = []
                    res["notes"].append("effective configuration is not JSON-serialisable: worker-history stream skipped")
                for tasks in ([order, order[-1:]] if order else []):     # a pooled worker; a brand-new process serving one file
                    spec = d / "serve.json"
                    spec.write_text(json.dumps({"root": str(root), "proot": str(proot), "cfg": eff_cfg, "paths": [str(paths[t]) for t in tasks]}))
                    env = clean_env(d)
                    env["PYTHONPATH"] = f"{REPO}:{VERIF}"
                    pr = subprocess.run([PY, "-m", "harness.props.c07", "--serve", str(spec)], cwd=str(cwd), env=env, capture_output=True, timeout=300)
                    try:
                        outs_ = json.loads(pr.stdout.decode("utf-8", "replace").strip().splitlines()[-1])
                        res["served"] += [[t, o] for t, o in zip(tasks, outs_)]
                    except (ValueError, IndexError):
                        res["notes"].append("worker-history subprocess failed: " + pr.stderr.decode("utf-8", "replace")[-200:])
            if case["via"] == "cli":
                outs = []
                opts = (["--config", cfg_arg] if cfg_arg else []) + ([] if case["recursive"] else ["--no-recursive"])
                for extra in ([], ["--parallel"]):
                    rc, so, se = run_cli([case["cmd"], *opts, *extra, "--format", "json", *[str(t) for t in targets]], cwd=cwd, home=d)
                    vs = parse_json_violations(so)
                    outs.append({"rc": rc, "vs": None if vs is None else [enc_json_violation(v) for v in vs], "stderr": se[-300:] if vs is None else ""})
                res["seq"], res["seq_exit"] = outs[0]["vs"], outs[0]["rc"]
                res["par"], res["par_exit"] = outs[1]["vs"], outs[1]["rc"]
                res["cli_stderr"] = [o["stderr"] for o in outs]
                res["sched"], res["ordered"] = list(range(len(paths))), False
                return res
            if entry == "dir":
                res["seq"], res["seq_err"] = _try(lambda: fresh().lint_directory(target, recursive=case["recursive"]))
            else:
                res["seq"], res["seq_err"] = _try(lambda: fresh().lint_files(paths))
            res["failures"] += drain_failures()
            sched = case["sched"]
            if sched is None and case["sched_seed"] is not None:
                sched = list(range(len(paths)))
                random.Random(case["sched_seed"]).shuffle(sched)
            orig = getattr(core, "as_completed", None)
            ordered = sched is not None and orig is not None
            if sched is not None and orig is None:
                res["notes"].append("src.orchestrator.core has no as_completed to wrap: completion order not controlled")
            assign_log = d / "assign.log"
            orig_worker = getattr(core, "_lint_file_worker", None)
            try:
                if orig_worker is not None:
                    core._lint_file_worker = _logging_worker(orig_worker, str(assign_log))
                if ordered:
                    core.as_completed = _controlled(sched)
                if entry == "dir":
                    res["par"], res["par_err"] = _try(lambda: fresh().lint_directory_parallel(target, recursive=case["recursive"], max_workers=case["k"]))
                else:
                    res["par"], res["par_err"] = _try(lambda: fresh().lint_files_parallel(paths, max_workers=case["k"]))
            finally:
                if orig is not None:
                    core.as_completed = orig
                if orig_worker is not None:
                    core._lint_file_worker = orig_worker
            res["tasks_per_worker"] = None
            if assign_log.exists():
                pids = [ln.split("\t", 1)[0] for ln in assign_log.read_text(encoding="utf-8").splitlines() if "\t" in ln]
                res["tasks_per_worker"] = sorted((pids.count(x) for x in set(pids)), reverse=True)
            drain_failures()   # parent-side log lines of the parallel run are not rule failures of this process
            res["seq_exit"] = res["par_exit"] = 0
            res["sched"] = sched if ordered else list(range(len(paths)))
            res["ordered"] = ordered
        finally:
            os.chdir(old_cwd)
    return res


def run_all(cases, procs: int):
    if len(cases) <= 1 or procs <= 1:
        return [run_impl(c) for c in cases]
    ctx = multiprocessing.get_context("fork")
    with cf.ProcessPoolExecutor(max_workers=procs, mp_context=ctx) as ex:   # non-daemonic workers: they may start pools
        return list(ex.map(run_impl, cases))


# ------------------------------------------------------------------ Coq rendering
def _coq_val(e) -> str:
    t = e[0]
    if t == "s":
        return f"VStr {coq.coq_string(e[1])}"
    if t == "p":
        return f"VPath {coq.coq_string(e[1])}"
    if t == "i":
        return f"VInt {coq.coq_bool(e[1] < 0)} {abs(e[1])}"
    if t == "n":
        return "VNone"
    if t == "e":
        return f"VEnum {coq.coq_string(e[1])} {coq.coq_string(e[2])}"
    return f"VOther {coq.coq_string(e[1])}"


def _coq_violation(v) -> str:
    return coq.coq_list([f"({coq.coq_string(k)}, {_coq_val(e)})" for k, e in v])


class _Intern:
    def __init__(self):
        self.idx: dict[str, int] = {}
        self.items: list = []

    def ids(self, vs) -> list[int]:
        out = []
        for v in vs:
            key = json.dumps(v)
            if key not in self.idx:
                self.idx[key] = len(self.items)
                self.items.append(v)
            out.append(self.idx[key])
        return out


def _nats(l) -> str:
    return coq.coq_list([str(x) for x in l])


def coq_case(case: dict, impl: dict) -> str:
    it = _Intern()
    perfile = coq.coq_list(["None" if vs is None else f"Some {_nats(it.ids(vs))}" for vs in impl["perfile"]])
    rep_nil, rep_full = _nats(it.ids(impl["rep_nil"])), _nats(it.ids(impl["rep_full"]))
    rep_seen = _nats(it.ids(impl["rep_seen"]))
    seen = coq.coq_list([coq.coq_bool(b) for b in impl["seen"]])
    seq = "None" if impl["seq"] is None else f"Some {_nats(it.ids(impl['seq']))}"
    par = "None" if impl["par"] is None else f"Some {_nats(it.ids(impl['par']))}"
    groups = coq.coq_list([_nats(g) for g in impl.get("groups", [])])
    greps = coq.coq_list([f"({_nats(k)}, {_nats(it.ids(v))})" for k, v in impl.get("group_reports", [])])
    served = coq.coq_list([f"({t}, " + ("None" if o is None else f"Some {_nats(it.ids(o))}") + ")" for t, o in impl.get("served", [])])
    measured = impl.get("rules") is not None
    if measured:
        rules = coq.coq_list([coq.coq_bool(b) for b in impl["rules"]])
        rule_out = coq.coq_list([coq.coq_list(["None" if vs is None else f"Some {_nats(it.ids(vs))}" for vs in row]) for row in impl["rule_out"]])
        vis = coq.coq_list([coq.coq_bool(b) for b in impl["vis"]])
        fins = [coq.coq_list([_nats(it.ids(vs)) for vs in impl[k]]) for k in ("rule_fin_nil", "rule_fin_full", "rule_fin_seen")]
    else:
        rules, rule_out, vis, fins = "[]", "[]", "[]", ["[]", "[]", "[]"]
    rl = (f"c_rules_measured := {coq.coq_bool(measured)}; c_rules := {rules}; c_rule_out := {rule_out}; c_vis := {vis}; "
          f"c_rule_fin_nil := {fins[0]}; c_rule_fin_full := {fins[1]}; c_rule_fin_seen := {fins[2]}; ")
    vtab = coq.coq_list([_coq_violation(v) for v in it.items])
    cmd = coq.coq_option(case.get("cmd"), coq.coq_string)
    return ("judge orchpar_actual {| c_vtab := " + vtab + ";\n c_perfile := " + perfile + "; c_rep_nil := " + rep_nil +
            "; c_rep_full := " + rep_full + "; c_seen := " + seen + "; c_rep_seen := " + rep_seen + "; c_groups := " + groups + "; c_group_reports := " + greps + f"; c_mw := {coq.coq_option(case['k'])}; c_cpu := {impl['cpu']}; c_sched := {_nats(impl['sched'])}; "
            f"c_ordered := {coq.coq_bool(impl['ordered'])}; c_cmd := {cmd}; c_served := {served}; " + rl + f"c_seq := {seq}; c_par := {par}; "
            f"c_seq_exit := {impl['seq_exit']}; c_par_exit := {impl['par_exit']} |}}")


def _eval_shards(workdir: Path, shards: list[str], threads: int = int(os.environ.get("VERIF_C07_COQ_THREADS", "8"))):
    """like coq.eval_shards, but a shard that fails or times out is retried alone and, if it fails again, only its
    own cases stay unjudged (returned as None) instead of the whole run"""
    from concurrent.futures import ThreadPoolExecutor
    workdir.mkdir(parents=True, exist_ok=True)
    paths = []
    for j, body in enumerate(shards):
        p = workdir / f"cases_{j}.v"
        p.write_text(HEADER + "\n" + body + "\n")
        paths.append(p)
    with ThreadPoolExecutor(max_workers=threads) as ex:
        outs = list(ex.map(coq._run_shard, [(p, 900) for p in paths]))
    results, errors = [], []
    for p, (rc, so, se) in zip(paths, outs):
        if rc != 0:
            rc, so, se = coq._run_shard((p, 1500))
        if rc != 0:
            errors.append(f"{p.name} rc={rc}: {se[-300:]}")
            results.append(None)
            continue
        try:
            results.append(coq.parse_nat_lists(so))
        except RuntimeError as e:
            errors.append(f"{p.name}: {e}")
            results.append(None)
    return results, errors


JUDGE_FILES = ["Lib/Base.v", "Lib/GenTypes.v", "Model/OrchParTypes.v", "Gen/OrchParGen.v", "Model/OrchPar.v", "Model/OrchParRules.v",
               "Model/OrchParRun.v", "Actual/OrchParActual.v"]


def snapshot_judge_dir(wd: Path):
    """When a translator item failed closed the models of the tree under test cannot be built and no case gets a Coq verdict.
    Fallback (as in C04 / C19): a scratch copy of the judge's cone (models only, no proofs) with Gen taken from coq/Gen.expected,
    the generated layer of the UNCHANGED tree.  Verdicts obtained this way say how the implementation under test differs from the
    behaviour the theorems were proved about - they name concrete inputs; the broken obligations stay broken."""
    import shutil
    th = wd / "snap" / "theories"
    for rel in JUDGE_FILES:
        dst = th / rel
        dst.parent.mkdir(parents=True, exist_ok=True)
        src = (coq.COQ / "Gen.expected" / (Path(rel).name + ".txt")) if rel.startswith("Gen/") else (coq.COQ / "theories" / rel)
        if not src.exists():
            return None
        shutil.copy(src, dst)
    for rel in JUDGE_FILES:
        pr = subprocess.run(["timeout", "600", "coqc", "-Q", str(th), "TL", "-w", "-notation-overridden", str(th / rel)],
                            capture_output=True, text=True, cwd=str(th.parent))
        if pr.returncode != 0:
            return None
    return th


def judge(cases, impls, workdir: Path, per_shard=3):
    shards, index = [], []
    for s in range(0, len(cases), per_shard):
        chunk = list(range(s, min(len(cases), s + per_shard)))
        shards.append("\n".join(f"Eval vm_compute in ({coq_case(cases[j], impls[j])})." for j in chunk))
        index.append(chunk)
    outs, errors = _eval_shards(workdir, shards)
    verdicts = [None] * len(cases)
    for chunk, out in zip(index, outs):
        if out is None:
            continue
        if len(out) != len(chunk):
            errors.append(f"expected {len(chunk)} results, got {len(out)}")
            continue
        for j, o in zip(chunk, out):
            verdicts[j] = o
    return verdicts, errors


def py_actual_explains(case: dict, impl: dict) -> bool:
    """Harness-side mirror of the faithful model, used ONLY when the Coq judge is unavailable for a case (the model no
    longer compiles because a generated item failed closed, or coqc timed out): does the parallel output equal what the
    two listed defects predict?  It never turns a failure into a pass: the run already ends with a VIOLATION; this only
    decides whether the case is offered as the concrete failing input."""
    if case["via"] != "api":
        return True          # CLI cases are only judged by the Coq model
    if impl["par"] is None:
        return impl["seq"] is None
    n = len(impl["perfile"])
    eff = case["k"] or min(8, impl["cpu"])
    raises = any(v is None for v in impl["perfile"])
    if n == 0:
        want = []
    elif raises:
        return False         # the repaired source raises in both modes: impl["par"] would be None
    elif n < 2 * eff:
        want = [v for vs in impl["perfile"] for v in vs] + impl["rep_full"]
    else:
        want = [v for j in impl["sched"] for v in impl["perfile"][j]] + impl["rep_seen"]
    key = (lambda l: l) if impl["ordered"] else (lambda l: sorted(json.dumps(v) for v in l))
    return key(impl["par"]) == key(want)


def py_spec(impl: dict) -> bool:
    """the property stated directly on the observed outputs (cross-check of the Coq judge's spec bit)"""
    a, b = impl["seq"], impl["par"]
    if (a is None) != (b is None) or impl["seq_exit"] != impl["par_exit"]:
        return False
    if a is None:
        return True
    return sorted(json.dumps(v) for v in a) == sorted(json.dumps(v) for v in b)


# ------------------------------------------------------------------ the check
def corpus_cases():
    out = []
    for p in sorted(CORPUS.glob("*.json")):
        c = json.loads(p.read_text())
        c.setdefault("i", "corpus:" + p.stem)
        c.setdefault("via", "api")
        c.setdefault("bad_config", False)
        out.append(c)
    return out


def _summary(case, impl):
    nc = _norm(case)
    return {"via": case["via"], "cmd": case.get("cmd"), "max_workers": case["k"], "n_files": len(impl["files"]), "config": case["config"],
            "config_via": nc["config_via"], "root_config": nc["root_config"], "entry": nc["entry"], "recursive": nc["recursive"],
            "spelling": nc["spelling"], "parent_dir": nc["parent"], "targets": nc["targets"], "group_sizes": [len(g) for g in impl.get("groups", [])],
            "completion_order": impl["sched"] if impl["ordered"] else "uncontrolled",
            "sequential": "raises" if impl["seq"] is None else f"{len(impl['seq'])} violations",
            "parallel": "raises" if impl["par"] is None else f"{len(impl['par'])} violations",
            "exit": [impl["seq_exit"], impl["par_exit"]], "errors": impl.get("errors", [])[:2],
            "tasks_per_worker_process": impl.get("tasks_per_worker")}


def run(tier: str, seed: int, replay: str | None = None) -> int:
    chk = Check(PROP, tier, seed)
    chk.rule = ("seeded multi-language projects (every mapped extension .py/.ts/.tsx/.js/.jsx/.rs/.java/.go in lower, upper and mixed case, extensionless scripts with a python shebang, files of unknown type holding Python text; sub-directories; ordinary modules sharing function bodies (DRY) and string "
                "sets (stringly-typed) or nothing, plus 'kitchen sink' files that give every registered linter a finding, including findings "
                "equal in every field; in 40% of the API cases 'name clash' modules at random positions: introducers that put names into per-file tables "
                "of the analyzers (from re import ..., import re as alias, compiled patterns, string accumulators) and users of the SAME bare "
                "names in another role, with small pools so that workers run - the sequential run shares one rule instance over all files, "
                "every task builds fresh rules; .thailintignore files in sub-directories; symbolic links to project files, some inside an "
                "ignored directory, given explicitly or found by the walk) under generated configurations: explicit (constructor / assigned like --config / --config file) "
                "incl. the boundary values {} / comment-only file / unrelated sections, next to a differing root .thailint.yaml / "
                ".thailint.json / pyproject.toml; ~10% invalid values that raise ValueError; max_workers 1..16 or None; file counts "
                "2*workers-3 .. 2*workers+5; entry points lint_files[_parallel] and lint_directory[_parallel] (recursive or not); targets spelled "
                "absolute / relative / '.', the project placed under parents named like hard-coded exclusions and test markers; completion order "
                "of the futures forced to a seeded permutation (15% uncontrolled); a few through the CLI (dry / stringly-typed / magic-numbers, "
                "--parallel vs plain, --config, --no-recursive, JSON + exit code); results compared as multisets with multiplicity; for every single-call case the "
                "rule-instance level tables are measured too (each registered rule alone on each file, finalize per instance) and both runs are "
                "compared with Model/OrchParRules.v in order; a case is "
                "non-trivial when the file count reaches the threshold (worker processes really run); distinct = distinct case description")
    chk.trusted_base += [
        "rule behaviour is an input of the model, at two levels: (table level) per-file results of a fresh Orchestrator and the finalize() report; "
        "(rule-instance level, Model/OrchParRules.v) per registered rule what it alone reports for each file through lint_file, whether lint_file "
        "reaches the rules, finalize() per instance - all measured from the implementation.  lint_file / _execute_rules / the finalize loops / the "
        "parent's evidence loop are modelled and tied by templates + the rule-level stream; that a rule's report does not depend on what its "
        "instance saw before (hypothesis report_local; for DRYRule / StringlyTypedRule it follows from the generated census: check() returns [] "
        "on every path) and that a pooled worker gives each task the result of a fresh process (hypothesis state_irrelevant) are validated by the "
        "rule-level and worker-history streams, not proved",
        "ProcessPoolExecutor / pickling / as_completed are oracles: the model sees the completion order as a permutation; the harness forces it by "
        "replacing src.orchestrator.core.as_completed in the parent process (no source change); worker scheduling itself is not controlled",
        "Violation.to_dict/from_dict are modelled from the generated key/field tables; dict/dataclass semantics of CPython are assumed",
    ]
    import time
    t0 = time.time()
    chk.build(["theories/Props/C07.v"], ["OrchParGen"], known_v=["theories/Props/C07Known.v"])
    scale = chk.budget_scale()
    phases = {"build_s": round(time.time() - t0, 1)}
    n_api = (44 if tier == "quick" else 460) * scale
    n_cli = (6 if tier == "quick" else 50) * scale
    if replay:
        cases = [json.loads(Path(replay).read_text())["violation"]["case"]]
    else:
        cases = corpus_cases() + [gen_case(seed, i) for i in range(n_api)] + [gen_case(seed, f"cli{i}", "cli") for i in range(n_cli)]
    t0 = time.time()
    impls = run_all(cases, procs=int(os.environ.get("VERIF_C07_PROCS", "5")))
    phases["implementation_s"] = round(time.time() - t0, 1)
    t0 = time.time()
    with scratch_dir("tv-c07-coq-") as wd:
        verdicts, errors = judge(cases, impls, wd)
        if errors:
            chk.broken.append(f"Model:evaluation of the orchestrator model failed on {len(errors)} shard(s) ({errors[0][:400]})")
        if errors and all(v is None for v in verdicts):
            th = snapshot_judge_dir(wd)
            if th is not None:
                old_th = coq.TH
                coq.TH = th
                try:
                    verdicts, errors2 = judge(cases, impls, wd / "snapshot-judging")
                    chk.notes.append("the models could not be built against the generated layer of this tree; the cases were judged against the models "
                                     "built from coq/Gen.expected (the generated layer of the unchanged tree) to name concrete inputs"
                                     + (f"; {len(errors2)} shard(s) failed there too" if errors2 else ""))
                finally:
                    coq.TH = old_th
    phases["coq_judge_s"] = round(time.time() - t0, 1)
    chk.extra_cov["phase_seconds"] = phases
    names = ["actual"] + [f"actual without {f}" for f in FLAGS] + ["ideal"]
    cands_all = None
    for case, impl, ver in zip(cases, impls, verdicts):
        n = len(impl["files"])
        eff = case["k"] or min(8, impl["cpu"])
        above = any(len(g) >= 2 * eff for g in impl["groups"]) if impl.get("groups") else n >= 2 * eff
        chk.count([case["files"], case["config"], case["k"], case.get("sched"), case.get("sched_seed"), case["via"], case.get("cmd"),
                   case.get("entry"), case.get("spelling"), case.get("parent"), case.get("config_via"), case.get("root_config"), case.get("recursive")], above and n > 0)
        nc = _norm(case)
        chk.dist("entry:" + nc["entry"] + ("" if nc["recursive"] else ":non-recursive"))
        chk.dist("spelling:" + nc["spelling"])
        chk.dist("parent_dir:" + (nc["parent"] or "(plain)"))
        chk.dist("config_via:" + nc["config_via"] + (":empty" if not case["config"] else ""))
        chk.dist("root_config:" + (nc["root_config"]["kind"] if nc["root_config"] else "none"))
        chk.dist("exact_duplicate_findings:" + ("yes" if any(len(vs) != len({json.dumps(v) for v in vs}) for vs in impl["perfile"] if vs) else "no"))
        chk.dist("via:" + case["via"] + (":" + case["cmd"] if case.get("cmd") else ""))
        chk.dist(f"max_workers:{case['k']}")
        chk.dist("files_vs_threshold:" + ("at" if n == 2 * eff else "above" if above else "below"))
        chk.dist("order:" + ("controlled" if impl["ordered"] else "uncontrolled"))
        tpw = impl.get("tasks_per_worker")
        if tpw:
            # observed, not controlled: how the pool distributed the tasks over its worker processes
            chk.dist(f"pool_worker_processes_used:{len(tpw)}")
            chk.dist("most_tasks_served_by_one_worker:" + (str(tpw[0]) if tpw[0] < 6 else "6+"))
            if len(tpw) > eff:
                chk.notes.append(f"case {case['i']}: {len(tpw)} worker processes served tasks, more than the {eff} the pool was given")
        chk.dist("targets:" + (f"{len(impl['groups'])} groups" if impl.get("groups") else "one"))
        chk.dist("crossfile_report:" + ("nonempty" if impl["rep_full"] else "empty"))
        chk.dist("name_clash_modules:" + ("yes" if nc["clash"] else "no"))
        chk.dist("nested_thailintignore:" + ("yes" if nc["nested_ignores"] else "no"))
        chk.dist("symlinked_files:" + ("in ignored directory" if nc["symlinks"] and any((nc["ignore_file"] or []) and nc["symlinks"][0][0].startswith(p_.rstrip("/")) for p_ in (nc["ignore_file"] or [])) else "yes" if nc["symlinks"] else "no"))
        if any(not Path(rel).suffix and text.startswith("#!") and "python" in text.split("\n")[0] for rel, text in case["files"]):
            chk.dist("has_python_shebang_script:" + ("in_crossfile_report" if any(
                not Path(v[1][1][1]).suffix for v in impl["rep_full"] if len(v) > 1 and v[1][1][0] in ("s", "p")) else "yes"))
        chk.dist("parent_loop_visits:" + ("all" if all(impl["seen"]) else "none" if not any(impl["seen"]) else "some"))
        chk.dist("config:" + ("invalid" if impl.get("errors") else "valid"))
        for rel in impl["files"]:
            chk.dist("ext:" + (Path(rel).suffix or ("(none)" if not Path(rel).name.startswith(".") else Path(rel).name)))
        chk.sample(_summary(case, impl), 4)
        for note in impl["notes"]:
            if note not in chk.notes:
                chk.notes.append(note)
        if impl.get("rules_error"):
            msg = "Harness:the rule-instance level tables could not be measured (" + impl["rules_error"] + ")"
            if msg not in chk.broken:
                chk.broken.append(msg)
        if impl["failures"]:
            chk.violation({"reason": "a rule failed internally (swallowed exception) during the run", "failures": impl["failures"][:3], "case": case})
            continue
        if ver is None:
            # no Coq judgement for this case (reported above as a broken obligation): still look for a failing input
            if not py_spec(impl) and not py_actual_explains(case, impl):
                chk.violation({"reason": "--parallel / lint_files_parallel result differs from the sequential result and is not what the "
                                         "listed defects predict (harness-side comparison: the Coq judge was unavailable for this case)",
                               "case": case, "observed": _summary(case, impl)})
            continue
        chk.traces_validated += 2
        dom, seq_ok, spec_ok, ideal_ok = (bool(b) for b in ver[:4])
        if dom and spec_ok != py_spec(impl):
            chk.broken.append("Oracle:the Coq judge and the direct comparison of the outputs disagree on whether parallel = sequential "
                              f"(case {case['i']})")
        nc_ = 2 + len(FLAGS)
        cand = [bool(b) for b in ver[4:4 + nc_]]
        err_explained = bool(ver[4 + nc_]) if len(ver) > 4 + nc_ else False
        served_ok = bool(ver[5 + nc_]) if len(ver) > 5 + nc_ else True
        rules_seq_ok = bool(ver[6 + nc_]) if len(ver) > 6 + nc_ else True
        rules_par_ok = bool(ver[7 + nc_]) if len(ver) > 7 + nc_ else True
        info = {"case": case, "observed": _summary(case, impl), "candidates_matching_impl": [nm for nm, ok in zip(names, cand) if ok]}
        if not dom:
            chk.violation({"reason": "a measured violation is not a well-formed Violation record (field list differs from src/core/types.py) "
                                     "or the recorded completion order is not a permutation of the tasks", **info})
            continue
        if impl.get("served"):
            chk.traces_validated += len(impl["served"])
            chk.dist("worker_history_tasks", len(impl["served"]))
        if not served_ok:
            chk.violation({"reason": "a worker process that had served other files returned for a file something else than the model's worker "
                                     "computes from the fresh-Orchestrator result (lint_file depends on process state, or to_dict differs from the "
                                     "generated table): worker assignment would matter", "served": impl["served"][:4], **{k: v for k, v in info.items()}})
            continue
        if not seq_ok:
            chk.correspondence_broken({"level": "observable", "detail": "lint_files differs from concat(per-file results in fresh processes) ++ finalize report", **info})
        if impl.get("rules") is not None:
            chk.traces_validated += 2
            chk.dist("rule_level_tables:measured")
            chk.dist("registered_rules", len(impl["rules"]))
            chk.dist("rules_overriding_finalize", sum(1 for b in impl["rules"] if b))
            chk.dist("lint_file_reaches_rules:" + ("all files" if all(impl["vis"]) else "no file" if not any(impl["vis"]) else "some files"))
        else:
            chk.dist("rule_level_tables:" + ("several groups" if impl.get("groups") else "unavailable"))
        if not rules_seq_ok:
            chk.correspondence_broken({"level": "rule instances", "detail": "lint_files differs from Model/OrchParRules.v rseq_run on the per-rule tables (every "
                                       "registered rule alone on every file through lint_file, finalize() per instance): the rules of one file do not report "
                                       "in registry order one after the other, a rule's report depends on what its instance saw before, a rule that does not "
                                       "override finalize reports from it, or the finalize loop is not the registry in order",
                                       "rule_ids": impl.get("rule_ids"), **info})
        if not rules_par_ok:
            chk.correspondence_broken({"level": "rule instances", "detail": "lint_files_parallel differs from Model/OrchParRules.v rpar_run on the per-rule tables "
                                       "(fresh instances per task, the parent feeds the instances picked by Gen parent_rule_selection, then finalizes all)",
                                       "rule_ids": impl.get("rule_ids"), **info})
        if err_explained and not cand[0] and ideal_ok and not spec_ok:
            # sequential raises, parallel returns: theorem C07_errors_swallowed.  What the parallel run returns in this class
            # has no sequential counterpart; when a file raises, the finalize() table cannot be measured, so a tree in which
            # only the cross-file defect is repaired is not matched output-for-output here.
            chk.known_finding("q_worker_swallows_errors", {k: v for k, v in info.items() if k != "reason"})
            continue
        cands_all = cand if cands_all is None else [a and b for a, b in zip(cands_all, cand)]
        if spec_ok:
            continue
        info["reason"] = "--parallel / lint_files_parallel result differs from the sequential result (multiset of violations, every field, or exit code)"
        if not seq_ok or not rules_seq_ok:
            # not a matter of the listed flags: the sequential side itself is not what fresh instances report
            info["reason"] = ("--parallel / lint_files_parallel result differs from the sequential result, and the SEQUENTIAL result is not the union of "
                              "the single-file results of fresh rule instances (+ finalize): in the sequential run one rule instance serves all files and "
                              "carries state from one file to the next; the fresh instances every parallel task builds do not")
            info["model_actual_matches_impl"] = cand[0]
            info["model_ideal_matches_spec"] = ideal_ok
            chk.violation(info)
            continue
        relevant = [FLAGS[j] for j in range(len(FLAGS)) if not cand[1 + j]]
        if cand[0] and ideal_ok and not relevant:
            relevant = list(FLAGS)
        if cand[0] and ideal_ok and relevant:
            for k in relevant:
                # (without "reason": for an entry recorded as fixed the framework supplies "recorded as fixed but observed again")
                chk.known_finding(k, {kk: v for kk, v in info.items() if kk != "reason"})
        else:
            info["model_actual_matches_impl"] = cand[0]
            info["model_ideal_matches_spec"] = ideal_ok
            chk.violation(info)
    if cands_all is not None and not cands_all[0]:
        alt = [j for j, ok in enumerate(cands_all) if ok]
        if alt:
            chk.notes.append("implementation no longer matches the claimed quirk vector but matches: " + names[alt[0]] +
                             " (a listed defect is no longer observed; theorems hold for every vector)")
        else:
            chk.correspondence_broken({"level": "observable", "detail": "Model/OrchPar.v under Actual/OrchParActual.v disagrees with the implementation "
                                                                           "and no candidate quirk vector matches all cases"})
    return chk.finish()


def _serve_main(spec_path: str) -> int:
    """worker-history stream, run in a process of its own: serve the tasks one after the other with the real _lint_file_worker"""
    global _ROOT
    spec = json.loads(Path(spec_path).read_text())
    ensure_repo_on_path()
    try:
        from loguru import logger as _lg
        _lg.remove()
    except Exception:  # noqa: BLE001
        pass
    import logging
    logging.disable(logging.CRITICAL)
    import src.orchestrator.core as core
    _ROOT = spec["root"]
    out = []
    for p in spec["paths"]:
        try:
            ds = core._lint_file_worker((Path(p), Path(spec["proot"]), copy.deepcopy(spec["cfg"])))
            out.append([[[k, _enc(v)] for k, v in d.items()] for d in ds])
        except Exception:  # noqa: BLE001 - "the task raises" is an outcome
            out.append(None)
    print(json.dumps(out))
    return 0


if __name__ == "__main__":
    if len(sys.argv) == 3 and sys.argv[1] == "--serve":
        sys.exit(_serve_main(sys.argv[2]))
