"""C11: the OUTPUT STAGE (format_violations + exit status) is outside the per-rule safety net (_safe_check_rule): an exception
there ends the command with `Error during linting` / exit 2 and loses the results of every healthy file of the run.

This module holds (a) the well-formedness oracle for the three documents (`--format text | json | sarif`), used on the output of
CLI runs and on the in-process rendering of every stream case's violations, and (b) the in-process renderer that feeds the
violations of a run to the real `format_violations` the way a linter command does (inside run_linter_command's try, followed by
sys.exit(1 if violations else 0)) and reports the exit status.
"""
from __future__ import annotations

import contextlib
import io
import json
import re

FORMATS = ["text", "json", "sarif"]


def _is_int(x) -> bool:
    return isinstance(x, int) and not isinstance(x, bool)


def check_json(doc_text: str, n_expected: int | None = None) -> tuple[list[str], list | None]:
    """-> (problems, violations as [rule, file, line, column, message])"""
    try:
        doc = json.loads(doc_text)
    except ValueError as e:
        return [f"json: not a JSON document ({str(e)[:80]})"], None
    probs = []
    if not isinstance(doc, dict) or not isinstance(doc.get("violations"), list):
        return ["json: no `violations` list"], None
    vs = doc["violations"]
    if doc.get("total") != len(vs):
        probs.append(f"json: total={doc.get('total')!r} but {len(vs)} violations")
    if n_expected is not None and len(vs) != n_expected:
        probs.append(f"json: {len(vs)} violations printed, {n_expected} expected")
    out = []
    for v in vs:
        if not isinstance(v, dict):
            probs.append("json: a violation is not an object")
            continue
        for key, ok in (("rule_id", isinstance(v.get("rule_id"), str) and v.get("rule_id") != ""), ("file_path", isinstance(v.get("file_path"), str)),
                        ("line", _is_int(v.get("line")) and v.get("line") >= 0), ("column", _is_int(v.get("column")) and v.get("column") >= 0),
                        ("message", isinstance(v.get("message"), str)), ("severity", isinstance(v.get("severity"), str))):
            if not ok:
                probs.append(f"json: field `{key}` of a {v.get('rule_id')} violation is {v.get(key)!r}")
        out.append([v.get("rule_id"), v.get("file_path"), v.get("line"), v.get("column"), v.get("message")])
    return probs, out


def check_sarif(doc_text: str, n_expected: int | None = None) -> tuple[list[str], list | None]:
    try:
        doc = json.loads(doc_text)
    except ValueError as e:
        return [f"sarif: not a JSON document ({str(e)[:80]})"], None
    probs = []
    if not isinstance(doc, dict) or doc.get("version") != "2.1.0" or not isinstance(doc.get("runs"), list) or len(doc["runs"]) != 1:
        return ["sarif: version / runs missing"], None
    run = doc["runs"][0]
    results = run.get("results")
    rules = (((run.get("tool") or {}).get("driver") or {}).get("rules"))
    if not isinstance(results, list) or not isinstance(rules, list):
        return ["sarif: results / tool.driver.rules missing"], None
    rule_ids = {r.get("id") for r in rules if isinstance(r, dict)}
    if n_expected is not None and len(results) != n_expected:
        probs.append(f"sarif: {len(results)} results printed, {n_expected} expected")
    out = []
    for res in results:
        rid = res.get("ruleId") if isinstance(res, dict) else None
        try:
            loc = res["locations"][0]["physicalLocation"]
            uri, region = loc["artifactLocation"]["uri"], loc["region"]
            msg = res["message"]["text"]
        except (KeyError, IndexError, TypeError):
            probs.append(f"sarif: result of {rid} without location / message")
            continue
        if not isinstance(rid, str) or rid not in rule_ids:
            probs.append(f"sarif: ruleId {rid!r} not declared in tool.driver.rules")
        if not isinstance(uri, str) or not isinstance(msg, str):
            probs.append(f"sarif: uri / message text of a {rid} result is not a string")
        sl, sc = region.get("startLine"), region.get("startColumn")
        # SARIF 2.1.0 section 3.30.5 / 3.30.6: startLine and startColumn are integers >= 1
        if not _is_int(sl) or sl < 1:
            probs.append(f"sarif: region.startLine of a {rid} result is {sl!r} (must be an integer >= 1)")
        if not _is_int(sc) or sc < 1:
            probs.append(f"sarif: region.startColumn of a {rid} result is {sc!r} (must be an integer >= 1)")
        out.append([rid, uri, sl, (sc - 1) if _is_int(sc) else sc, msg])
    return probs, out


TEXT_HEAD = re.compile(r"^Found (\d+) violation\(s\):$")
TEXT_RULE = re.compile(r"^    \[([A-Z]+)\] ([^\s:]+): (.*)$")


def check_text(doc_text: str, n_expected: int | None = None) -> tuple[list[str], list | None]:
    """the text document: `✓ No violations found`, or `Found N violation(s):` and N blocks `  <location>` / `    [SEV] rule: message`"""
    lines = doc_text.split("\n")
    while lines and lines[-1] == "":
        lines.pop()
    if not lines:
        return ["text: empty output"], None
    if lines[0].endswith("No violations found"):
        probs = [] if n_expected in (None, 0) else [f"text: `No violations found` printed, {n_expected} violations expected"]
        return probs + (["text: trailing lines after `No violations found`"] if len(lines) > 1 else []), []
    m = TEXT_HEAD.match(lines[0])
    if not m:
        return [f"text: first line is neither `Found N violation(s):` nor `No violations found`: {lines[0][:80]!r}"], None
    n = int(m.group(1))
    probs = []
    out = []
    # messages may contain newlines: a block starts at a two-space location line directly followed by a rule line
    i = 1
    while i < len(lines):
        if lines[i].startswith("  ") and not lines[i].startswith("   ") and i + 1 < len(lines) and TEXT_RULE.match(lines[i + 1]):
            r = TEXT_RULE.match(lines[i + 1])
            loc = lines[i][2:]
            if re.search(r":None\b", loc):
                probs.append(f"text: location `{loc[-60:]}` of a {r.group(2)} violation prints None")
            out.append([r.group(2), loc, r.group(3)])
            i += 2
        else:
            i += 1
    if len(out) != n:
        probs.append(f"text: header says {n} violations, {len(out)} blocks found")
    if n_expected is not None and n != n_expected:
        probs.append(f"text: header says {n} violations, {n_expected} expected")
    return probs, out


CHECKERS = {"text": check_text, "json": check_json, "sarif": check_sarif}


# ------------------------------------------------------------------ in-process: the output stage of a linter command
_QUIET = []


def _quiet_loguru():
    """handle_linting_error logs the traceback through loguru's default stderr sink: drop that sink in this process"""
    if not _QUIET:
        _QUIET.append(True)
        try:
            from loguru import logger
            logger.remove()
        except Exception:  # noqa: BLE001
            pass


def render(violations: list, fmt: str) -> dict:
    """what every execute function of src/cli/linters does after linting: format_violations(vs, fmt); sys.exit(1 if vs else 0) - run
    through the real run_linter_command (its `except Exception` -> handle_linting_error -> exit 2).  -> {exit, stdout, error}"""
    from src.cli.linters import shared
    from src.core.cli_utils import format_violations
    import sys as _sys
    _quiet_loguru()

    def execute(_params):
        format_violations(violations, fmt)
        _sys.exit(1 if violations else 0)

    params = shared.ExecuteParams(path_objs=[], config_file=None, format=fmt, recursive=True, verbose=False, project_root=None)
    so, se = io.StringIO(), io.StringIO()
    code = None
    err = None
    try:
        with contextlib.redirect_stdout(so), contextlib.redirect_stderr(se):
            try:
                shared.run_linter_command(execute, params)
            except SystemExit as e:
                code = e.code if isinstance(e.code, int) else (0 if e.code is None else 1)
    except BaseException as e:  # noqa: BLE001
        err = f"{type(e).__name__}: {str(e)[:200]}"
        if isinstance(e, KeyboardInterrupt):
            raise
    m = re.search(r"Error during linting: (.*)", se.getvalue())
    return {"exit": code, "stdout": so.getvalue(), "error": err or (m.group(1)[:200] if m else None)}


def typed_problems(violations: list) -> list[str]:
    """fields of the Violation objects themselves (src/core/types.py: line int 1-indexed, column int 0-indexed, strings)"""
    probs = []
    for v in violations:
        rid = getattr(v, "rule_id", None)
        for name, ok in (("rule_id", isinstance(rid, str)), ("file_path", isinstance(getattr(v, "file_path", None), str) or hasattr(getattr(v, "file_path", None), "__fspath__")),
                         ("line", _is_int(getattr(v, "line", None))), ("column", _is_int(getattr(v, "column", None))),
                         ("message", isinstance(getattr(v, "message", None), str))):
            if not ok:
                probs.append(f"violation of {rid}: field `{name}` is {getattr(v, name, None)!r}")
    return probs


def output_stage_problems(violations: list) -> list[dict]:
    """renders the violations of one run in every format; -> list of {fmt, problem}"""
    out = [{"fmt": "object", "problem": p} for p in typed_problems(violations)[:3]]
    for fmt in FORMATS:
        r = render(violations, fmt)
        want = 1 if violations else 0
        if r["exit"] != want:
            out.append({"fmt": fmt, "problem": f"output stage ended with exit status {r['exit']!r} (expected {want}): {r['error']}"})
            continue
        probs, parsed = CHECKERS[fmt](r["stdout"], len(violations))
        out.extend({"fmt": fmt, "problem": p} for p in probs[:3])
        if parsed is not None and fmt in ("json", "sarif") and len(parsed) == len(violations) and not probs:
            # the document carries the fields of the objects (sarif: 1-based column)
            for v, d in zip(violations, parsed):
                want = [v.rule_id, v.line, v.column] + ([v.message] if isinstance(v.message, str) and v.message.isascii() else [])
                got = [d[0], d[2], d[3]] + ([d[4]] if len(want) == 4 else [])
                if want != got:
                    out.append({"fmt": fmt, "problem": f"{fmt}: the document says {got!r} for a violation whose fields are {want!r}"[:300]})
                    break
    return out


# ------------------------------------------------------------------ correspondence with Model/ContainOut.v
# a Python value as the formatters see it: ["int", n] | ["none"] | ["str", s] | ["enum", name]
OUT_HEADER = ("From TL Require Import Lib.Base Lib.GenTypes Model.ContainTypes Gen.ContainGen Gen.ContainOutGen Model.Contain Model.ContainOut "
              "Model.ContainOutRun.\nRequire Import ZArith.\n")
FIELD_ORDER = ["rule_id", "file_path", "line", "column", "message", "severity", "suggestion"]
TYPED = {
    "rule_id": [["str", "nesting.excessive-depth"], ["str", "dry.duplicate-code"], ["str", "x"], ["str", "a.b.c"], ["str", ""]],
    "file_path": [["str", "src/a.py"], ["str", "b.ts"], ["str", ""]],
    "line": [["int", 1], ["int", 7], ["int", 1000000], ["int", 0], ["int", -3]],
    "column": [["int", 0], ["int", 1], ["int", 40], ["int", -1]],
    "message": [["str", "Syntax error: invalid syntax"], ["str", "m"], ["str", ""], ["str", "two\nlines"]],
    "severity": [["enum", "ERROR"]],
    "suggestion": [["none"], ["str", "fix it"]],
}
ANY = [["none"], ["int", 0], ["int", 5], ["int", -2], ["str", "text"], ["str", ""], ["enum", "ERROR"]]
OUT_FORMATS = ["text", "json", "sarif", "sarif", "json", "xml"]


def gen_out_case(r, i: int) -> dict:
    """0-4 violations; mostly well typed, in half of the cases one or two fields carry a value of another Python type"""
    vs = []
    for _ in range(r.choice([0, 1, 1, 2, 3, 4])):
        v = {f: r.choice(TYPED[f]) for f in FIELD_ORDER}
        if r.random() < 0.5:
            for f in r.sample(FIELD_ORDER, r.choice([1, 1, 2])):
                v[f] = r.choice(ANY)
        vs.append(v)
    return {"kind": "out", "i": i, "fmt": r.choice(OUT_FORMATS), "violations": vs}


def sweep_out_cases() -> list[dict]:
    """deterministic: every field x every foreign value x every format, one violation, everything else well typed"""
    out = []
    for fmt in ["text", "json", "sarif"]:
        for f in FIELD_ORDER:
            for val in ANY:
                v = {g: TYPED[g][0] for g in FIELD_ORDER}
                v[f] = val
                out.append({"kind": "out", "i": f"sweep:{fmt}:{f}:{val}", "fmt": fmt, "violations": [v]})
    return out


def _py(val):
    from src.core.types import Severity
    if val[0] == "int":
        return val[1]
    if val[0] == "none":
        return None
    if val[0] == "str":
        return val[1]
    return Severity[val[1]]


def _to_pv(x):
    if x is None:
        return ["none"]
    if isinstance(x, bool):
        return ["other", repr(x)]
    if isinstance(x, int):
        return ["int", x]
    if isinstance(x, str):
        return ["str", x]
    return ["other", repr(x)]


def run_out_case(c: dict) -> dict:
    """-> {exit, regions | None, error}"""
    from src.core.types import Violation
    vs = [Violation(**{f: _py(v[f]) for f in FIELD_ORDER}) for v in c["violations"]]
    r = render(vs, c["fmt"])
    regions = None
    if c["fmt"] == "sarif" and r["exit"] in (0, 1):
        try:
            doc = json.loads(r["stdout"])
            regions = [[_to_pv(res["locations"][0]["physicalLocation"]["region"].get("startLine")),
                        _to_pv(res["locations"][0]["physicalLocation"]["region"].get("startColumn"))] for res in doc["runs"][0]["results"]]
        except (ValueError, KeyError, IndexError, TypeError) as e:
            return {"exit": r["exit"], "regions": None, "error": f"unparsable sarif document: {type(e).__name__}"}
    return {"exit": r["exit"], "regions": regions, "error": r["error"]}


def _coq_pv(val) -> str:
    from harness import coq
    if val[0] == "int":
        return f"(PInt ({val[1]})%Z)"
    if val[0] == "none":
        return "PNone"
    if val[0] == "str":
        return f"(PStr {coq.coq_string(val[1])})"
    if val[0] == "enum":
        return f"(PEnum {coq.coq_string(val[1])})"
    return "(PEnum \"<other>\")"


def coq_out_case(c: dict, obs: dict) -> str:
    vs = "; ".join("(Build_oviol " + " ".join(_coq_pv(v[f]) for f in FIELD_ORDER) + ")" for v in c["violations"])
    regs = "; ".join(f"({_coq_pv(a)}, {_coq_pv(b)})" for a, b in (obs.get("regions") or []))
    ex = obs["exit"] if isinstance(obs["exit"], int) and obs["exit"] >= 0 else 99
    from harness import coq
    return f"judge_out {coq.coq_string(c['fmt'])} [{vs}] {ex} [{regs}]"
