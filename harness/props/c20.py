"""C20 — config tooling never loses user settings and only writes validated values.

Streams (all seeded from VERIF_SEED):
  init   existing .thailint.yaml x preset -> `thailint init-config --non-interactive` twice (in-process click runner,
         a fraction through the real CLI in a scratch cwd with HOME redirected); PyYAML judges the files
  hist   histories of `config set/get/reset` on ./config.yaml (real CLI) or --config FILE (.yaml/.json)
  loc    histories of `config set/get/reset` WITHOUT --config over the default-location chain (CONFIG_LOCATIONS of src/config.py):
         ./config.yaml, ./config.json, ~/.config/<name>/config.yaml|json populated with absent / valid / invalid / unreadable /
         non-mapping / empty files in any combination (in-process with the location list mapped into a scratch tree, a fraction
         through the real CLI with cwd and HOME redirected); model: Model/CfgLoc.v
  conv   texts -> _convert_value_type           (unit level)
  xtr    mutated templates -> extract_linter_sections   (unit level)
  mfn    arbitrary texts -> merge_config_sections       (unit level, includes control characters / CRLF)
  preset fresh file per preset accepted by every linter command (real CLI; validated only)
Every case is judged inside coqc (Model/CfgToolRun.v) against the model under the claimed quirk vector,
the vector with one flag off, and the ideal vector; the specification bits are computed twice (Coq on the
line-structured YAML subset, Python with PyYAML / the repo's own loader) and must agree.
"""
from __future__ import annotations

import json
import os
import re
from pathlib import Path

from harness import coq
from harness.common import REPO, VERIF, pool_map, rng_for, run_cli, scratch_dir
from harness.framework import Check

PROP = "C20"
FLAGS = ["q_missing_by_raw_key", "q_append_to_flow_root", "q_insert_mid_entry", "q_cli_raw_key"]
INIT_FLAGS = FLAGS[:3]
HEADER = ("From TL Require Import Lib.Base Lib.GenTypes Model.CfgTypes Gen.CfgToolGen Model.CfgMerge Model.CfgCli "
          "Model.CfgToolRun Model.CfgLoc Model.CfgPath Model.CfgEntry Actual.CfgToolActual.\nFrom Coq Require Import ZArith.\nOpen Scope Z_scope.\nOpen Scope nat_scope.\n")
BIT_NAMES = ["valid_yaml", "old_lines_preserved", "settings_in_effect", "only_missing_added", "all_missing_added",
             "added_sections_carry_template", "second_run_changes_nothing"]
MARK1 = "# " + "=" * 76
MARK2 = "# GLOBAL SETTINGS"
PRESETS = ["strict", "standard", "lenient"]


# ------------------------------------------------------------------ implementation access (in-process)
_impl = {}


def impl():
    """lazy import of the working tree with HOME redirected (src.config computes its locations at import time)"""
    if not _impl:
        home = Path(os.environ.get("C20_HOME") or "/dev/shm")
        os.environ["HOME"] = str(home)
        os.environ["XDG_CONFIG_HOME"] = str(home / ".config")
        import yaml
        from click.testing import CliRunner
        import src.cli_main  # noqa: F401  registers every command
        from src.cli.main import cli
        from src.cli import config as ccfg
        from src.cli import config_merge as cm
        from src.core import config_parser as cp
        from src import config as scfg
        _impl.update(yaml=yaml, runner=CliRunner, cli=cli, ccfg=ccfg, cm=cm, cp=cp, scfg=scfg)
        import pwd
        _impl["loc_orig"] = [Path(p) for p in scfg.CONFIG_LOCATIONS]
        _impl["loc_bases"] = [(Path.cwd(), "cwd"), (home, "home"), (Path.home(), "home"), (Path(pwd.getpwuid(os.getuid()).pw_dir), "home")]
    return _impl


def template_text(preset: str) -> str:
    return impl()["ccfg"]._generate_config_content(preset)


# ------------------------------------------------------------------ generator: existing .thailint.yaml
OTHER_KEYS = ["performance", "unwrap-abuse", "clone-abuse", "blocking-async", "exclude", "output_format", "fail_on_violations",
              "custom", "my_tool", "x-team", "Version2", "lbyl", "cqs", "improper-logging", "collection_pipeline", "ignore"]
SUBKEYS = ["enabled", "max_nesting_depth", "allowed_numbers", "max_small_integer", "min_duplicate_lines", "max_methods", "max_loc",
           "ignore", "storage", "level", "allow_in_scripts", "min_occurrences", "require_spdx", "max_body_statements", "paths"]


def linter_sections():
    return list(impl()["cm"].LINTER_SECTIONS)


def _scalar(r):
    k = r.random()
    if k < 0.3:
        return str(r.choice([0, 1, 2, 3, 4, 5, 7, 10, 42, 100, 4242]))
    if k < 0.45:
        return r.choice(["true", "false"])
    if k < 0.6:
        return r.choice(['"tests/**"', '"*.pyc"', "'src/'", '"caf\u00e9"', '"a: b"', '"# not a comment"', '""'])
    if k < 0.75:
        return r.choice(["memory", "strict", "warn", "text", "python", "some words here"])
    if k < 0.9:
        return "[" + ", ".join(str(r.choice([-1, 0, 1, 2, 10, 60, 1000, 3600])) for _ in range(r.randint(0, 5))) + "]"
    return "{" + ", ".join(f"{r.choice(SUBKEYS)}: {r.choice(['1', 'true', 'x'])}" for _ in range(r.randint(1, 2))) + "}"


def _body(r, ind: str):
    """lines of a block value (already indented by `ind`), all valid YAML"""
    kind = r.random()
    out = []
    if kind < 0.65:
        used = set()
        for _ in range(r.randint(1, 5)):
            k = r.choice(SUBKEYS)
            if k in used:
                continue
            used.add(k)
            if r.random() < 0.15:
                out.append(f"{ind}# {r.choice(['note', 'Default: 4', 'team decision', 'see docs'])}")
            if r.random() < 0.1:
                out.append("")
            t = r.random()
            if t < 0.08:      # a block scalar: blank and `#` lines inside it are content
                out.append(f"{ind}{k}: {r.choice(['|', '>', '|-', '>-'])}")
                for _ in range(r.randint(1, 3)):
                    out.append(f"{ind}{ind}{r.choice(['free text', '# not a comment', 'a: b', 'x  y', '- item'])}")
                    if r.random() < 0.2:
                        out.append("")
                out.append(f"{ind}{ind}end of text")
            elif t < 0.7:
                tail = "  # why" if r.random() < 0.1 else ""
                out.append(f"{ind}{k}: {_scalar(r)}{tail}")
            elif t < 0.85:
                out.append(f"{ind}{k}:")
                for _ in range(r.randint(1, 3)):
                    item = r.choice(["a", '"b/"', "3", "tests/"])
                    out.append(f"{ind}{ind}- {item}")
            else:
                out.append(f"{ind}{k}:")
                out.append(f"{ind}{ind}{r.choice(SUBKEYS)}: {_scalar(r)}")
    elif kind < 0.85:
        for _ in range(r.randint(1, 4)):
            item = r.choice(['".git/"', "build/", '"*.pyc"', "docs", "12"])
            out.append(f"{ind}- {item}")
    else:
        for _ in range(r.randint(1, 3)):   # block sequence written at column 0
            item = r.choice(["one", '"two"', "3"])
            out.append(f"- {item}")
    return out


def _entry(r, key: str):
    ind = r.choice(["  ", "  ", "  ", "    "])
    t = r.random()
    if t < 0.05:          # top-level block scalar
        return [f"{key}: {r.choice(['|', '>', '|-'])}", f"{ind}some text", "", f"{ind}# kept as text", f"{ind}last line"]
    if t < 0.62:
        return [f"{key}:" + ("   " if r.random() < 0.05 else "")] + _body(r, ind)
    if t < 0.8:
        return [f"{key}: {_scalar(r)}"]
    if t < 0.9:
        return [f"{key}: {{enabled: {r.choice(['true', 'false'])}, {r.choice(SUBKEYS[1:])}: {r.choice(['1', '[1, 2]', 'x'])}}}"]
    return [f"{key}:"]


def gen_block_doc(r):
    ls_all = linter_sections()
    mode = r.random()
    if mode < 0.12:
        have = list(ls_all)
    elif mode < 0.2:
        have = []
    else:
        have = [s for s in ls_all if r.random() < r.choice([0.2, 0.5, 0.8])]
    keys = []
    for s in have:
        sp = r.random()
        if sp < 0.6 or "-" not in s:
            keys.append(s)
        elif sp < 0.92:
            keys.append(s.replace("-", "_"))
        else:
            keys.extend([s.replace("-", "_"), s])       # both spellings present
    for _ in range(r.choice([0, 0, 1, 2, 3])):
        k = r.choice(OTHER_KEYS)
        if k not in keys:
            keys.append(k)
    if r.random() < 0.7:
        r.shuffle(keys)
    lines, bounds = [], []
    for _ in range(r.choice([0, 0, 1, 3])):
        lines.append(r.choice(["# my project config", "#", "# thailint settings \u2014 do not edit by hand", "", "  # indented note", "   "]))
    docstart = r.random() < 0.15
    if docstart:
        lines.append("---")
    body_sites = []
    for k in keys:
        bounds.append(len(lines))
        if r.random() < 0.3:
            lines.append(f"# {k} settings")
        qk = k
        if r.random() < 0.1:      # a quoted key is the same key to every YAML loader
            qc = r.choice(['"', "'"])
            qk = qc + k + qc
        e = _entry(r, qk)
        start = len(lines)
        lines.extend(e)
        in_scalar, thr = False, 0
        for j in range(start, len(lines)):
            l = lines[j]
            ind = len(l) - len(l.lstrip(" "))
            if in_scalar and (not l.strip() or ind > thr):
                continue                     # content of a block scalar: a column-0 comment here would end the scalar
            in_scalar = False
            if j > start and l.startswith((" ", "-")):
                body_sites.append(j)
            if l.rstrip().endswith(("|", ">", "|-", ">-", "|+")) and not l.lstrip().startswith("#"):
                in_scalar, thr = True, ind
        for _ in range(r.choice([0, 1, 1, 2])):
            lines.append("")
    bounds.append(len(lines))
    return {"lines": lines, "bounds": bounds, "body_sites": body_sites, "docstart": docstart, "keys": keys}


def place_marker(r, d):
    """insert the GLOBAL SETTINGS marker comment in one of several positions; returns the variant name"""
    lines = d["lines"]
    v = r.random()
    three = [MARK1, MARK2, MARK1] if r.random() < 0.7 else [MARK1, MARK2 + " (ours)"]
    if v < 0.5:
        return "none"
    if v < 0.72 and d["bounds"]:
        at = r.choice(d["bounds"][1:] or d["bounds"])
        lines[at:at] = three + ["#"]
        return "boundary"
    if v < 0.76:
        lines[0:0] = three
        return "pos0"
    if v < 0.85 and d["body_sites"]:
        at = r.choice(d["body_sites"])
        lines[at:at] = three
        return "mid_entry"
    if v < 0.88 and d["docstart"]:
        at = lines.index("---")
        if at == 0:
            lines[0:0] = ["# header"]
            at = 1
        lines[at:at] = three
        return "before_docstart"
    if v < 0.93 and d["body_sites"]:
        at = r.choice(d["body_sites"])
        if "#" not in lines[at - 1] and '"' not in lines[at - 1] and lines[at - 1].strip():
            lines[at - 1] = lines[at - 1] + "  " + MARK1
            lines[at:at] = [MARK2]
            return "mid_line"
        return "none"
    if v < 0.97:
        at = r.choice(d["bounds"]) if d["bounds"] else 0
        lines[at:at] = [MARK1] if r.random() < 0.5 else [MARK2, MARK1]
        return "decoy"
    if d["bounds"] and d["body_sites"]:
        at = r.choice(d["body_sites"])
        lines[at:at] = three
        lines[d["bounds"][0]:d["bounds"][0]] = ["# top"] + three
        return "two_markers"
    return "none"


def finish_text(r, lines):
    t = r.random()
    text = "\n".join(lines)
    if t < 0.6:
        return text + "\n"
    if t < 0.7:
        return text
    if t < 0.8:
        return text + "\n\n\n"
    if t < 0.9:
        return text + "   \n  \n"
    return text + "\n# end of file\n"


def gen_template_doc(r):
    """a file generated earlier by init-config from which the user removed / re-spelled / edited sections"""
    text = template_text(r.choice(PRESETS))
    lines = text.split("\n")
    heads = [i for i in range(len(lines) - 2) if lines[i].startswith("# ===") and lines[i + 2].startswith("# ===")]
    chunks = [lines[:heads[0]]] + [lines[a:b] for a, b in zip(heads, heads[1:] + [len(lines)])]
    out = list(chunks[0]) if r.random() < 0.8 else []
    p_drop = r.choice([0.0, 0.2, 0.5, 0.9])
    for ch in chunks[1:]:
        is_global = len(ch) > 1 and ch[1].startswith(MARK2)
        if not is_global and r.random() < p_drop:
            continue
        ch = list(ch)
        for j, l in enumerate(ch):
            m = re.match(r"^([a-z][a-z-]*):$", l)
            if m and "-" in l and r.random() < 0.25:
                ch[j] = l.replace("-", "_")
            elif re.match(r"^  [a-z_]+: (true|false|\d+)$", l) and r.random() < 0.2:
                ch[j] = l.rsplit(" ", 1)[0] + " " + r.choice(["false", "7", "true"])
        out.extend(ch)
    if r.random() < 0.2:   # the user dropped the GLOBAL SETTINGS banner
        out = [l for l in out if not l.startswith(MARK2)]
    return "\n".join(out)


def gen_flow_doc(r):
    ls_all = linter_sections()
    ks = [s if r.random() < 0.7 else s.replace("-", "_") for s in ls_all if r.random() < r.choice([0.2, 0.6, 1.0])]
    if r.random() < 0.1:
        ks = list(ls_all)
    if r.random() < 0.4:
        ks.append(r.choice(["exclude", "custom", "x-team"]))
    items = []
    for k in ks:
        v = r.choice(["{enabled: true}", "{enabled: false, max_nesting_depth: 3}", "[a, b]", "5", "{a: {b: 1}, c: [1, 2]}"])
        items.append(f"{k}: {v}")
    lines = []
    if r.random() < 0.3:
        lines.append("# compact style")
    if r.random() < 0.15:
        lines.append("---")
    lines.append("{" + ", ".join(items) + "}")
    if r.random() < 0.3:
        lines.append("# end")
    return "\n".join(lines) + ("\n" if r.random() < 0.8 else "")


def gen_indented_doc(r):
    """a block document whose root mapping is indented as a whole (valid YAML)"""
    d = gen_block_doc(r)
    n = r.choice([1, 2, 2, 4])
    out = []
    for l in d["lines"]:
        if l == "---" or not l.strip():
            out.append(l)
        elif l.startswith("#"):
            out.append(l if r.random() < 0.5 else " " * n + l)
        else:
            out.append(" " * n + l)
    return finish_text(r, out)


def gen_tail_scalar_doc(r):
    """the file ENDS inside a block scalar whose value depends on the white space at the end of the file (keep chomping, or
    trailing spaces on its last line): str.rstrip() of the old content changes that value"""
    d = gen_block_doc(r)
    lines = [l for l in d["lines"]]
    while lines and not lines[-1].strip():
        lines.pop()
    key = r.choice(["notes", "custom_text", "banner"])
    kind = r.choice(["keep", "keep", "spaces"])
    if kind == "keep":
        lines += [f"{key}: |+", "  kept text"] + [""] * r.choice([0, 2, 3])
        return "\n".join(lines) + "\n"
    lines += [f"{key}: |", "  text with trailing blanks   "]
    return "\n".join(lines) + r.choice(["\n", ""])


def last_line_in_block_scalar(text: str) -> bool:
    """input class of finding eof_rstrip_changes_block_scalar: the last non-blank line of the file lies inside a block scalar"""
    lines = text.split("\n")
    opener = re.compile(r"(^|[\s:-])[|>][+-]?[1-9]?[+-]?\s*(#.*)?$")
    inside, thr = False, 0
    last = None
    for l in lines:
        if not l.strip():
            continue
        ind = len(l) - len(l.lstrip(" "))
        if inside and ind > thr:
            last = True
            continue
        inside = False
        last = False
        if not l.lstrip(" ").startswith("#") and opener.search(l.rstrip()):
            inside, thr = True, ind
    return bool(last)


def gen_init_case(seed, i):
    r = rng_for(seed, PROP, "init", i)
    k = r.random()
    if k < 0.62:
        d = gen_block_doc(r)
        marker = place_marker(r, d)
        text = finish_text(r, d["lines"])
        kind = "block"
    elif k < 0.8:
        text, marker, kind = gen_template_doc(r), "template", "template"
    elif k < 0.89:
        text, marker, kind = gen_flow_doc(r), "none", "flow"
    elif k < 0.915:
        text, marker, kind = gen_indented_doc(r), "none", "indented"
    elif k < 0.93:
        text, marker, kind = gen_tail_scalar_doc(r), "none", "tail_scalar"
    elif k < 0.965:
        text = r.choice(["", "\n", "# only a comment\n", "---\n", "# a\n\n# b\n"])
        marker, kind = "none", "empty"
    else:
        d = gen_block_doc(r)
        at = r.choice(d["bounds"][1:]) if len(d["bounds"]) > 1 else len(d["lines"])
        if not d["keys"]:
            d["lines"][0:0] = ["nesting:", "  enabled: true"]
            at = 2
        d["lines"][at:at] = [r.choice(["this line is not yaml", "[unclosed", "} stray"])]
        text, marker, kind = "\n".join(d["lines"]) + "\n", "none", "invalid"
    case = {"stream": "init", "i": i, "kind": kind, "marker": marker, "preset": r.choice(PRESETS), "text": text,
            "via": "cli" if r.random() < 0.1 else "api"}
    r2 = rng_for(seed, PROP, "init-entry", i)     # separate chain: the files of the stream stay what they were
    if r2.random() < 0.3:
        set_prompt_entry(r2, case)
    return case


def gen_answers(r, default):
    """what the user types at the `Choose preset` prompt: plain Enter (= the default), a preset name, or an answer that is no
    preset (asked again) followed by one of these; returns (stdin text, preset the documented prompt ends up with)"""
    k = r.random()
    bad = r.choice(["bogus", "STRICT", "1", "strictest", "y"])
    name = r.choice(PRESETS)
    if k < 0.3:
        return "\n", default
    if k < 0.65:
        return name + "\n", name
    if k < 0.85:
        return bad + "\n" + name + "\n", name
    return bad + "\n\n", default


def set_prompt_entry(r, case):
    """interactive entry point: no --non-interactive, --preset only sets the default of the prompt, the answers come on stdin"""
    case["default"] = case["preset"]
    case["answers"], case["preset"] = gen_answers(r, case["default"])
    case["via"] = "api"


def entry_preset_term(case):
    """the preset as the MODEL's entry point chooses it (Model/CfgEntry.v) - the Python side uses the documented choice"""
    if case.get("answers") is None:
        return cs(case["preset"])
    ans = coq.coq_list([cs(a) for a in case["answers"].split("\n")[:-1]])
    return f"(entry_preset_or false {cs(case['default'])} {ans})"


def gen_entry_case(seed, i):
    """--force over an existing file / no file yet, entered with the flag or through the prompt: a fresh file is written"""
    r = rng_for(seed, PROP, "entry", i)
    case = {"stream": "entry", "i": i, "preset": r.choice(PRESETS), "force": r.random() < 0.6,
            "existing": r.choice([None, "nesting:\n  enabled: false\n", "[broken\n", "", "magic_numbers: {allowed_numbers: [4242]}\n# mine\n"])}
    if case["existing"] is not None:
        case["force"] = True
    if r.random() < 0.6:
        set_prompt_entry(r, case)
    return case


def run_entry(case):
    m = impl()
    with scratch_dir("tv-c20e-") as d:
        f = d / ".thailint.yaml"
        if case["existing"] is not None:
            f.write_text(case["existing"])
        args = ["init-config", "--output", str(f)] + (["--force"] if case["force"] else [])
        if case.get("answers") is None:
            args += ["--non-interactive", "--preset", case["preset"]]
            rr = m["runner"]().invoke(m["cli"], args)
        else:
            args += ["--preset", case["default"]]
            rr = m["runner"]().invoke(m["cli"], args, input=case["answers"])
        err = ""
        if rr.exception is not None and not isinstance(rr.exception, SystemExit):
            err = "EXC " + repr(rr.exception)
        return {"rc": rr.exit_code, "out": rr.output[-400:], "err": err, "text": f.read_text() if f.exists() else None}


# ------------------------------------------------------------------ running init-config
def run_init(case):
    with scratch_dir("tv-c20-") as d:
        f = d / ".thailint.yaml"
        f.write_bytes(case["text"].encode("utf-8"))
        res = []
        for _ in range(2):
            if case["via"] == "cli":
                rc, so, se = run_cli(["init-config", "--non-interactive", "--preset", case["preset"]], cwd=d, home=d)
            else:
                m = impl()
                if case.get("answers") is None:
                    rr = m["runner"]().invoke(m["cli"], ["init-config", "--non-interactive", "--preset", case["preset"], "--output", str(f)])
                else:
                    rr = m["runner"]().invoke(m["cli"], ["init-config", "--preset", case["default"], "--output", str(f)], input=case["answers"])
                rc, so, se = rr.exit_code, rr.output, ""
                if rr.exception is not None and not isinstance(rr.exception, SystemExit):
                    se = "EXC " + repr(rr.exception)
            res.append({"rc": rc, "out": so, "err": se[-400:], "text": f.read_bytes().decode("utf-8", "replace"),
                        "names": [l[4:] for l in so.splitlines() if l.startswith("  - ")]})
        return res


# ------------------------------------------------------------------ Python-side specification (PyYAML / repo loader)
def yroot(text):
    y = impl()["yaml"]
    try:
        d = y.safe_load(text)
    except y.YAMLError:
        return None
    if d is None:
        d = {}
    if not isinstance(d, dict) or not all(isinstance(k, str) for k in d):
        return None
    return d


def is_flow(text):
    """the root mapping is not a column-0 block mapping: flow style, or block style indented as a whole"""
    for l in text.split("\n"):
        s = l.strip()
        if not s or s.startswith("#") or s == "---":
            continue
        return s.startswith("{") or l.startswith(" ")
    return False


def norm_cfg(d):
    return impl()["cp"]._normalize_config_keys(d)


def nk(k):
    return next(iter(norm_cfg({k: 0})))


def nonblank(text):
    return [l.rstrip() for l in text.split("\n") if l.rstrip()]


def is_subseq(a, b):
    it = iter(b)
    return all(any(x == y for y in it) for x in a)


def py_bits(E, R, R2, preset):
    ls = linter_sections()
    dE, dR = yroot(E), yroot(R)
    kE, kR = list(dE or {}), list(dR or {})
    eblock = dE is not None and not is_flow(E)
    rblock = dR is not None and not is_flow(R)
    valid = dR is not None
    preserved = is_subseq(nonblank(E), nonblank(R))
    if R == E:
        in_eff = True
    elif eblock and rblock:
        nE, nR = norm_cfg(dE), norm_cfg(dR)
        in_eff = all(k in nR and _same(nR[k], v) for k, v in nE.items())
    else:
        in_eff = False
    added = [k for k in kR if k not in kE]
    nkE = {nk(k) for k in kE}
    only = (len(kR) == len(kE) + len(added) and len(set(added)) == len(added)
            and all(n in ls and nk(n) not in nkE for n in added))
    complete = (not eblock) or all(nk(n) in {nk(k) for k in kR} for n in ls)
    if rblock:
        nT = norm_cfg(yroot(template_text(preset)) or {})
        nR = norm_cfg(dR)
        content = all(nk(n) in nT and _same(nR.get(nk(n), "<absent>"), nT[nk(n)]) for n in added)
    elif dR is not None:
        content = not added
    else:
        content = False
    return [valid, preserved, in_eff, only, complete, content, R2 == R]


def _same(a, b):
    return json.dumps(a, sort_keys=True, default=str) == json.dumps(b, sort_keys=True, default=str) and type(a) is type(b)


# ------------------------------------------------------------------ Coq rendering
def cs(s):
    return coq.coq_string(s)


def clines(text):
    return coq.coq_list([cs(l) for l in text.split("\n")])


def coq_init(case, res):
    E, R, R2 = case["text"], res[0]["text"], res[1]["text"]
    lets = [f"let E := {clines(E)} in"]
    rn = "E" if R == E else "R"
    if R != E:
        lets.append(f"let R := {clines(R)} in")
    r2n = rn if R2 == R else ("E" if R2 == E else "R2")
    if r2n == "R2":
        lets.append(f"let R2 := {clines(R2)} in")
    names = coq.coq_list([cs(n) for n in res[0]["names"]])
    return (" ".join(lets) + f" judge_init cfgtool_actual {entry_preset_term(case)} E {res[0]['rc'] % 256} {names} {rn} "
            f"{res[1]['rc'] % 256} {r2n}")


def eval_all(terms, workdir, per_shard, timeout=900):
    """terms: list of Coq expressions; returns the parsed value of each"""
    shards, index = [], []
    for s in range(0, len(terms), per_shard):
        chunk = list(range(s, min(len(terms), s + per_shard)))
        shards.append("\n".join(f"Eval vm_compute in ({terms[j]})." for j in chunk))
        index.append(chunk)
    outs = coq.eval_shards(workdir, HEADER, shards, timeout=timeout)
    vals = [None] * len(terms)
    for chunk, out in zip(index, outs):
        if len(out) != len(chunk):
            raise RuntimeError(f"expected {len(chunk)} results, got {len(out)}")
        for j, o in zip(chunk, out):
            vals[j] = o
    return vals


# ------------------------------------------------------------------ histories of config set/get/reset
DEFAULT_KEYS = ["app_name", "version", "log_level", "output_format", "greeting", "max_retries", "timeout"]
EXTRA_KEYS = ["my-key", "my_key", "feature-x", "Extra", "team", "retry-limit", "a-b-c", "log-level"]
VALUES = {
    "log_level": ["DEBUG", "INFO", "WARNING", "ERROR", "CRITICAL", "debug", "Info", "TRACE", "5", "true", ""],
    "output_format": ["text", "json", "yaml", "xml", "TEXT", "1", "sarif"],
    "max_retries": ["0", "1", "5", "007", "+3", "-1", "-0", "2.5", "many", "true", "false", "10", "99999999999999999999", "3.0"],
    "timeout": ["30", "1", "0", "-5", "0.5", "2.50", "0.0", "-0.0", "-1.5", "soon", "true", "false", "0.001", "120"],
    "app_name": ["myapp", "My App", "", "   ", "123", "1.5", "true", "x", "thai-lint"],
    "greeting": ["Hi", "Hello there", "007", "TRUE", "false", "1.50", "hey!", "/path", "", "-7", "+0.50", "00.10", "Inf0", "nano"],
    "version": ["0.2.0", "1", "1.0", "v2"],
}
GENERIC = ["5", "x", "true", "False", "1.25", "some text", "-12", "0", "", "on", "null", "007", "3.10", "{a}", "[1]", "#c", "a:b", "yes"]


def gen_value(r, key):
    pool = VALUES.get(key) or VALUES.get(key.replace("-", "_")) or GENERIC
    if r.random() < 0.15:
        pool = GENERIC
    return r.choice(pool)


def gen_file_state(r):
    t = r.random()
    if t < 0.35:
        return None
    items = []
    if t < 0.5:
        items = [("log_level", "DEBUG")]
    elif t < 0.62:
        items = [("greeting", "Yo"), ("my-key", 5), ("timeout", 2.5)]
    elif t < 0.72:
        items = [("my-key", 1), ("my_key", 2), ("Extra", True)]
    elif t < 0.8:
        items = [("my_key", 1), ("my-key", 2), ("max_retries", 0)]
    elif t < 0.9:
        items = [("log_level", "bogus"), ("greeting", "kept?")]          # invalid file
    elif t < 0.95:
        items = [("app_name", "tool"), ("version", "2"), ("log_level", "ERROR"), ("output_format", "json"), ("greeting", "Hey"),
                 ("max_retries", 9), ("timeout", 1), ("feature-x", "on")]
    else:
        items = [("max_retries", -3)]                                     # invalid file
    return items


# file name per mode; the modes after "json" exercise the suffix handling of --config FILE (Model/CfgPath.v): accepted by loader
# and writer (.yml), by the loader only (upper case), by neither (.toml, no suffix)
MODE_FILES = {"default": "config.yaml", "yaml": "my.yaml", "json": "settings.json", "yml": "team.yml", "upper_yaml": "My.YAML",
              "upper_json": "Settings.JSON", "mixed_yml": "x.Yml", "toml": "cfg.toml", "nosuffix": "thailintrc"}
SUFFIX_MODES = ["yml", "upper_yaml", "upper_json", "mixed_yml", "toml", "nosuffix"]


def gen_path_case(seed, i):
    r = rng_for(seed, PROP, "path", i)
    mode = r.choice(SUFFIX_MODES + ["yml", "upper_yaml"])
    cmds = _gen_cmds(r)
    if r.random() < 0.5:
        cmds = cmds[:4]
    return {"stream": "hist", "i": f"path:{i}", "mode": mode, "via": "cli" if r.random() < 0.04 else "api", "file": gen_file_state(r), "cmds": cmds}


def gen_hist_case(seed, i):
    r = rng_for(seed, PROP, "hist", i)
    mode = r.choice(["default", "yaml", "yaml", "yaml", "json", "json", "yaml"])
    via = "cli" if mode == "default" else ("cli" if r.random() < 0.05 else "api")
    cmds = []
    keys_used = []
    for _ in range(r.randint(3, 8)):
        t = r.random()
        if t < 0.5:
            k = r.choice(DEFAULT_KEYS + EXTRA_KEYS + EXTRA_KEYS)
            cmds.append(["set", k, gen_value(r, k)])
            keys_used.append(k)
        elif t < 0.93:
            pool = keys_used * 3 + DEFAULT_KEYS + EXTRA_KEYS + [k.replace("-", "_") for k in keys_used]
            cmds.append(["get", r.choice(pool)])
        else:
            cmds.append(["reset"])
    if keys_used and cmds[-1][0] != "get":
        cmds.append(["get", r.choice(keys_used)])
    return {"stream": "hist", "i": i, "mode": mode, "via": via, "file": gen_file_state(r), "cmds": cmds}


def boundary_values():
    """texts AT every boundary of every validated key: bound-1, bound, bound+1 as int and as float text, signed zeros,
    very large, non-numeric, empty; bounds = the documented ones (0) and whatever the guards of the source use now"""
    try:
        from translator import items_cfgtool
        items_cfgtool.validators()
        src = dict(items_cfgtool.BOUNDS)
    except Exception:  # noqa: BLE001  (fail-closed item: the documented bound is still drawn)
        src = {}
    out = {}
    for key in ("timeout", "max_retries"):
        vals = []
        for b in sorted({0, src.get(key, 0)}):
            for x in (b - 1, b, b + 1):
                vals += [str(x), f"{x}.0", f"{x}.5" if x >= 0 else f"{x}.5"]
            vals += [f"{b}.001", f"{b}.000", f"0{b}"]
        vals += ["-0", "-0.0", "+0", "0.0", "0.000", "-0.001", "0.0001", "99999999999999999999", "123456789012.5", "many", "", " ",
                 "true", "false", "1e0", "nan", "inf", "-inf"]
        out[key] = list(dict.fromkeys(vals))
    out["log_level"] = DOC_LEVELS + ["debug", "Info", "TRACE", "", "0", "true", "WARN"]
    out["output_format"] = DOC_FORMATS + ["TEXT", "xml", "", "1", "sarif", "Json"]
    out["app_name"] = ["tool", "", " ", "   ", "0", "1.5", "true", "a b"]
    return out


def boundary_cases():
    """deterministic: every boundary value of every validated key, on a yaml and on a json config file, absent and present"""
    cases = []
    for key, vals in boundary_values().items():
        for j, v in enumerate(vals):
            for mode in ("yaml", "json"):
                file = None if (j % 2 == 0) else [("greeting", "kept"), ("timeout", 7), ("max_retries", 2)]
                cases.append({"stream": "hist", "i": f"boundary:{key}:{j}:{mode}", "mode": mode, "via": "api", "file": file,
                              "cmds": [["get", key], ["set", key, v], ["get", key], ["get", "greeting"]], "boundary": True})
    return cases


def _dump_state(path: Path, items):
    m = impl()
    d = dict(items) if len({k for k, _ in items}) == len(items) else None
    if path.suffix.lower() == ".json":
        path.write_text("{" + ", ".join(f"{json.dumps(k)}: {json.dumps(v)}" for k, v in items) + "}")
    else:
        if d is not None:
            path.write_text(m["yaml"].dump(d, default_flow_style=False, sort_keys=False))
        else:
            path.write_text("".join(f"{k}: {json.dumps(v)}\n" for k, v in items))


def _read_state(path: Path):
    """ordered (key, python value) pairs as the loader of the tool would see them, or None / 'unreadable'"""
    if not path.exists():
        return None
    m = impl()
    try:
        if path.suffix.lower() == ".json":
            d = json.loads(path.read_text())
        else:
            d = m["yaml"].safe_load(path.read_text())
    except Exception as e:  # noqa: BLE001
        return f"unreadable: {e}"
    if not isinstance(d, dict):
        return f"unreadable: not a mapping ({type(d).__name__})"
    return [[k, v] for k, v in d.items()]


def run_hist(case):
    with scratch_dir("tv-c20h-") as d:
        name = MODE_FILES[case["mode"]]
        f = d / name
        if case["file"] is not None:
            _dump_state(f, case["file"])
        steps = []
        state0 = _read_state(f)
        for c in case["cmds"]:
            before = f.read_bytes() if f.exists() else None
            # `--` so that click does not read a value such as -12 as an option
            args = ["config", c[0]] + (["--yes"] if c[0] == "reset" else ["--", *c[1:]])
            if case["mode"] != "default":
                args = ["--config", str(f)] + args
            if case["via"] == "cli":
                rc, so, se = run_cli(args, cwd=d, home=d)
            else:
                m = impl()
                rr = m["runner"](mix_stderr=False).invoke(m["cli"], args) if _mix_ok() else m["runner"]().invoke(m["cli"], args)
                rc, so = rr.exit_code, rr.stdout
                se = ""
                if rr.exception is not None and not isinstance(rr.exception, SystemExit):
                    se = "EXC " + repr(rr.exception)
            after = f.read_bytes() if f.exists() else None
            steps.append({"rc": rc, "out": so, "err": se[-300:], "state": _read_state(f), "bytes_same": before == after})
        return {"state0": state0, "steps": steps}


_mix = []


def _mix_ok():
    if not _mix:
        import inspect
        _mix.append("mix_stderr" in inspect.signature(impl()["runner"].__init__).parameters)
    return _mix[0]


# ------------------------------------------------------------------ histories over the default-location chain (no --config)
def _gen_cmds(r):
    cmds, keys_used = [], []
    for _ in range(r.randint(3, 8)):
        t = r.random()
        if t < 0.5:
            k = r.choice(DEFAULT_KEYS + EXTRA_KEYS + EXTRA_KEYS)
            cmds.append(["set", k, gen_value(r, k)])
            keys_used.append(k)
        elif t < 0.93:
            pool = keys_used * 3 + DEFAULT_KEYS + EXTRA_KEYS + [k.replace("-", "_") for k in keys_used]
            cmds.append(["get", r.choice(pool)])
        else:
            cmds.append(["reset"])
    if keys_used and cmds[-1][0] != "get":
        cmds.append(["get", r.choice(keys_used)])
    return cmds


def gen_loc_file(r, j):
    """what stands at one location: None (absent) or {kind: items|broken|nonmap|empty, items}"""
    t = r.random()
    if t < 0.42:
        return None
    if t < 0.72:
        items = r.choice([
            [("greeting", f"From{j}"), ("my-key", j)],
            [("log_level", "DEBUG"), ("timeout", 5)],
            [("greeting", f"Loc{j}"), ("max_retries", j), ("feature-x", "on"), ("my_key", 10 + j)],
            [("app_name", "tool"), ("version", "2"), ("log_level", "ERROR"), ("output_format", "json"), ("greeting", "Hey"),
             ("max_retries", 9), ("timeout", 1)],
            [("my-key", 1), ("my_key", 2)],
            [("timeout", 2.5), ("output_format", "yaml")],
        ])
        return {"kind": "items", "items": [list(x) for x in items]}
    if t < 0.86:
        items = r.choice([
            [("log_level", "bogus"), ("greeting", "lost?")],
            [("max_retries", -3), ("greeting", "neg")],
            [("timeout", 0)],
            [("app_name", ""), ("my-key", 7)],
            [("output_format", "xml"), ("log-level", "DEBUG")],
            [("log-level", "trace")],
        ])
        return {"kind": "items", "items": [list(x) for x in items]}
    if t < 0.93:
        return {"kind": "broken"}
    if t < 0.97:
        return {"kind": "nonmap"}
    return {"kind": "empty"}


def gen_loc_case(seed, i):
    r = rng_for(seed, PROP, "loc", i)
    ctl = [c for c, _ in _loc_paths(Path("/nonexistent"))]
    files = [gen_loc_file(r, j) for j in range(len(ctl))]
    return {"stream": "loc", "i": i, "via": "cli" if r.random() < 0.07 else "api",
            "files": [f if c else None for f, c in zip(files, ctl)], "cmds": _gen_cmds(r)}


def _loc_paths(d: Path):
    """the entries of CONFIG_LOCATIONS (order of the source) mapped into the scratch tree: (controllable, path)"""
    m = impl()
    out = []
    for p in m["loc_orig"]:
        for base, kind in m["loc_bases"]:
            try:
                rel = p.relative_to(base)
            except ValueError:
                continue
            out.append((True, (d / rel) if kind == "cwd" else (d / "home" / rel)))
            break
        else:
            out.append((False, p))
    return out


def _write_loc_file(path: Path, spec):
    if spec is None:
        return
    path.parent.mkdir(parents=True, exist_ok=True)
    js = path.suffix == ".json"
    if spec["kind"] == "items":
        _dump_state(path, [tuple(x) for x in spec["items"]])
    elif spec["kind"] == "broken":
        path.write_text("{not json" if js else "a: [unclosed\nb: 1\n")
    elif spec["kind"] == "nonmap":
        path.write_text("[1, 2]" if js else "- a\n- b\n")
    else:
        path.write_text("{}" if js else "# nothing here\n")


def _read_loc(path: Path):
    """None (absent) / "broken" (no loader yields a mapping) / ordered [key, value] pairs (an empty YAML document is an empty mapping)"""
    if not path.exists():
        return None
    try:
        d = json.loads(path.read_text()) if path.suffix == ".json" else impl()["yaml"].safe_load(path.read_text())
    except Exception:  # noqa: BLE001
        return "broken"
    if d is None and path.suffix != ".json":
        d = {}
    if not isinstance(d, dict):
        return "broken"
    return [[k, v] for k, v in d.items()]


def run_loc(case):
    m = impl()
    with scratch_dir("tv-c20l-") as d:
        (d / "home").mkdir()
        paths = _loc_paths(d)
        for spec, (ctl, p) in zip(case["files"], paths):
            if ctl:
                _write_loc_file(p, spec)
        uncontrolled = [str(p) for ctl, p in paths if not ctl and p.exists()]
        snap = lambda: [(_read_loc(p) if ctl else None) for ctl, p in paths]          # noqa: E731
        raw = lambda: [(p.read_bytes() if p.exists() else None) for ctl, p in paths]  # noqa: E731
        state0 = snap()
        steps = []
        saved = list(m["scfg"].CONFIG_LOCATIONS)
        try:
            if case["via"] != "cli":
                m["scfg"].CONFIG_LOCATIONS[:] = [p for _, p in paths]
            for c in case["cmds"]:
                before = raw()
                args = ["config", c[0]] + (["--yes"] if c[0] == "reset" else ["--", *c[1:]])
                if case["via"] == "cli":
                    rc, so, se = run_cli(args, cwd=d, home=d / "home")
                else:
                    rr = m["runner"](mix_stderr=False).invoke(m["cli"], args) if _mix_ok() else m["runner"]().invoke(m["cli"], args)
                    rc, so, se = rr.exit_code, rr.stdout, ""
                    if rr.exception is not None and not isinstance(rr.exception, SystemExit):
                        se = "EXC " + repr(rr.exception)
                after = raw()
                steps.append({"rc": rc, "out": so, "err": se[-300:], "state": snap(), "bytes_same": [a == b for a, b in zip(before, after)]})
        finally:
            m["scfg"].CONFIG_LOCATIONS[:] = saved
        return {"state0": state0, "steps": steps, "uncontrolled": uncontrolled, "where": [str(p.relative_to(d)) if ctl else str(p) for ctl, p in paths]}


def clstate(sts):
    """Coq term for the file states of all locations, or None when a value left the modelled domain"""
    out = []
    for st in sts:
        if st is None:
            out.append("LAbsent")
        elif st == "broken":
            out.append("LBroken")
        else:
            c = cstate(st)
            if c is None:
                return None
            out.append("(LFile " + c[len("(Some "):])
    return coq.coq_list(out)


def coq_loc(case, res):
    f0 = clstate(res["state0"])
    if f0 is None or res["uncontrolled"]:
        return None
    cmds, obs = [], []
    for c, s in zip(case["cmds"], res["steps"]):
        cmds.append(f"CSet {cs(c[1])} {cs(c[2])}" if c[0] == "set" else (f"CGet {cs(c[1])}" if c[0] == "get" else "CReset"))
        st = clstate(s["state"])
        if st is None:
            return None
        out = s["out"][:-1] if s["out"].endswith("\n") else s["out"]
        o = "None" if (c[0] == "reset" or s["rc"] != 0) else f"(Some {cs(out)})"
        obs.append(f"(Build_lobs {s['rc'] % 256} {o} {st})")
    return f"judge_loc cfgtool_actual {f0} {coq.coq_list(cmds)} {coq.coq_list(obs)}"


def py_loc_oracle(case, res):
    """the property on a history without --config, stated on the files at all known locations and independent of the search order
    of the code: rejected set / get change no file anywhere; every file an accepted set changes is readable, valid as documented
    after loading and holds the accepted value, and some location holds it; a later get prints it"""
    m = impl()
    fails = []
    exp = {}
    for n, (c, s) in enumerate(zip(case["cmds"], res["steps"])):
        if s["err"].startswith("EXC"):
            fails.append(f"step {n}: internal exception {s['err']}")
        changed = [j for j, same in enumerate(s["bytes_same"]) if not same]
        if c[0] == "set":
            if s["rc"] != 0:
                if changed:
                    fails.append(f"step {n}: rejected `set {c[1]} {c[2]!r}` changed the file at {[res['where'][j] for j in changed]}")
                continue
            want = spec_convert(c[2])
            holders = 0
            for j, st in enumerate(s["state"]):
                if not isinstance(st, list):
                    if j in changed:
                        fails.append(f"step {n}: accepted set left no readable mapping at {res['where'][j]} ({st})")
                    continue
                got = norm_cfg(dict((k, v) for k, v in st)).get(nk(c[1]), "<absent>")
                holds = repr(got) == repr(want) and type(got) is type(want)
                holders += holds
                if j in changed:
                    loaded = m["scfg"].merge_configs(m["scfg"].DEFAULT_CONFIG.copy(), norm_cfg(dict((k, v) for k, v in st)))
                    bad = doc_invalid(loaded)
                    if bad:
                        fails.append(f"step {n}: file {res['where'][j]} written by `set {c[1]} {c[2]!r}` is not valid as documented: {bad}")
                    if not holds:
                        fails.append(f"step {n}: value of {c[1]} in {res['where'][j]} after save/load is {got!r}, accepted {want!r}")
            if not holders:
                fails.append(f"step {n}: accepted `set {c[1]} {c[2]!r}` is stored at no location")
            exp[nk(c[1])] = str(want)
        elif c[0] == "get":
            if changed:
                fails.append(f"step {n}: get changed the file at {[res['where'][j] for j in changed]}")
            if nk(c[1]) in exp:
                out = s["out"][:-1] if s["out"].endswith("\n") else s["out"]
                if s["rc"] != 0 or out != exp[nk(c[1])]:
                    fails.append(f"step {n}: `get {c[1]}` gives rc={s['rc']} out={out!r}, accepted value was {exp[nk(c[1])]!r}")
        elif s["rc"] == 0:
            exp = {}
    return fails


def decide_loc(chk, case, res, ver, cands_all):
    fails = py_loc_oracle(case, res)
    sets = [(c, s) for c, s in zip(case["cmds"], res["steps"]) if c[0] == "set"]
    acc = sum(1 for _, s in sets if s["rc"] == 0)
    rej = sum(1 for _, s in sets if s["rc"] != 0)
    present = sum(1 for f in case["files"] if f is not None)
    chk.count(["loc", case["files"], case["cmds"]], acc >= 1 and present >= 1)
    chk.dist("stream:loc")
    chk.dist("loc.via:" + case["via"])
    chk.dist("loc.files_present", present)
    for f in case["files"]:
        chk.dist("loc.file:" + ("absent" if f is None else f["kind"]))
    chk.dist("loc.sets_accepted", acc)
    chk.dist("loc.sets_rejected", rej)
    chk.sample({"stream": "loc", "locations": res["where"], "files": case["files"], "cmds": case["cmds"],
                "observed": [[s["rc"], s["out"].strip()[:60]] for s in res["steps"]]}, 3)
    info = {"case": case, "locations": res["where"],
            "observed": [{"rc": s["rc"], "out": s["out"][:200], "state": s["state"], "bytes_same": s["bytes_same"]} for s in res["steps"]]}
    if res["uncontrolled"]:
        note = f"loc stream: a system-wide configuration file exists ({res['uncontrolled']}); default-location histories are judged by the Python oracle only"
        if note not in chk.notes:
            chk.notes.append(note)
    if ver is not None and not bool(ver[3][0]):
        ver = None
    if ver is None:
        chk.dist("loc.no_model_verdict")
        nan_sets = [n for n, c in enumerate(case["cmds"]) if c[0] == "set" and nk(c[1]) == "timeout" and _is_nan(spec_convert(c[2]))]
        rest = [f for f in fails if not any(f.startswith(f"step {n}:") and "not valid as documented" in f and "timeout nan" in f for n in nan_sets)]
        if fails and not rest:
            chk.known_finding("timeout_nan_accepted", {"mode": "default locations", "files": case["files"], "cmds": case["cmds"], "failures": fails[:3]})
        elif fails:
            chk.violation({"reason": "config set/get history over the default locations violates the property (no model verdict): " + "; ".join(rest[:3]), **info})
        return cands_all
    chk.traces_validated += len(case["cmds"])
    spec_bits, ideal_ok, cand = [bool(b) for b in ver[0]], bool(ver[1][0]), [bool(b) for b in ver[2]]
    cands_all = cand if cands_all is None else [a and b for a, b in zip(cands_all, cand)]
    coq_ok = all(spec_bits) and len(spec_bits) == len(case["cmds"])
    if coq_ok != (not fails):
        chk.correspondence_broken({"level": "spec", "detail": "trace specification over the default locations: Coq and the Python oracle disagree",
                                   "python_failures": fails, "coq_bits": spec_bits, **info})
        return cands_all
    if not fails:
        if not any(cand):
            chk.correspondence_broken({"level": "observable", "detail": "default-location history satisfies the specification but matches no candidate model "
                                                                        "(Model/CfgLoc.v: search order, skipping of unreadable / invalid files, save location)", **info})
        return cands_all
    info["reason"] = "config set/get history without --config violates the property: " + "; ".join(fails[:3])
    if cand[0] and ideal_ok and not cand[2] and "q_cli_raw_key" in chk.known["known"]:
        chk.known_finding("q_cli_raw_key", {"mode": "default locations", "files": case["files"], "cmds": case["cmds"], "failures": fails[:3]})
    else:
        info["model_actual_matches_impl"] = cand[0]
        info["model_ideal_meets_spec"] = ideal_ok
        chk.violation(info)
    return cands_all


FLOAT_RE = re.compile(r"^(-?)(\d+)\.(\d+)$")


def cval(v):
    """Coq term for a Python configuration value; None when outside the modelled value domain"""
    if isinstance(v, bool):
        return f"(VBool {coq.coq_bool(v)})"
    if isinstance(v, int):
        return f"(VInt ({v})%Z)"
    if isinstance(v, float):
        m = FLOAT_RE.match(repr(v))
        if not m:
            return None
        return f'(VFloat {coq.coq_bool(m.group(1) == "-")} "{m.group(2)}" "{m.group(3)}")'
    if isinstance(v, str):
        return f"(VStr {cs(v)})"
    return None


def cstate(st):
    if st is None:
        return "None"
    if isinstance(st, str):
        return None
    items = []
    for k, v in st:
        c = cval(v)
        if c is None or not isinstance(k, str):
            return None
        items.append(f"({cs(k)}, {c})")
    return "(Some " + coq.coq_list(items) + ")"


def coq_hist(case, res):
    """Coq term, or None when a value left the modelled domain (then only the Python oracle applies)"""
    f0 = cstate(res["state0"])
    if f0 is None:
        return None
    cmds, obs = [], []
    for c, s in zip(case["cmds"], res["steps"]):
        if c[0] == "set":
            cmds.append(f"CSet {cs(c[1])} {cs(c[2])}")
        elif c[0] == "get":
            cmds.append(f"CGet {cs(c[1])}")
        else:
            cmds.append("CReset")
        st = cstate(s["state"])
        if st is None:
            return None
        out = s["out"][:-1] if s["out"].endswith("\n") else s["out"]
        if c[0] == "reset" or s["rc"] != 0:
            o = "None"
        else:
            o = f"(Some {cs(out)})"
        obs.append(f"(Build_obs {s['rc'] % 256} {o} {st})")
    if case["mode"] in SUFFIX_MODES:
        return f"judge_path cfgtool_actual {cs(Path(MODE_FILES[case['mode']]).suffix)} {f0} {coq.coq_list(cmds)} {coq.coq_list(obs)}"
    return (f"judge_hist cfgtool_actual {coq.coq_bool(case['mode'] != 'default')} {f0} {coq.coq_list(cmds)} {coq.coq_list(obs)}")


def _is_nan(v) -> bool:
    return isinstance(v, float) and v != v


def spec_convert(t: str):
    """the documented conversion of `config set` values, independent of the repo's helper: booleans, integers, decimals, text"""
    if t.lower() in ("true", "false"):
        return t.lower() == "true"
    for conv in (int, float):
        try:
            return conv(t)
        except ValueError:
            pass
    return t


DOC_LEVELS = ["DEBUG", "INFO", "WARNING", "ERROR", "CRITICAL"]
DOC_FORMATS = ["text", "json", "yaml"]


def doc_invalid(cfg: dict) -> list:
    """validity of a loaded configuration AS DOCUMENTED (error messages of src/config.py, docs/cli-reference.md), written
    independently of the repo's validators: required app_name / log_level; log_level a logging level name; output_format
    text|json|yaml; max_retries a non-negative integer; timeout a positive number; app_name a non-empty string"""
    bad = []
    for k in ("app_name", "log_level"):
        if k not in cfg:
            bad.append(f"{k} missing")
    if "log_level" in cfg and cfg["log_level"] not in DOC_LEVELS:
        bad.append(f"log_level {cfg['log_level']!r} is not a level name")
    if "output_format" in cfg and cfg["output_format"] not in DOC_FORMATS:
        bad.append(f"output_format {cfg['output_format']!r} is not text/json/yaml")
    if "max_retries" in cfg:
        v = cfg["max_retries"]
        if not isinstance(v, int) or not v >= 0:
            bad.append(f"max_retries {v!r} is not a non-negative integer")
    if "timeout" in cfg:
        v = cfg["timeout"]
        if not isinstance(v, (int, float)) or not v > 0:
            bad.append(f"timeout {v!r} is not a positive number")
    if "app_name" in cfg:
        v = cfg["app_name"]
        if not isinstance(v, str) or not v.strip():
            bad.append(f"app_name {v!r} is not a non-empty string")
    return bad


def marker_ok_py(text: str) -> bool:
    """Python twin of Proofs/CfgMergeText.v marker_ok: the GLOBAL SETTINGS banner (if any) stands at an entry boundary"""
    lines = text.split("\n")
    for i in range(len(lines) - 1):
        if lines[i].endswith(MARK1) and lines[i + 1].startswith(MARK2):
            for l in lines[i + 1:]:
                s = l.rstrip()
                if not s or s.lstrip(" ").startswith("#"):
                    continue
                cont = s.startswith(" ") or s == "-" or s.startswith("- ")
                return (not cont) and s != "---"
            return True
    return True


def outside_defect_classes(text: str, d: dict, spelling_is_listed: bool = True) -> bool:
    """spelling_ok, is_block and marker_ok of theorem C20_init_config_partial: on such a file even the faithful model meets the
    specification, so a failure there cannot be one of the listed findings"""
    ls = linter_sections()
    nls = {nk(n) for n in ls}
    spelling = (not spelling_is_listed) or all(nk(k) not in nls or k in ls for k in d)
    return spelling and not is_flow(text) and marker_ok_py(text)


def py_hist_oracle(case, res):
    """the property stated directly with the repo's own validator and loader; list of failure texts"""
    m = impl()
    fails = []
    exp = {}
    seen = {}   # normalised key -> (rc, stdout) of the latest get, dropped when an accepted set of the key / a reset intervenes
    for n, (c, s) in enumerate(zip(case["cmds"], res["steps"])):
        if s["err"].startswith("EXC"):
            fails.append(f"step {n}: internal exception {s['err']}")
        if c[0] == "set":
            if s["rc"] != 0:
                if not s["bytes_same"]:
                    fails.append(f"step {n}: rejected `set {c[1]} {c[2]!r}` changed the file")
            else:
                st = s["state"]
                if not isinstance(st, list):
                    fails.append(f"step {n}: accepted set left no readable file ({st})")
                    continue
                loaded = m["scfg"].merge_configs(m["scfg"].DEFAULT_CONFIG.copy(), norm_cfg(dict((k, v) for k, v in st)))
                bad = doc_invalid(loaded)
                if bad:
                    fails.append(f"step {n}: file written by `set {c[1]} {c[2]!r}` is not valid as documented: {bad}")
                want = spec_convert(c[2])
                got = norm_cfg(dict((k, v) for k, v in st)).get(nk(c[1]), "<absent>")
                if repr(got) != repr(want) or type(got) is not type(want):
                    fails.append(f"step {n}: value of {c[1]} after save/load is {got!r}, accepted {want!r}")
                exp[nk(c[1])] = str(want)
                seen.pop(nk(c[1]), None)
        elif c[0] == "get":
            if not s["bytes_same"]:
                fails.append(f"step {n}: get changed the file")
            if nk(c[1]) in seen and seen[nk(c[1])] != (s["rc"], s["out"]):
                fails.append(f"step {n}: `get {c[1]}` changed from {seen[nk(c[1])]} to {(s['rc'], s['out'])} although no set of it was accepted in between (get unchanged)")
            seen[nk(c[1])] = (s["rc"], s["out"])
            if nk(c[1]) in exp and s["rc"] != 2:
                out = s["out"][:-1] if s["out"].endswith("\n") else s["out"]
                if s["rc"] != 0 or out != exp[nk(c[1])]:
                    fails.append(f"step {n}: `get {c[1]}` gives rc={s['rc']} out={out!r}, accepted value was {exp[nk(c[1])]!r}")
        else:
            if s["rc"] == 0:
                exp = {}
                seen = {}
    return fails


# ------------------------------------------------------------------ unit streams
CONV_TEXTS = ["true", "True", "TRUE", "false", "FALSE", "tRuE", "0", "7", "007", "-7", "+7", "-0", "00", "123456789012345678901234567890",
              "1.5", "1.50", "01.5", "-0.0", "+2.0", "0.0001", "0.00001", "123456789.123456", "1234567890123456.5", "0.1", "100.0",
              "", " ", "  ", "abc", "Hello there", "nan", "NaN", "inf", "Infinity", "-inf", "infinit", "nano", "1e5", "1_000", " 7", "7 ",
              "0x1F", ".5", "5.", "1.5.2", "--1", "+-1", "/tmp/x", "a=b", "key: value", "#tag", "[1, 2]", "{a: 1}", "yes", "on", "null",
              "~", "t", "truee", " true", "\u00e9t\u00e9", "1\u00b2", "\uff17", "1,5", "1 000"]


def gen_conv_texts(seed, n):
    out = list(CONV_TEXTS)
    for i in range(n):
        r = rng_for(seed, PROP, "conv", i)
        k = r.random()
        if k < 0.3:
            s = r.choice(["", "-", "+"]) + "0" * r.choice([0, 0, 1, 3]) + str(r.randint(0, 10 ** r.randint(1, 18)))
        elif k < 0.6:
            s = (r.choice(["", "-", "+"]) + "0" * r.choice([0, 0, 2]) + str(r.randint(0, 10 ** r.randint(1, 9))) + "."
                 + "0" * r.choice([0, 0, 1, 3, 4]) + str(r.randint(0, 10 ** r.randint(1, 7))) + "0" * r.choice([0, 0, 2]))
        elif k < 0.7:
            s = "".join(r.choice("tTrRuUeEfFaAlLsS") for _ in range(r.randint(4, 5)))
        else:
            s = "".join(r.choice("abcXYZ nif/_-.:#1e+") for _ in range(r.randint(0, 8)))
        out.append(s)
    return out


def run_conv(t):
    v = impl()["ccfg"]._convert_value_type(t)
    return v


def gen_xtr_case(seed, i):
    r = rng_for(seed, PROP, "xtr", i)
    lines = template_text(r.choice(PRESETS)).split("\n")
    ls = linter_sections()
    k = r.random()
    if k < 0.3:
        a, b = sorted([r.randrange(len(lines)), r.randrange(len(lines))])
        lines = lines[:a] + lines[b:]
    elif k < 0.6:
        lines = [r.choice(lines + [n + ":" for n in ls] + ["# ===", "", "   ", "text", "  # c", "\t# tab", "#", "# === x", "other:", "Nesting:", "nesting: ", "srp:\r"])
                 for _ in range(r.randint(0, 40))]
    else:
        for _ in range(r.randint(1, 6)):
            at = r.randrange(len(lines) + 1)
            lines[at:at] = [r.choice([n + ":" for n in ls] + ["# ====", "x: 1", "", "   ", "# c", "\x0c", "srp_:", "dry :"])]
    return {"stream": "xtr", "i": i, "lines": lines}


def run_xtr(case):
    d = impl()["cm"].extract_linter_sections("\n".join(case["lines"]))
    return [[k, v.split("\n")] for k, v in d.items()]


def gen_mfn_case(seed, i):
    r = rng_for(seed, PROP, "mfn", i)
    if r.random() < 0.5:
        d = gen_block_doc(r)
        place_marker(r, d)
        text = finish_text(r, d["lines"])
    else:
        atoms = ["a: 1", "  b: 2", "", " ", "\t", "\r", "x\r", "# c", MARK1, MARK2, MARK2 + " tail", "  " + MARK1, "k: v  " + MARK1, MARK1 + " ", "=" * 3,
                 "\x0c", "\x1f", "\x0b", "end  ", "caf\u00e9", "\x85x"]
        text = "\n".join(r.choice(atoms) for _ in range(r.randint(0, 12)))
        text += r.choice(["", "\n", "\n\n", " \t\n", "\r\n", "\x0c", "\n \n\t\n"])
    texts = []
    for _ in range(r.randint(1, 3)):
        texts.append("\n".join(r.choice([MARK1, "# about", "sec:", "  enabled: true", "", "  # c"]) for _ in range(r.randint(1, 5))))
    return {"stream": "mfn", "i": i, "text": text, "texts": texts}


def run_mfn(case):
    return impl()["cm"].merge_config_sections(case["text"], {f"s{j}": t for j, t in enumerate(case["texts"])})


# ------------------------------------------------------------------ fresh file per preset accepted by every linter command
SAMPLE_FILES = {
    "src/a.py": "import os\n\n\nclass A:\n    def f(self, x):\n        for i in range(50):\n            if x:\n                print(i)\n        return 4242\n",
    "src/b.ts": "export function g(x: number): number {\n  if (x > 3600) { console.log(x); }\n  return x * 17;\n}\n",
    "src/m.rs": "fn main() {\n    let x = foo().unwrap();\n    let y = x.clone();\n}\n",
}


def linter_commands():
    m = impl()
    skip = {"config", "init-config", "hello"}
    return sorted(c for c in m["cli"].commands if c not in skip)


def run_preset_cmd(job):
    preset, cmd = job
    with scratch_dir("tv-c20p-") as d:
        rc0, so0, se0 = run_cli(["init-config", "--non-interactive", "--preset", preset], cwd=d, home=d)
        text = (d / ".thailint.yaml").read_text() if (d / ".thailint.yaml").exists() else None
        if cmd is None:
            # --force over an existing (here: unparsable) file must give the same fresh text
            (d / "old.yaml").write_text("nesting: {enabled: false}\n[broken\n")
            rc1, so1, se1 = run_cli(["init-config", "--non-interactive", "--force", "--preset", preset, "--output", "old.yaml"], cwd=d, home=d)
            forced = (d / "old.yaml").read_text()
            return {"preset": preset, "cmd": None, "rc": rc0, "text": text, "err": se0[-300:], "rc_force": rc1, "text_force": forced}
        for rel, body in SAMPLE_FILES.items():
            (d / rel).parent.mkdir(parents=True, exist_ok=True)
            (d / rel).write_text(body)
        rc, so, se = run_cli([cmd, "."], cwd=d, home=d, timeout=180)
        return {"preset": preset, "cmd": cmd, "rc": rc, "out": so[-300:], "err": se[-600:]}


# ------------------------------------------------------------------ corpus
def corpus_cases():
    out = []
    d = VERIF / "corpus" / PROP
    for p in sorted(d.glob("*.json")):
        c = json.loads(p.read_text())
        c["i"] = "corpus:" + p.stem
        c.setdefault("via", "cli")
        if c["stream"] == "init":
            c.setdefault("kind", "corpus")
            c.setdefault("marker", "corpus")
        out.append(c)
    return out


def _dispatch(case):
    s = case["stream"]
    if s == "init":
        return run_init(case)
    if s == "hist":
        return run_hist(case)
    if s == "xtr":
        return run_xtr(case)
    if s == "mfn":
        return run_mfn(case)
    if s == "loc":
        return run_loc(case)
    if s == "entry":
        return run_entry(case)
    raise ValueError(s)


def load_known_local(chk):
    """known.d/C20.json is this property's part of known_findings.json (assembled by tools/mkmanifest.py)"""
    p = VERIF / "known.d" / f"{PROP}.json"
    if p.exists():
        for f in json.loads(p.read_text()).get("findings", []):
            if f.get("property") == PROP:
                bucket = "known" if f.get("status") == "known" else "fixed"
                chk.known["known"].pop(f["key"], None)
                chk.known["fixed"].pop(f["key"], None)
                chk.known[bucket][f["key"]] = f


# ------------------------------------------------------------------ the check
def run(tier: str, seed: int, replay: str | None = None) -> int:
    chk = Check(PROP, tier, seed)
    load_known_local(chk)
    chk.rule = (
        "init: seeded existing .thailint.yaml files (block documents with any subset of linter sections in hyphen/underscore spelling, extra keys, "
        "comments, blank lines, `---`, quoted keys, inline/flow/block values, block scalars (nested and top-level, with blank and `#` content lines; files ending inside a keep-chomped / space-ended block scalar), column-0 sequences, trailing-whitespace variants, the GLOBAL SETTINGS banner at an entry "
        "boundary / at position 0 / inside an entry / mid-line / before `---` / as decoy; edited copies of generated files; flow-style roots; roots indented as a whole; empty and "
        "invalid files) x preset x entry point (`--non-interactive --preset p`, or the interactive prompt answered on stdin: plain Enter = default, a preset name, an answer that is no preset followed by a valid one), `init-config` run twice; plus --force / no-file runs through both entry points (fresh file); non-trivial = a valid file with at least one entry from which at least "
        "one section is missing.  hist: histories of 3-9 config set/get/reset commands on ./config.yaml (real CLI) or --config x.yaml / x.json over an absent / valid / "
        "invalid / hyphen-keyed file, values drawn per key from valid, invalid and re-typed texts, PLUS a deterministic boundary stream: for every validated key "
        "(timeout, max_retries, log_level, output_format, app_name) every boundary text (bound-1, bound, bound+1 as int and float text, signed zeros, very large, "
        "non-numeric, empty, nan/inf) on a yaml and a json file; oracle: rejected => file byte-identical and get unchanged, accepted => get returns it and the "
        "loaded file is valid AS DOCUMENTED (written independently of src/config.py); non-trivial = at least one accepted and one rejected "
        "or re-read set; plus histories on --config FILE with other suffixes (.yml, .YAML, .JSON, .Yml, .toml, none: loader / writer acceptance differ).  loc: histories of the same commands WITHOUT --config over the default-location chain - ./config.yaml, ./config.json, "
        "~/.config/<name>/config.yaml and .json each absent / valid / failing validation / unreadable / not a mapping / empty, in any combination "
        "(in-process with CONFIG_LOCATIONS mapped into a scratch tree in source order, a fraction through the real CLI with cwd and HOME redirected); "
        "oracle stated on the files at all locations, independent of the search order; non-trivial = at least one accepted set with at least one file present.  Unit streams: _convert_value_type, extract_linter_sections on mutated templates, merge_config_sections on arbitrary text. "
        "distinct = distinct (input, commands)")
    chk.trusted_base += [
        "PyYAML is the judge of YAML validity and of the value of an entry; the model's line-structured subset (Model/CfgMerge.v: analyse/eff) is validated against it "
        "on every generated file: the 7 specification bits are computed in Coq and with PyYAML + the repo's _normalize_config_keys and must agree",
        "Python str primitives behind the line-level model (split/join on newline, str.find of a two-line marker, str.rstrip, str.replace, str.startswith) - "
        "validated by the unit-level stream on arbitrary text including control characters",
        "int()/float()/str() of Python and yaml.dump/safe_load, json.dump/load round trips are library oracles: conv_domain texts are checked against "
        "_convert_value_type, saved files are re-read with the real loaders on every step",
        "default locations: the system-wide entry of CONFIG_LOCATIONS (/etc/...) cannot be populated in the sandbox and is taken as absent (checked on every case); "
        "the in-process runs replace the entries of src.config.CONFIG_LOCATIONS by scratch paths of the same relative shape and order, the CLI runs do not",
        "click option parsing, file I/O; acceptance of the generated file by every linter command is validated through the real CLI only",
    ]
    chk.build(["theories/Props/C20.v"], ["CfgToolGen"], known_v=["theories/Props/C20Known.v"])
    # larger search when something of this property broke or its hand-modelled sources changed (other properties'
    # fingerprints do not count here)
    from translator import items_cfgtool
    mine = {rel for rel, _ in items_cfgtool.FINGERPRINTS}
    changed = [k for k in chk.fingerprint_changed if k.split("::")[0] in mine]
    scale = 4 if chk.broken else (3 if changed else 1)
    quick = tier == "quick"
    frac = float(os.environ.get("C20_DEBUG_FRACTION", "1"))   # development aid only
    scale = scale * frac
    n_init = (150 if quick else 1500) * scale
    n_hist = (100 if quick else 1300) * scale
    n_conv = (300 if quick else 3000) * scale
    n_xtr = (24 if quick else 240) * scale
    n_mfn = (120 if quick else 1200) * scale
    n_loc = (120 if quick else 1500) * scale
    n_path = (60 if quick else 600) * scale
    n_init, n_hist, n_conv, n_xtr, n_mfn, n_loc, n_path = (int(x) for x in (n_init, n_hist, n_conv, n_xtr, n_mfn, n_loc, n_path))
    procs = int(os.environ.get("C20_PROCS", "8"))

    with scratch_dir("tv-c20-home-") as home:
        os.environ["C20_HOME"] = str(home)
        impl()
        if replay:
            payload = json.loads(Path(replay).read_text()).get("violation") or {}
            cases = [payload["case"]] if "case" in payload else []   # none: the proofs / preset runs are re-checked
        else:
            cases = corpus_cases()
            cases += [gen_init_case(seed, i) for i in range(n_init)]
            cases += boundary_cases()
            cases += [gen_hist_case(seed, i) for i in range(n_hist)]
            cases += [gen_xtr_case(seed, i) for i in range(n_xtr)]
            cases += [gen_mfn_case(seed, i) for i in range(n_mfn)]
            cases += [gen_loc_case(seed, i) for i in range(n_loc)]
            cases += [gen_path_case(seed, i) for i in range(n_path)]
            cases += [gen_entry_case(seed, i) for i in range(int((30 if quick else 300) * scale))]
        results = pool_map(_dispatch, cases, procs=procs)
        conv_texts = [] if replay else gen_conv_texts(seed, n_conv)
        conv_vals = [run_conv(t) for t in conv_texts]
        if replay and cases:
            preset_jobs = []
        elif quick and not replay:
            # the presets differ in the magic-numbers section only: every command on one preset (chosen by the seed),
            # the fresh file and the magic-numbers command on all of them; the thorough tier runs the full product
            p0 = PRESETS[seed % len(PRESETS)]
            preset_jobs = [(p, None) for p in PRESETS] + [(p0, c) for c in linter_commands()] + \
                          [(p, "magic-numbers") for p in PRESETS if p != p0]
        else:
            preset_jobs = [(p, c) for p in PRESETS for c in [None] + linter_commands()]
        preset_res = pool_map(run_preset_cmd, preset_jobs, procs=procs)

        # ---- Coq evaluation
        terms, owners = [], []
        for idx, (case, res) in enumerate(zip(cases, results)):
            s = case["stream"]
            if s == "init":
                terms.append(coq_init(case, res))
            elif s == "hist":
                t = coq_hist(case, res)
                if t is None:
                    continue
                terms.append(t)
            elif s == "xtr":
                impl_secs = coq.coq_list([f"({cs(k)}, {coq.coq_list([cs(l) for l in v])})" for k, v in res])
                terms.append(f"judge_extract {coq.coq_list([cs(l) for l in case['lines']])} {impl_secs}")
            elif s == "mfn":
                texts = coq.coq_list([clines(t) for t in case["texts"]])
                terms.append(f"judge_mergefn cfgtool_actual {clines(case['text'])} {texts} {clines(res)}")
            elif s == "loc":
                t = coq_loc(case, res)
                if t is None:
                    continue
                terms.append(t)
            elif s == "entry":
                if res["text"] is None:
                    continue
                terms.append(f"judge_fresh {entry_preset_term(case)} {clines(res['text'])}")
            owners.append(idx)
        conv_idx = []
        for j, (t, v) in enumerate(zip(conv_texts, conv_vals)):
            c = cval(v)
            if c is None:
                c = '(VStr "<outside the modelled value domain>")'
            terms.append(f"judge_conv {cs(t)} {c}")
            conv_idx.append(j)
        fresh_idx = []
        for j, (job, pr) in enumerate(zip(preset_jobs, preset_res)):
            if pr["cmd"] is None and pr.get("text") is not None:
                for which in ("text", "text_force"):
                    terms.append(f"judge_fresh {cs(pr['preset'])} {clines(pr[which])}")
                    fresh_idx.append((j, which))
        verdict = {}
        conv_verdict = {}
        fresh_verdict = {}
        with scratch_dir("tv-c20-coq-") as wd:
            try:
                # heavy init terms first in small shards, the light ones in larger shards
                heavy = [k for k, i in enumerate(owners) if cases[i]["stream"] == "init"]
                light = [k for k in range(len(terms)) if k not in set(heavy)]
                # at most ~40 init cases per shard (a shard of 100+ cases exceeds the per-file time limit on a busy machine)
                shard_limit = 900 if quick else 2700
                hv = eval_all([terms[k] for k in heavy], wd / "h", min(40, max(8, -(-len(heavy) // 14))), shard_limit) if heavy else []
                lv = eval_all([terms[k] for k in light], wd / "l", 60, shard_limit) if light else []
                allv = {}
                allv.update(dict(zip(heavy, hv)))
                allv.update(dict(zip(light, lv)))
                for k, v in allv.items():
                    if k < len(owners):
                        verdict[owners[k]] = v
                    elif k < len(owners) + len(conv_idx):
                        conv_verdict[conv_idx[k - len(owners)]] = v
                    else:
                        fresh_verdict[fresh_idx[k - len(owners) - len(conv_idx)]] = v
            except RuntimeError as e:
                chk.broken.append(f"Model:evaluation of the C20 models failed ({str(e)[:600]})")

    # ---- decisions
    init_cands = None
    hist_cands = None
    loc_cands = None
    for idx, (case, res) in enumerate(zip(cases, results)):
        s = case["stream"]
        ver = verdict.get(idx)
        if s == "init":
            init_cands = decide_init(chk, case, res, ver, init_cands)
        elif s == "hist":
            hist_cands = decide_hist(chk, case, res, ver, hist_cands)
        elif s == "loc":
            loc_cands = decide_loc(chk, case, res, ver, loc_cands)
        elif s == "entry":
            decide_entry(chk, case, res, ver)
        elif s in ("xtr", "mfn"):
            chk.dist("stream:" + s)
            chk.count([s, case["lines"] if s == "xtr" else [case["text"], case["texts"]]], True)   # an xtr case may have no line at all
            if ver is None:
                continue
            chk.traces_validated += 1
            if not ver[0]:
                chk.correspondence_broken({"level": "unit", "stream": s, "case": case, "impl": res,
                                           "detail": "extract_linter_sections / merge_config_sections disagree with Model/CfgMerge.v"})
    n_dom = 0
    for j, (t, v) in enumerate(zip(conv_texts, conv_vals)):
        ver = conv_verdict.get(j)
        chk.dist("stream:conv")
        if ver is None:
            continue
        in_dom, eq = bool(ver[0]), bool(ver[1])
        n_dom += in_dom
        chk.count(["conv", t], in_dom)
        chk.traces_validated += 1
        chk.dist("conv:in_domain" if in_dom else "conv:outside_domain")
        if in_dom and not eq:
            chk.correspondence_broken({"level": "unit", "stream": "conv", "text": t, "impl": repr(v),
                                       "detail": "_convert_value_type disagrees with Model/CfgCli.v convert on a text of conv_domain"})
    for job, pr in zip(preset_jobs, preset_res):
        chk.dist("stream:preset")
        chk.count(["preset", job[0], job[1]], True)
        if pr["cmd"] is None:
            ok = pr["rc"] == 0 and pr["text"] is not None and yroot(pr["text"]) is not None
            if not ok:
                chk.violation({"reason": f"the file generated for preset {pr['preset']} is not a valid YAML mapping (rc={pr['rc']})", "detail": pr})
            j = preset_jobs.index(job)
            for which in ("text", "text_force"):
                fv = fresh_verdict.get((j, which))
                if fv is None:
                    continue
                chk.traces_validated += 1
                chk.dist("fresh:" + ("new file" if which == "text" else "--force over an existing file"))
                if not (bool(fv[0]) and bool(fv[1])):
                    chk.correspondence_broken({"level": "observable", "preset": pr["preset"], "how": which, "exit": pr["rc"] if which == "text" else pr.get("rc_force"),
                                               "detail": "the file init-config writes for the preset is not the model's gen_content (template with the preset's "
                                                         "placeholders substituted) - theorem C20_fresh_files is about another text", "text_head": pr[which][:400]})
        elif pr["rc"] not in (0, 1) or "Traceback" in pr["err"]:
            chk.violation({"reason": f"linter command `{pr['cmd']}` does not accept the file generated for preset {pr['preset']} (exit {pr['rc']})", "detail": pr})
    note_cands(chk, "init-config", init_cands, ["actual"] + [f"actual without {f}" for f in INIT_FLAGS] + ["ideal"])
    note_cands(chk, "config set/get", hist_cands, ["actual", "actual without q_cli_raw_key", "ideal"])
    note_cands(chk, "config set/get over the default locations", loc_cands, ["actual", "actual without q_cli_raw_key", "ideal"])
    return chk.finish()


def decide_entry(chk, case, res, ver):
    """--force / no file yet: whatever the entry point, the file must be the generated file of the chosen preset"""
    how = "prompt" if case.get("answers") is not None else "flag"
    chk.dist("stream:entry")
    chk.dist(f"entry:{how}/{'force' if case['force'] else 'no-force'}/{'file' if case['existing'] is not None else 'no-file'}")
    chk.count(["entry", case.get("default"), case.get("answers"), case["preset"], case["force"], case["existing"]], how == "prompt")
    info = {"case": case, "exit": res["rc"], "stdout": res["out"], "text_head": (res["text"] or "")[:300]}
    if res["err"].startswith("EXC"):
        chk.violation({"reason": "init-config crashed", "detail": res["err"], **info})
        return
    want = template_text(case["preset"])
    if res["rc"] != 0 or res["text"] != want or yroot(res["text"]) is None:
        chk.violation({"reason": f"init-config ({how}, force={case['force']}) did not write the generated file of preset {case['preset']} (exit {res['rc']})", **info})
        return
    if ver is None:
        return
    chk.traces_validated += 1
    if not (bool(ver[0]) and bool(ver[1])):
        chk.correspondence_broken({"level": "observable", "detail": "fresh file: the text written is not the model's gen_content for the preset the model's entry point "
                                                                    "(Model/CfgEntry.v: flag or prompt) chooses", **info})


def note_cands(chk, what, cands, names):
    if cands is not None and not cands[0]:
        alt = [i for i, ok in enumerate(cands) if ok]
        if alt:
            chk.notes.append(f"{what}: implementation no longer matches the claimed quirk vector but matches: {names[alt[0]]} "
                             "(a listed defect is no longer observed; the theorems hold for every vector)")
        else:
            chk.correspondence_broken({"level": "observable", "detail": f"{what}: the model under Actual/CfgToolActual.v disagrees with the implementation "
                                                                        "and no candidate quirk vector matches all cases"})


def decide_init(chk, case, res, ver, cands_all):
    E, R, R2 = case["text"], res[0]["text"], res[1]["text"]
    dE = yroot(E)
    pb = py_bits(E, R, R2, case["preset"])
    changed = R != E
    nontrivial = dE is not None and len(dE) > 0 and changed
    chk.count(["init", case["preset"], E], nontrivial)
    chk.dist("stream:init")
    chk.dist("init.kind:" + case["kind"])
    chk.dist("init.marker:" + case["marker"])
    chk.dist("init.via:" + case["via"])
    chk.dist("init.entry:" + ("prompt" if case.get("answers") is not None else "flag"))
    chk.dist("init.preset:" + case["preset"])
    chk.dist("init.outcome:" + ("rc%d" % res[0]["rc"]) + ("/rewritten" if changed else "/untouched"))
    chk.sample({"stream": "init", "preset": case["preset"], "existing": E[:400], "exit": res[0]["rc"], "added": res[0]["names"],
                "python_spec_bits": dict(zip(BIT_NAMES, pb))}, 3)
    for rr in res:
        if rr["err"].startswith("EXC") or "Traceback" in rr["err"]:
            chk.violation({"reason": "init-config crashed", "detail": rr["err"], "case": case})
            return cands_all
    if ver is None:
        # no verdict from the Coq side (the model did not build): by C20_init_config_partial a specification failure on a
        # file outside the three defect classes cannot be a listed finding
        if dE is not None and pb == [True, True, False, True, True, True, True] and last_line_in_block_scalar(E) \
                and "eof_rstrip_changes_block_scalar" in chk.known["known"]:
            # the listed input class of the end-of-file finding (judged with PyYAML alone also when the model is available)
            chk.known_finding("eof_rstrip_changes_block_scalar", {"preset": case["preset"], "existing": E, "violated": ["settings_in_effect"],
                                                                  "after_excerpt": R[:600]})
        elif dE is not None and not all(pb) and outside_defect_classes(E, dE, "q_missing_by_raw_key" in chk.known["known"]):
            chk.violation({"reason": "init-config on an existing valid configuration violates: "
                                     + ", ".join(n for n, b in zip(BIT_NAMES, pb) if not b)
                                     + " (model unavailable; the file avoids every listed defect class)",
                           "case": case, "exit": res[0]["rc"], "stdout": res[0]["out"][-300:], "after": R[:3000],
                           "python_spec_bits": dict(zip(BIT_NAMES, pb))})
        return cands_all
    chk.traces_validated += 2
    bits = [bool(b) for b in ver]
    cb, ideal_ok, cand, in_dom, r_struct = bits[:7], bits[7], bits[8:13], bits[13], bits[14]
    cands_all = cand if cands_all is None else [a and b for a, b in zip(cands_all, cand)]
    info = {"case": case, "exit": res[0]["rc"], "stdout": res[0]["out"][-300:], "after": R[:3000] if changed else "<unchanged>",
            "python_spec_bits": dict(zip(BIT_NAMES, pb)), "coq_spec_bits": dict(zip(BIT_NAMES, cb))}
    if in_dom != (dE is not None):
        chk.correspondence_broken({"level": "yaml-subset", "detail": f"model says the existing file is {'in' if in_dom else 'outside'} the YAML subset, "
                                                                     f"PyYAML says it is {'a mapping' if dE is not None else 'not a valid mapping'}", **info})
        return cands_all
    if dE is None:
        # not a valid existing configuration: outside the property's quantifier; the tool must refuse and leave the file alone
        if changed or res[0]["rc"] == 0:
            chk.violation({"reason": "init-config rewrote / accepted a file that is not a valid YAML mapping", **info})
        elif not cand[0]:
            chk.correspondence_broken({"level": "observable", "detail": "refusal of an unparsable file not reproduced by the model", **info})
        return cands_all
    # agreement of the two computations of the specification.  The model's validity bit is "in the subset and every entry is
    # literally an entry of the old file or of the template"; PyYAML's is "parses to a mapping".
    #   model valid  => PyYAML valid;   model: outside the subset => PyYAML invalid;
    #   subset but re-combined entries: the parser decides, and when it rejects the file the other bits are not comparable
    pv, cv = pb[0], cb[0]
    if (not pb[2]) and cb[2] and pb[:2] + pb[3:] == cb[:2] + cb[3:] and cand[0] and last_line_in_block_scalar(E):
        # the model does not see white space inside block scalars (manifest: validated only); the failure is listed by input class
        chk.known_finding("eof_rstrip_changes_block_scalar", {"preset": case["preset"], "existing": E, "violated": ["settings_in_effect"],
                                                              "after_excerpt": R[:600]})
        return cands_all
    mismatch = None
    if cv and not pv:
        mismatch = "model: result valid, PyYAML: invalid"
    elif not r_struct and pv:
        mismatch = "model: result outside the YAML subset, PyYAML: valid mapping"
    elif r_struct == pv and cb[1:] != pb[1:]:
        mismatch = "specification bits differ"
    if mismatch:
        chk.correspondence_broken({"level": "yaml-subset", "detail": "specification computed on the model's YAML subset vs computed with PyYAML: " + mismatch, **info})
        return cands_all
    if all(pb):
        if not cand[0] and not any(cand):
            chk.correspondence_broken({"level": "observable", "detail": "run satisfies the specification but matches no candidate model", **info})
        return cands_all
    failing = [n for n, b in zip(BIT_NAMES, pb) if not b]
    info["reason"] = "init-config on an existing valid configuration violates: " + ", ".join(failing)
    relevant = [INIT_FLAGS[i] for i in range(3) if not cand[1 + i]]
    if cand[0] and ideal_ok and not relevant:
        relevant = list(INIT_FLAGS)
    if cand[0] and ideal_ok:
        for k in relevant:
            chk.known_finding(k, {"preset": case["preset"], "existing": E, "violated": failing, "after_excerpt": R[:1500]})
    else:
        info["model_actual_matches_impl"] = cand[0]
        info["model_ideal_meets_spec"] = ideal_ok
        chk.violation(info)
    return cands_all


def decide_hist(chk, case, res, ver, cands_all):
    fails = py_hist_oracle(case, res)
    sets = [(c, s) for c, s in zip(case["cmds"], res["steps"]) if c[0] == "set"]
    acc = sum(1 for _, s in sets if s["rc"] == 0)
    rej = sum(1 for _, s in sets if s["rc"] not in (0, 2))
    gets_after = any(c[0] == "get" for c in case["cmds"][1:])
    chk.count(["hist", case["mode"], case["file"], case["cmds"]], acc >= 1 and (rej >= 1 or gets_after))
    chk.dist("stream:hist")
    chk.dist("hist.kind:" + ("boundary" if case.get("boundary") else ("suffix" if case["mode"] in SUFFIX_MODES else "random")))
    chk.dist("hist.mode:" + case["mode"])
    chk.dist("hist.via:" + case["via"])
    chk.dist("hist.file:" + ("absent" if case["file"] is None else "present"))
    chk.dist("hist.sets_accepted", acc)
    chk.dist("hist.sets_rejected", rej)
    chk.dist("hist.commands", len(case["cmds"]))
    chk.sample({"stream": "hist", "mode": case["mode"], "file": case["file"], "cmds": case["cmds"],
                "observed": [[s["rc"], s["out"].strip()[:60]] for s in res["steps"]]}, 5)
    info = {"case": case, "observed": [{"rc": s["rc"], "out": s["out"][:200], "state": s["state"], "bytes_same": s["bytes_same"]} for s in res["steps"]]}
    if ver is not None and not bool(ver[3][0]):
        ver = None    # a text on which the model does not predict int()/float(): Python oracle only
    if ver is None:
        chk.dist("hist.no_model_verdict")
        # a value outside the modelled domain, or the model did not build: by C20_history_partial a failure on a history
        # without hyphenated keys cannot be the listed key finding
        nan_sets = [n for n, c in enumerate(case["cmds"]) if c[0] == "set" and nk(c[1]) == "timeout" and _is_nan(spec_convert(c[2]))]
        rest = [f for f in fails if not any(f.startswith(f"step {n}:") and "not valid as documented" in f and "timeout nan" in f for n in nan_sets)]
        if fails and not rest:
            chk.known_finding("timeout_nan_accepted", {"mode": case["mode"], "file": case["file"], "cmds": case["cmds"], "failures": fails[:3]})
        elif fails and ("q_cli_raw_key" not in chk.known["known"] or all("-" not in c[1] for c in case["cmds"] if len(c) > 1)):
            chk.violation({"reason": "config set/get history violates the property (no model verdict; not in a listed defect class): " + "; ".join(rest[:3]), **info})
        return cands_all
    chk.traces_validated += len(case["cmds"])
    spec_bits, ideal_ok, cand = [bool(b) for b in ver[0]], bool(ver[1][0]), [bool(b) for b in ver[2]]
    cands_all = cand if cands_all is None else [a and b for a, b in zip(cands_all, cand)]
    coq_ok = all(spec_bits) and len(spec_bits) == len(case["cmds"])
    byte_fail = [f for f in fails if "changed the file" in f or "(get unchanged)" in f]   # Python-only rules
    py_ok = not fails
    if coq_ok != (not [f for f in fails if f not in byte_fail]):
        chk.correspondence_broken({"level": "spec", "detail": "trace specification in Coq and the Python oracle disagree", "python_failures": fails,
                                   "coq_bits": spec_bits, **info})
        return cands_all
    if py_ok:
        if not any(cand):
            chk.correspondence_broken({"level": "observable", "detail": "history satisfies the specification but matches no candidate model", **info})
        return cands_all
    info["reason"] = "config set/get history violates the property: " + "; ".join(fails[:3])
    if cand[0] and ideal_ok and not [f for f in byte_fail if "changed the file" in f]:
        chk.known_finding("q_cli_raw_key", {"mode": case["mode"], "file": case["file"], "cmds": case["cmds"], "failures": fails[:3]})
    else:
        info["model_actual_matches_impl"] = cand[0]
        info["model_ideal_meets_spec"] = ideal_ok
        chk.violation(info)
    return cands_all
