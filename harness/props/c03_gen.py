"""Generator of C03 projects (abstract lines -> rendered by c03_pymodel.render_file / Model/Dry.v render_line).

abstract line  [kind, indent, code, cmt]
   kind "C": a source line made of code (possibly empty) and an optional comment
        "D": a docstring / JSDoc line (the analyzers drop these by *parser* information; the model is told)
   cmt  None | ["L", text]  (line comment: `#text` in Python, `//text` in TS/JS)
             | ["B", text]  (TS/JS only: `/* text */`)
A project = {"W", "k", "stream", "files": [{"name", "lang", "lines"}]}, files sorted by name.

stream "ord": only constructs no AST block filter applies to (single-line simple statements at module
level / in function and method bodies, compound statement headers, docstrings, imports at the top).
stream "flt": additionally class field areas, decorators, multi-line calls/literals, logger calls,
except/raise-from pairs, TS interfaces: the filters may drop windows there.
"""
from __future__ import annotations

NAMES = ["a", "b", "c", "d", "x", "y", "z", "n", "m", "k", "acc", "tmp", "res", "val", "idx"]
FUNCS = ["foo", "bar", "baz", "load", "save", "check", "norm", "emit"]
ATTRS = ["size", "name", "head", "tail"]
WORDS = ["alpha", "beta", "gamma", "delta", "one", "two", "six"]


class Gen:
    def __init__(self, r, fam: str, stream: str, W: int, dense: bool = False):
        self.r, self.fam, self.stream, self.W = r, fam, stream, W
        # dense: Python only, no blank / comment / docstring / import line anywhere, so that every window spans
        # exactly W source lines (outside the defect class of q_overlap_asym)
        self.dense = dense
        self.fresh = 0
        # how often the defect classes are provoked: statements whose code contains `#` / `//`, and /* */ comments
        self.marker_rate = r.choice([0.0, 0.0, 0.0, 0.06, 0.2])
        self.block_rate = r.choice([0.0, 0.0, 0.0, 0.15, 0.4])

    # -------------------------------------------------------------- statements (single line, ordinary)
    def stmt(self, lang: str, allow_marker=True) -> str:
        r = self.r
        v, a, b = r.choice(NAMES), r.choice(NAMES), r.choice(NAMES)
        fn, n = r.choice(FUNCS), r.randint(0, 9)
        t = r.randint(9, 11) if (allow_marker and r.random() < self.marker_rate) else r.randint(0, 8)
        py = lang == "py"
        end = "" if py else ";"
        decl = "" if py else r.choice(["const ", "let ", "", "", "var " if lang == "js" else "let "])
        if t == 0:
            return f"{decl}{v} = {fn}({a}){end}"
        if t == 1:
            return f"{decl}{v} = {a} + {n}{end}"
        if t == 2:
            return f"{fn}({a}, {b}){end}"
        if t == 3:
            return f"{v} += {n}{end}"
        if t == 4:
            return f"{decl}{v} = {a}.{r.choice(ATTRS)}{end}"
        if t == 5:
            return f"{v}[{a}] = {b}{end}"
        if t == 6:
            return f"{decl}{v} = [{a}, {b}]{end}"
        if t == 7:
            return f"{fn}({a}){end}"
        if t == 8:
            return f"{decl}{v} = {fn}({a}, {n}){end}"
        # statements whose CODE contains a comment marker of the textual stripper
        if t == 9:
            return (f"{v} = {a} // {n}" if py else f'{decl}{v} = "http://{r.choice(WORDS)}/{r.choice(WORDS)}"{end}')
        if t == 10:
            return f'{decl}{v} = "{r.choice(WORDS)}#{r.choice(WORDS)}"{end}'
        return (f'{fn}({a}, "{r.choice(WORDS)} # {n}")' if py else f'{fn}({a}, "{r.choice(WORDS)} // {n}"){end}')

    def twin(self, lang: str, code: str) -> str | None:
        """a different statement that the textual comment stripper cannot tell from `code`"""
        for mk in ("#", "//"):
            if mk in code:
                i = code.index(mk)
                tail = code[i + len(mk):]
                for old in WORDS + [str(d) for d in range(10)]:
                    if old in tail:
                        new = self.r.choice([w for w in (WORDS if old in WORDS else [str(d) for d in range(10)]) if w != old])
                        return code[: i + len(mk)] + tail.replace(old, new, 1)
        return None

    def unique(self, lang: str) -> str:
        self.fresh += 1
        return f"u{self.fresh} = fresh({self.fresh})" + ("" if lang == "py" else ";")

    # -------------------------------------------------------------- multi-line / filter-provoking items
    def flt_item(self, lang: str):
        """list of (extra_indent, code) lines that some block filter or statement detector looks at"""
        r = self.r
        ks = r.sample(NAMES, 3)
        fn = r.choice(FUNCS)
        if lang == "py":
            t = r.randint(0, 5)
            if t == 0:
                return [(0, f"res = {fn}(")] + [(4, f"{k}={k},") for k in ks] + [(0, ")")]
            if t == 1:
                return [(0, "cfg = {")] + [(4, f'"{k}": {i},') for i, k in enumerate(ks)] + [(0, "}")]
            if t == 2:
                # shapes the LoggerCallFilter accepts, and near misses (other object, other method, no call)
                head = r.choice(["logger.info", "logger.info", "self.logger.warning", "log.debug ", "logging.error", "self.log.exception",
                                 "loggerx.info", "logger.trace", "self.logs.info", "logger.log"])
                return [(0, f'{head}("{r.choice(WORDS)}")')]
            if t == 3:
                return [(0, "try:"), (4, f"{fn}({ks[0]})"), (0, "except ValueError as e:"), (4, f'raise RuntimeError("{ks[1]}") from e')]
            if t == 4:
                return [(0, f"{fn}(")] + [(4, f"{k},") for k in ks] + [(0, ")")]
            return [(0, f"{ks[0]} = {fn}({ks[1]},"), (8, f"{ks[2]})")]
        t = r.randint(0, 4)
        if t == 0:
            return [(0, "const cfg = {")] + [(2, f"{k}: {i},") for i, k in enumerate(ks)] + [(0, "};")]
        if t == 1:
            return [(0, f"{fn}(")] + [(2, f"{k},") for k in ks[:2]] + [(2, ks[2])] + [(0, ");")]
        if t == 2:
            return [(0, f"const res = {fn}({{")] + [(2, f"{k}: {k},") for k in ks] + [(0, "});")]
        if t == 3:
            return [(0, f'console.log("{r.choice(WORDS)}");')]
        return [(0, f"const [{ks[0]}, {ks[1]}] = {fn}({ks[2]});")]

    # -------------------------------------------------------------- decoration of one planted / filler item list
    def vary_ws(self, code: str) -> str:
        if '"' in code or "'" in code or not code:
            return code
        r = self.r
        if r.random() < 0.2:
            return code.replace(" ", r.choice(["  ", "\t", "   "]), r.randint(1, 3))
        return code

    def comment(self, lang: str):
        r = self.r
        txt = r.choice([" note", " see below", " TODO later", " x", "", " step " + str(r.randint(1, 9)), " a // b", " tag #3"])
        if lang != "py" and r.random() < self.block_rate:
            return ["B", r.choice(["note", "keep", "step " + str(r.randint(1, 9)), "x y"])]
        return ["L", txt]

    def emit(self, out: list, lang: str, indent: str, items, noise: float):
        """append the lines of `items` (list of item = list of (extra, code)) with interleaved blanks/comments"""
        r = self.r
        for it in items:
            if out and r.random() < noise:
                if r.random() < 0.5:
                    out.append(["C", "", "", None])
                else:
                    out.append(["C", indent, "", self.comment(lang)])
            single = len(it) == 1
            for extra, code in it:
                cmt = self.comment(lang) if (r.random() < noise * 0.8) else None
                out.append(["C", indent + " " * extra, self.vary_ws(code) if single else code, cmt])

    # -------------------------------------------------------------- project
    def project(self, k: int) -> dict:
        r, W = self.r, self.W
        fam = self.fam
        langs = {"py": ["py"], "ts": ["ts", "ts", "js"], "mix": ["py", "ts", "js"]}[fam]
        nfiles = r.choice([1, 2, 2, 3, 3, 4, 5, 6, 8])
        files = []
        for i in range(nfiles):
            lang = r.choice(langs)
            sub = r.choice(["", "", "pkg/", "pkg/sub/", "lib/"])
            files.append({"name": f"{sub}m{i}_{r.choice(WORDS)}.{lang}", "lang": lang, "lines": []})
        files.sort(key=lambda f: f["name"])
        # runs are per language group (Python text vs TS/JS text)
        runs = {}
        for grp in ("py", "tsjs"):
            lang = "py" if grp == "py" else "ts"
            pool = [self.stmt(lang) for _ in range(r.randint(6, 18))]
            rs = []
            for _ in range(r.randint(1, 3)):
                L = r.randint(max(1, W - 1), 3 * W)
                mode = r.random()
                if mode < 0.12:
                    s = r.choice(pool)
                    items = [[(0, s)] for _ in range(L)]            # self-overlapping run
                elif mode < 0.2:
                    s, t = r.choice(pool), r.choice(pool)
                    items = [[(0, (s, t)[j % 2])] for j in range(L)]  # period-2 run
                else:
                    items = [[(0, r.choice(pool) if r.random() < 0.6 else self.stmt(lang))] for _ in range(L)]
                if self.stream == "flt":
                    for _ in range(r.randint(1, 2)):
                        items.insert(r.randint(0, len(items)), self.flt_item(lang))
                rs.append(items)
            runs[grp] = (pool, rs)
        for f in files:
            grp = "py" if f["lang"] == "py" else "tsjs"
            if fam == "mix" and f["lang"] == "js" and r.random() < 0.6:
                # cross-language duplicates: semicolon-free JavaScript shares the Python statement text
                # (`a // n` would be a comment in JavaScript: those statements stay Python-only)
                pool, rs = runs["py"]
                ok = lambda it: all(" // " not in code for _, code in it)   # noqa: E731
                self.fill_file(f, ([c for c in pool if " // " not in c] or ["pass_(a)"], [[it for it in run if ok(it)] or [[(0, "pass_(a)")]] for run in rs]))
                continue
            self.fill_file(f, runs[grp])
        # keep projects small enough for the in-kernel evaluation (quadratic in the number of windows)
        while len(files) > 1 and sum(len(f["lines"]) for f in files) > 200:
            files.pop(r.randrange(len(files)))
        return {"W": W, "k": k, "stream": self.stream, "files": files}

    def planted(self, lang, rs):
        """a copy (whole, slice, or with a twin substituted) of one of the runs"""
        r = self.r
        items = list(r.choice(rs))
        m = r.random()
        if m < 0.25 and len(items) > 1:
            i = r.randint(0, len(items) - 1)
            j = r.randint(i + 1, len(items))
            items = items[i:j]
        if r.random() < 0.3:
            idx = [i for i, it in enumerate(items) if len(it) == 1 and ("#" in it[0][1] or "//" in it[0][1])]
            if idx:
                i = r.choice(idx)
                t = self.twin(lang, items[i][0][1])
                if t:
                    items[i] = [(0, t)]
        return items

    def body(self, lang, pool_rs, base: str, in_func: bool, out: list):
        r = self.r
        pool, rs = pool_rs
        noise = 0.0 if self.dense else r.choice([0.0, 0.0, 0.1, 0.2, 0.35])
        nseg = r.randint(1, 4)
        any_stmt = False
        for _ in range(nseg):
            m = r.random()
            if m < 0.5:
                items = self.planted(lang, rs)
            elif m < 0.8:
                items = [[(0, r.choice(pool))] for _ in range(r.randint(1, 4))]
            else:
                items = [[(0, self.unique(lang))] for _ in range(r.randint(1, 3))]
            if self.stream == "flt" and r.random() < 0.25:
                items.insert(r.randint(0, len(items)), self.flt_item(lang))
            if r.random() < 0.2:
                # wrap the segment in a compound statement
                cond = r.choice(NAMES)
                if lang == "py":
                    out.append(["C", base, r.choice([f"if {cond}:", f"for {cond} in {r.choice(NAMES)}:", f"while {cond}:"]), None])
                    self.emit(out, lang, base + "    ", items, noise)
                    if r.random() < 0.3:
                        out.append(["C", base, "else:", None])
                        self.emit(out, lang, base + "    ", [[(0, self.unique(lang))]], 0.0)
                else:
                    out.append(["C", base, r.choice([f"if ({cond}) {{", f"for (const {cond} of {r.choice(NAMES)}) {{", f"while ({cond}) {{"]), None])
                    self.emit(out, lang, base + "  ", items, noise)
                    if r.random() < 0.3:
                        out.append(["C", base, "} else {", None])
                        self.emit(out, lang, base + "  ", [[(0, self.unique(lang))]], 0.0)
                    out.append(["C", base, "}", None])
            else:
                self.emit(out, lang, base, items, noise)
            any_stmt = True
            if r.random() < 0.5:
                self.emit(out, lang, base, [[(0, self.unique(lang))]], 0.0)
        if in_func and r.random() < 0.5:
            out.append(["C", base, f"return {r.choice(NAMES)}" + ("" if lang == "py" else ";"), None])
        return any_stmt

    def fill_file(self, f, pool_rs):
        r, lang, out = self.r, f["lang"], f["lines"]
        py = lang == "py"
        ind = r.choice(["    ", "    ", "  ", "\t"]) if py else r.choice(["  ", "    ", "\t"])
        if not self.dense and r.random() < 0.25:
            if py:
                self.docstring(out, "")
            else:
                self.jsdoc(out, "")
        if not self.dense and r.random() < 0.4:
            self.imports(out, lang)
        nunits = r.randint(1, 4)
        for u in range(nunits):
            if out and not self.dense and r.random() < 0.7:
                out.append(["C", "", "", None])
            t = r.random()
            name = r.choice(FUNCS) + str(u)
            args = ", ".join(r.sample(NAMES, r.randint(0, 2)))
            if t < 0.6:
                self.func(out, lang, "", ind, name, args, pool_rs, method=False)
            elif t < 0.8:
                if self.stream == "flt" and r.random() < 0.6:
                    self.field_class(out, lang, ind, name, pool_rs)
                    continue
                if py:
                    out.append(["C", "", f"class C{name}:", None])
                else:
                    out.append(["C", "", f"class C{name} {{", None])
                for mi in range(r.randint(1, 2)):
                    self.func(out, lang, ind, ind, f"m{mi}", ("self" if py else ""), pool_rs, method=True)
                if not py:
                    out.append(["C", "", "}", None])
            else:
                self.body(lang, pool_rs, "", False, out)

    def func(self, out, lang, base, ind, name, args, pool_rs, method):
        r = self.r
        py = lang == "py"
        if self.stream == "flt" and r.random() < 0.3:
            if py:
                out.append(["C", base, r.choice(["@cached", "@route(\"/x\")", "@staticmethod"]), None])
                if r.random() < 0.4:
                    out.append(["C", base, "@wraps(fn)", None])
        if not py and not method and r.random() < 0.25:
            self.jsdoc(out, base)
        if py:
            out.append(["C", base, f"{'async ' if r.random() < 0.1 else ''}def {name}({args}):", None])
            if not self.dense and r.random() < 0.3:
                self.docstring(out, base + ind)
        elif method:
            out.append(["C", base, f"{name}({args}) {{", None])
        else:
            hdr = r.choice([f"function {name}({args}) {{", f"function {name}({args}) {{", f"export function {name}({args}) {{",
                            f"const {name} = ({args}) => {{", f"async function {name}({args}) {{"])
            out.append(["C", base, hdr, None])
        n0 = len(out)
        self.body(lang, pool_rs, base + ind, True, out)
        if py and not any(l[0] == "C" and l[2] for l in out[n0:]):
            out.append(["C", base + ind, "pass", None])
        if not py:
            out.append(["C", base, "};" if (not method and "=>" in out[n0 - 1][2]) else "}", None])

    def field_class(self, out, lang, ind, name, pool_rs):
        r = self.r
        pool, rs = pool_rs
        fields = r.sample(NAMES, r.randint(2, 5))
        if lang == "py":
            if r.random() < 0.5:
                out.append(["C", "", "@dataclass", None])
            out.append(["C", "", f"class F{name}:", None])
            for k in fields:
                out.append(["C", ind, f"{k}: int = {len(k)}", None])
            if r.random() < 0.6:
                self.func(out, lang, ind, ind, "m0", "self", pool_rs, method=True)
        else:
            if r.random() < 0.5:
                out.append(["C", "", f"interface I{name} {{", None])
                for k in fields:
                    out.append(["C", ind, f"{k}: number;", None])
                out.append(["C", "", "}", None])
            out.append(["C", "", f"class F{name} {{", None])
            for k in fields:
                out.append(["C", ind, f"{k} = {len(k)};", None])
            if r.random() < 0.6:
                self.func(out, lang, ind, ind, "m0", "", pool_rs, method=True)
            out.append(["C", "", "}", None])

    def docstring(self, out, indent):
        r = self.r
        if r.random() < 0.5:
            out.append(["D", indent, f'"""{r.choice(WORDS)} {r.choice(WORDS)}."""', None])
        else:
            out.append(["D", indent, f'"""{r.choice(WORDS)}', None])
            for _ in range(r.randint(0, 2)):
                out.append(["D", indent, r.choice(["x = foo(a)", "more text", "", "a += 1"]), None])
            out.append(["D", indent, '"""', None])

    def jsdoc(self, out, indent):
        r = self.r
        if r.random() < 0.4:
            out.append(["D", indent, f"/** {r.choice(WORDS)} */", None])
        else:
            out.append(["D", indent, "/**", None])
            for _ in range(r.randint(1, 3)):
                out.append(["D", indent, " * " + r.choice(["x = foo(a);", "text", "@param a value"]), None])
            out.append(["D", indent, " */", None])

    def imports(self, out, lang):
        r = self.r
        for _ in range(r.randint(1, 3)):
            w, w2 = r.choice(WORDS), r.choice(WORDS)
            if lang == "py":
                t = r.random()
                if t < 0.4:
                    out.append(["C", "", f"import {w}", None])
                elif t < 0.8:
                    out.append(["C", "", f"from {w} import {w2}", None])
                else:
                    out.append(["C", "", f"from {w} import (", None])
                    for x in r.sample(WORDS, 2):
                        out.append(["C", "    ", f"{x},", None])
                    out.append(["C", "", ")", None])
            else:
                t = r.random()
                if t < 0.5:
                    out.append(["C", "", f"import {{ {w} }} from './{w2}';", None])
                elif t < 0.8:
                    out.append(["C", "", f"import {w} from \"{w2}\";", None])
                else:
                    out.append(["C", "", "import {", None])
                    for x in r.sample(WORDS, 2):
                        out.append(["C", "  ", f"{x},", None])
                    out.append(["C", "", f"}} from './{w2}';", None])


TH = " thailint: "
DIRECTIVES_PY = [" dry: ignore-block", " dry: ignore-next", TH + "ignore-file dry", TH + "ignore-file[dry]", TH + "ignore dry", TH + "ignore[dry]",
                 TH + "ignore-next-line[dry]", TH + "ignore-start dry", TH + "ignore-end"]


def add_suppressions(r, proj: dict) -> None:
    """sprinkle suppression directives (fixed spellings) and a dry.ignore path pattern over a generated project"""
    files = proj["files"]
    if r.random() < 0.35:
        f = r.choice(files)
        name = f["name"]
        proj["ignore"] = [r.choice([name.rsplit("/", 1)[-1], name.split("/")[0] + "/" if "/" in name else name[:4], "." + f["lang"], "nomatch/"])]
    for f in files:
        if r.random() < 0.5:
            continue
        lines = f["lines"]
        for _ in range(r.randint(1, 3)):
            d = r.choice(DIRECTIVES_PY)
            kind = d.strip()
            if kind.startswith("thailint: ignore dry") or kind.startswith("thailint: ignore[dry]") or (r.random() < 0.15 and "start" not in kind and "end" not in kind):
                # trailing comment on a code line
                idx = [i for i, l in enumerate(lines) if l[0] == "C" and l[2] and l[3] is None]
                if idx:
                    lines[r.choice(idx)][3] = ["L", d]
                continue
            if "ignore-file" in kind:
                pos = r.choice([0, 0, 1, 2, 9, 10, 11])
            else:
                pos = r.randint(0, len(lines))
            pos = min(pos, len(lines))
            while pos < len(lines) and lines[pos][0] == "D":
                pos += 1
            indent = lines[pos][1] if pos < len(lines) else ""
            lines.insert(pos, ["C", indent, "", ["L", d]])
            if "ignore-start" in kind and r.random() < 0.7:
                q = min(len(lines), pos + r.randint(2, 12))
                while q < len(lines) and lines[q][0] == "D":
                    q += 1
                lines.insert(q, ["C", lines[q][1] if q < len(lines) else "", "", ["L", TH + "ignore-end"]])


def gen_project(r, stream: str) -> dict:
    W = r.choice([2, 2, 3, 3, 3, 4, 4, 5, 6])
    k = r.choice([2, 2, 2, 2, 3, 3, 4])
    fam = r.choice(["py", "py", "ts", "ts", "mix"])
    dense = stream == "ord" and r.random() < 0.15
    proj = Gen(r, "py" if dense else fam, stream, W, dense).project(k)
    if not dense and r.random() < 0.3:
        add_suppressions(r, proj)
    return proj
