"""C12 — TypeScript pattern-linter location model (Model/LocTsPat.v, Proofs/LocTsPat.v) against the implementation.

Every `performance.string-concat-loop` and `cqs` violation reported for a TypeScript / JavaScript file of any stream (documented
examples under all layouts, the generated `cqsts` stream) must be (row + 1, column) - as computed by the expressions read from the
source - of a node of the real tree-sitter tree (parser oracle) whose type is one of those the translator extracted for that
detector (augmented_assignment_expression; function_declaration / arrow_function / method_definition / function)."""
from __future__ import annotations

from harness import coq

TS_HEADER = ("From TL Require Import Lib.Base Model.LocTypes Gen.LocGen Gen.LocPatGen Model.Loc Model.Embed Model.LocPat "
             "Gen.LocTsPatGen Model.LocTsPat.\n")
TS_CONE_EXTRA = [("Gen", "LocTsPatGen.v"), ("Model", "LocTsPat.v")]
TS_RULES = {"performance.string-concat-loop": "perf-ts", "cqs": "cqs-ts"}


def tspat_jobs(cases, impls, ts_tree_term):
    jobs = []
    for ci, (case, im) in enumerate(zip(cases, impls)):
        if "error" in im:
            continue
        for doc in case["docs"]:
            if doc["lang"] not in ("ts", "js"):
                continue
            rel = doc["name"]
            text = im["texts"].get(rel)
            by = {}
            for rule, f, line, col, msg in im["v"]:
                if f == rel and rule in TS_RULES and isinstance(line, int) and isinstance(col, int) and line >= 0 and col >= 0:
                    by.setdefault(TS_RULES[rule], []).append((line, col, rule, msg))
            if not by or text is None:
                continue
            tree = ts_tree_term(text)
            if tree is None:
                continue
            for linter, reps in by.items():
                rs = coq.coq_list([f"({l}, {c})" for l, c, _r, _m in reps])
                jobs.append((ci, rel, linter, reps, f"Eval vm_compute in (judge_tpat {coq.coq_string(linter)} ({tree}) {rs})."))
    return jobs


def decide(chk, cases, jobs, outs, slim):
    for (ci, rel, linter, reps, _cmd), bits in zip(jobs, outs):
        for (l, c, rule, msg), ok in zip(reps, bits):
            chk.traces_validated += 1
            chk.dist("ts-pattern-model:" + linter)
            if not ok:
                chk.violation({"reason": "a TypeScript pattern-linter violation is not at (row + 1, column) of a node of the type its detector reports on "
                                         "(augmented_assignment_expression for string-concat-loop; a function node for cqs) in the tree-sitter tree of the file",
                               "violation": [rule, rel, l, c, msg[:300]], "case": slim(cases[ci])})
