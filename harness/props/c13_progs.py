"""C13 — the programs the edits are applied to: every other property's generator plus every documented example.

A program = {"id", "source", "files": [{"name", "lang", "text"}], "config": {...}} ; the configuration enables every
linter and uses low thresholds so that most programs carry violations (an invariance check on a silent file is trivial).
"""
from __future__ import annotations

import copy

from harness import skel
from harness.common import rng_for
from harness.props import c02, c02_render, c03_gen, c03_pymodel, c04, c16, c17
from translator import docs2cases

EXT = {"py": ".py", "ts": ".ts", "js": ".js", "rs": ".rs"}
SOURCES = ["nesting", "magic", "dry", "srp", "rust", "ignore", "docs", "mixed"]


def base_config(r=None) -> dict:
    return {
        "nesting": {"max_nesting_depth": 2 if r is None else r.choice([1, 2, 2, 3])},
        "srp": {"max_methods": 3 if r is None else r.choice([2, 3, 5]), "max_loc": 12 if r is None else r.choice([6, 12, 30])},
        "dry": {"enabled": True, "min_duplicate_lines": 3, "min_occurrences": 2, "storage_mode": "memory"},
    }


def _merge(a: dict, b: dict) -> dict:
    out = copy.deepcopy(a)
    for k, v in (b or {}).items():
        if isinstance(v, dict) and isinstance(out.get(k), dict):
            out[k] = _merge(out[k], v)
        else:
            out[k] = copy.deepcopy(v)
    return out


def p_nesting(r, pid):
    lang = r.choice(["py", "py", "ts", "js", "rs"])
    lk = "ts" if lang == "js" else lang
    g = skel.Gen(r, skel.LANG_KINDS[lk], skel.LANG_FKINDS[lk], max_depth=r.choice([3, 4, 5]), else_single_if_ok=(lk != "py"),
                 curried=(lk == "ts"))
    if lk == "ts":
        g.max_handlers = 1
    items = g.file()
    if lk == "ts":
        from harness.props import c01
        c01._one_catch(items)
    if not skel.lang_ok(lang, items):
        return None
    text, _ = skel.render(lang, items, top_offset=r.choice([0, 0, 1, 3]))
    return {"id": pid, "source": "nesting", "files": [{"name": "case" + EXT[lang], "lang": lang, "text": text}], "config": base_config(r)}


def p_magic(r, pid):
    lang = r.choice(["py", "py", "ts", "js", "rs"])
    f = c02.gen_file(r, lang)
    text = c02_render.render(f, top_offset=r.choice([0, 0, 1, 2]))
    return {"id": pid, "source": "magic", "files": [{"name": "nums" + EXT[lang], "lang": lang, "text": text}], "config": base_config(r)}


def p_dry(r, pid):
    proj = c03_gen.gen_project(r, r.choice(["ord", "ord", "flt"]))
    files = [{"name": f["name"], "lang": f["lang"], "text": c03_pymodel.render_file(f)} for f in proj["files"]]
    cfg = base_config(r)
    cfg["dry"].update({"min_duplicate_lines": proj["W"], "min_occurrences": proj["k"], "detect_duplicate_constants": False})
    return {"id": pid, "source": "dry", "files": files, "config": cfg}


def p_srp(r, pid):
    lang = r.choice(["py", "py", "ts", "ts", "js", "rs", "rs"])
    g = c16.Gen(r, lang, size=r.choice([0.5, 1, 1]))
    tree = g.file()
    text, _ = c16.render(lang, tree, r.choice([0, 0, 1, 2]))
    return {"id": pid, "source": "srp", "files": [{"name": "shapes" + EXT[lang], "lang": lang, "text": text}], "config": base_config(r)}


def p_rust(r, pid):
    g = c17.Gen(r, max_depth=r.choice([1, 2, 2, 3]))
    text, _ = c17.render(g.file(), top_offset=r.choice([0, 0, 1, 2]))
    cfg = _merge(base_config(r), r.choice(c17.gen_configs(r)))
    return {"id": pid, "source": "rust", "files": [{"name": "lib_case.rs", "lang": "rs", "text": text}], "config": cfg}


def p_ignore(r, pid):
    lang = r.choice(["py", "py", "ts", "rs"])
    lines = c04.base_file(r, lang)
    lines = [l for l in lines if "\x0c" not in l]
    text = "\n".join(lines) + "\n"
    return {"id": pid, "source": "ignore", "files": [{"name": "sample" + EXT[lang], "lang": lang, "text": text}], "config": base_config(r)}


_docs = None


def doc_examples():
    global _docs
    if _docs is None:
        _docs = docs2cases.extract()
    return _docs


def p_docs(r, pid, ex=None):
    exs = doc_examples()["examples"]
    ex = ex or r.choice(exs)
    lang = ex["lang"]
    if ex.get("files"):
        files = [{"name": f["name"].lstrip("/"), "lang": lang, "text": f["code"] if f["code"].endswith("\n") else f["code"] + "\n"} for f in ex["files"]]
    else:
        code = ex["code"] if ex["code"].endswith("\n") else ex["code"] + "\n"
        files = [{"name": "pkg/sample_module" + EXT[lang], "lang": lang, "text": code}]
        if ex["linter"] in ("dry", "stringly-typed") and ex["verdict"] == "violating":
            files.append({"name": "pkg/other_module" + EXT[lang], "lang": lang, "text": code})
    return {"id": pid, "source": "docs:" + ex["linter"], "doc": ex["id"], "files": files, "config": _merge(base_config(), ex.get("config") or {})}


def p_mixed(r, pid):
    """one file made of pieces of several generators (same language), so that several linters fire in one file"""
    lang = r.choice(["py", "py", "ts", "rs"])
    parts = []
    for mk in r.sample([p_nesting, p_magic, p_srp, p_ignore] + ([p_rust] if lang == "rs" else []), r.choice([2, 3])):
        for _ in range(6):
            p = mk(r, pid)
            if p and p["files"][0]["lang"] == lang:
                parts.append(p["files"][0]["text"].rstrip("\n"))
                break
    exs = [e for e in doc_examples()["examples"] if e["lang"] == lang and not e.get("files") and e["linter"] not in ("file-header", "dry")]
    if exs and lang != "rs" and r.random() < 0.7:
        e = r.choice(exs)
        if lang == "py" or "import " not in e["code"]:
            parts.append(e["code"].rstrip("\n"))
    if not parts:
        return None
    text = ("\n\n\n" if lang == "py" else "\n\n").join(parts) + "\n"
    return {"id": pid, "source": "mixed", "files": [{"name": "module_mix" + EXT[lang], "lang": lang, "text": text}], "config": base_config(r)}


# statement-level idioms the pattern linters look for (several statements that belong together: a loop and the `return` after it,
# an initialisation and the loop that fills it, a check and the use it guards ...).  The documented examples do not cover every
# detector branch (e.g. the any() / all() / filter-map / takewhile loops of collection-pipeline), so the idioms are listed here;
# whether a snippet is reported is irrelevant for the invariance check, what matters is that adjacent statements are present.
IDIOMS = {
    "py": [
        "def has_negative{n}(values):\n    for value in values:\n        if value < 0:\n            return True\n    return False",
        "def build{n}(u):\n    first = make(\n        alpha=u.one,\n        beta=u.two,\n        gamma=u.three,\n        delta=u.four,\n    )\n    second = make(\n        alpha=u.one,\n        beta=u.two,\n        gamma =\n            u.three,\n        delta=u.four,\n    )\n    return first, second",
        "def guarded{n}(name):\n    try:\n        step(name)\n    except ValueError as exc:\n        raise StepError(name) from exc\n    try:\n        other(name)\n    except KeyError as exc:\n        raise StepError(name) from exc\n    return name",
        "def all_positive{n}(values):\n    for value in values:\n        if value <= 0:\n            return False\n    return True",
        "def pack{n}(raw):\n    data = raw.strip()\n    copy = list(data)\n    metadata = len(copy)\n    for item in copy:\n        if item in data_seen{n}:\n            return metadata\n    return 0",
        "def scan_all{n}(lines):\n    pat = \"^a+b\"\n    pattern_hits = []\n    for line in lines:\n        if re.search(pat, line):\n            pattern_hits.append(line)\n    return pattern_hits",
        "def cleaned{n}(values):\n    result = []\n    for value in values:\n        stripped = value.strip()\n        if stripped:\n            result.append(stripped)\n    return result",
        "def leading{n}(values):\n    taken = []\n    for value in values:\n        if value < 0:\n            break\n        taken.append(value)\n    return taken",
        "def only_files{n}(paths):\n    for path in paths:\n        if not path.is_file():\n            continue\n        handle(path)",
        "def join_all{n}(items):\n    result = \"\"\n    for item in items:\n        result += str(item)\n    return result",
        "def scan{n}(lines):\n    hits = []\n    for line in lines:\n        if re.match(r\"^a+b\", line):\n            hits.append(line)\n    return hits",
        "def lookup{n}(table, key):\n    if key in table:\n        return table[key]\n    return None",
        "def name_of{n}(obj):\n    if hasattr(obj, \"name\"):\n        return obj.name\n    return \"\"",
        "def first{n}(items):\n    if len(items) > 0:\n        return items[0]\n    return None",
        "def read_it{n}(path):\n    if os.path.exists(path):\n        with open(path) as f:\n            return f.read()\n    return \"\"",
        "def ratio{n}(a, b):\n    if b != 0:\n        return a / b\n    return 0",
        "def as_int{n}(text):\n    if text.isdigit():\n        return int(text)\n    return 0",
        "def width{n}(value):\n    if isinstance(value, str):\n        return len(value)\n    return 0",
        "def tidy{n}(value):\n    if value is not None:\n        return value.strip()\n    return \"\"",
        "def fetch_and_log{n}(db, key):\n    value = db.get(key)\n    db.touch(key)\n    return value",
        "class Shape{n}:\n    def __init__(self, w, h):\n        self.w = w\n        self.h = h\n\n    def get_area(self):\n        return self.w * self.h\n\n    def name(self):\n        return \"shape\"",
        "class Tools{n}:\n    def double(self, x):\n        return x * 2\n\n    def triple(self, x):\n        return x * 3",
        "def report{n}(rows):\n    for row in rows:\n        print(row)\n    if verbose:\n        print(\"done\")",
        "def status_text{n}(status):\n    if status == \"open\":\n        return 1\n    elif status == \"closed\":\n        return 2\n    elif status == \"pending\":\n        return 3\n    return 0",
        "def deep{n}(a, b, c):\n    if a:\n        for x in b:\n            while c:\n                if x:\n                    return 4242\n    return 0",
    ],
    "ts": [
        "function hasNegative{n}(values: number[]): boolean {\n  for (const v of values) {\n    if (v < 0) {\n      return true;\n    }\n  }\n  return false;\n}",
        "function joinAll{n}(items: string[]): string {\n  let result = \"\";\n  for (const item of items) {\n    result += item;\n  }\n  return result;\n}",
        "function syncUser{n}(id: number) {\n  const user = fetchUser(id);\n  updateCache(user);\n  return user;\n}",
        "function pack{n}(input: string) {\n  const data = input.trim();\n  const copy = data.slice(0);\n  const metadata = copy.length;\n  if (metadata > 3) {\n    return copy;\n  } else if (metadata > 2) {\n    return data;\n  }\n  return \"\";\n}",
        "function report{n}(rows: string[]) {\n  for (const row of rows) {\n    console.log(row);\n  }\n}",
        "function statusText{n}(status: string): number {\n  if (status === \"open\") {\n    return 1;\n  } else if (status === \"closed\") {\n    return 2;\n  }\n  return 4242;\n}",
        "class Shape{n} {\n  constructor(private w: number) {}\n  area() {\n    return this.w * 31;\n  }\n  name() {\n    return \"shape\";\n  }\n}",
        "function deep{n}(a: boolean, b: number[]) {\n  if (a) {\n    for (const x of b) {\n      while (x) {\n        if (x > 2) {\n          return 77;\n        }\n      }\n    }\n  }\n  return 0;\n}",
    ],
    "rs": [
        "fn risky{n}(s: Option<i32>) -> i32 {\n    let v = s.unwrap();\n    let w = s.expect(\"present\");\n    v + w\n}",
        "fn pack{n}(input: &str) -> usize {\n    let data = input.to_string();\n    let copy = data.clone();\n    let metadata = copy.len();\n    metadata\n}",
        "fn stash{n}(input: &str) -> usize {\n    let text = input.to_string();\n    let kept = text.clone();\n    let total_len = kept.len();\n    if total_len > 3 { 1 } else if total_len > 2 { 2 } else { 3 }\n}",
        "fn cloner{n}(items: Vec<String>) -> usize {\n    let mut n = 0;\n    for it in items.iter() {\n        let c = it.clone();\n        n += c.len();\n    }\n    n\n}",
        "async fn loader{n}() -> String {\n    let text = std::fs::read_to_string(\"a.txt\").unwrap();\n    std::thread::sleep(std::time::Duration::from_secs(1));\n    text\n}",
        "#[cfg(test)]\nmod tests{n} {\n    #[test]\n    fn check_it() {\n        let v: Option<i32> = Some(1);\n        assert_eq!(v.unwrap(), 4242);\n    }\n}",
        "fn deep{n}(a: bool, b: Vec<i32>) -> i32 {\n    if a {\n        for x in b {\n            while x > 0 {\n                if x > 2 {\n                    return 77;\n                }\n            }\n        }\n    }\n    0\n}",
    ],
}


# the EXEMPTIONS of the pattern linters (code that is not reported only because of an exemption rule): an edit that breaks the
# exemption makes a finding appear, so these must be in the pool as well as the violating idioms
EXEMPT_IDIOMS = {
    "py": [
        "class Builder{n}:\n    def with_name(self, name):\n        self.name = name\n        self.items = load(name)\n        notify(name)\n        return self",
        "class Box{n}:\n    def __init__(self, w):\n        self._w = w\n\n    @property\n    def width(self):\n        return self._w\n\n    def get_items(self, kind):\n        return [x for x in self._w if x == kind]\n\n    def _get_hidden(self):\n        return self._w",
        "def main{n}():\n    run()\n\n\nif __name__ == \"__main__\":\n    print(\"starting\")\n    main{n}()",
        "def test_limits{n}():\n    value = compute(4242)\n    assert value == 1717\n    print(value)",
        "MAX_RETRIES{n} = 4242\nTIMEOUT_SECONDS{n} = 3600\n\n\ndef wait{n}(n=0):\n    for i in range(10):\n        sleep(TIMEOUT_SECONDS{n})\n    return 100",
        "def safe_lookup{n}(table, key):\n    try:\n        return table[key]\n    except KeyError:\n        return None",
        "def log_all{n}(rows):\n    for row in rows:\n        logger.info(\"row %s\", row)\n    logger.debug(\"done\")",
        "class Config{n}:\n    def __init__(self):\n        self.values = {}\n\n    def load(self, path):\n        self.values = parse(path)\n\n    def get(self, key):\n        return self.values[key]",
    ],
    "ts": [
        "class Builder{n} {\n  private name = \"\";\n  withName(name: string) {\n    const items = load(name);\n    this.name = name;\n    notify(items);\n    return this;\n  }\n}",
        "class Chain{n} {\n  add(x: number) {\n    const n = compute(x);\n    save(n);\n    return this;\n  }\n  done() {\n    return true;\n  }\n}",
        "const MAX_SIZE{n} = 4242;\nconst TIMEOUT_MS{n} = 3600;\nfunction wait{n}() {\n  return MAX_SIZE{n} + TIMEOUT_MS{n};\n}",
        "class Box{n} {\n  constructor(private w: number) {}\n  get width() {\n    return this.w;\n  }\n  private hidden() {\n    return this.w;\n  }\n  _internal() {\n    return this.w;\n  }\n}",
        "async function load{n}(id: number) {\n  const data = await fetchData(id);\n  return data;\n}",
    ],
    "js": [
        "class Builder{n} {\n  withName(name) {\n    const items = load(name);\n    this.name = name;\n    notify(items);\n    return this;\n  }\n}",
        "const MAX_SIZE{n} = 4242;\nfunction wait{n}() {\n  return MAX_SIZE{n};\n}",
    ],
    "rs": [
        "#[cfg(test)]\nmod tests{n} {\n    use super::*;\n\n    #[test]\n    fn check_it() {\n        let v: Option<i32> = Some(1);\n        let w = v.clone();\n        assert_eq!(v.unwrap(), 4242);\n        std::fs::read_to_string(\"a\").unwrap();\n    }\n}",
        "#[tokio::test]\nasync fn loads{n}() {\n    let text = std::fs::read_to_string(\"a.txt\").unwrap();\n    assert!(text.len() > 17);\n}",
        "const MAX_ITEMS{n}: usize = 4242;\nstatic LIMIT{n}: i32 = 3600;\n\nfn cap{n}(n: usize) -> usize {\n    n.min(MAX_ITEMS{n})\n}",
        "fn safe{n}(s: Option<i32>) -> i32 {\n    let v = s.unwrap_or(0);\n    let w = s.unwrap_or_default();\n    v + w\n}",
        "async fn spawned{n}() {\n    let r = tokio::task::spawn_blocking(|| std::fs::read_to_string(\"a.txt\")).await;\n    drop(r);\n}",
    ],
}


def p_idioms(r, pid):
    lang = r.choice(["py", "py", "ts", "ts", "js", "rs", "rs"])
    pool = IDIOMS["ts" if lang == "js" else lang] if lang != "js" else [x for x in IDIOMS["ts"] if ": " not in x and "private" not in x]
    ex = EXEMPT_IDIOMS[lang]
    picks = r.sample(pool, min(len(pool), r.choice([1, 2, 3]))) + r.sample(ex, min(len(ex), r.choice([1, 2, 3])))
    r.shuffle(picks)
    head = {"py": ["import os", "import re", ""], "ts": [], "js": [], "rs": []}[lang]
    parts = ["\n".join(head)] if head and r.random() < 0.7 else []
    for j, sn in enumerate(picks):
        parts.append(sn.replace("{n}", str(j)))
    text = ("\n\n\n" if lang == "py" else "\n\n").join(x for x in parts if x) + "\n"
    return {"id": pid, "source": "idioms", "files": [{"name": "idioms_mod" + EXT[lang], "lang": lang, "text": text}], "config": base_config(r)}


MAKERS = {"nesting": p_nesting, "magic": p_magic, "dry": p_dry, "srp": p_srp, "rust": p_rust, "ignore": p_ignore, "docs": p_docs, "mixed": p_mixed, "idioms": p_idioms}


def programs(seed: int, n_gen: int, all_docs: bool = True):
    out = []
    if all_docs:
        for j, ex in enumerate(doc_examples()["examples"]):
            out.append(p_docs(rng_for(seed, "C13", "doc", j), f"doc{j}", ex))
    weights = ["nesting"] * 3 + ["magic"] * 3 + ["dry"] * 4 + ["srp"] * 3 + ["rust"] * 3 + ["ignore"] * 3 + ["mixed"] * 4 + ["idioms"] * 7
    for i in range(n_gen):
        r = rng_for(seed, "C13", "prog", i)
        for _ in range(5):
            p = MAKERS[r.choice(weights)](r, f"g{i}")
            if p:
                out.append(p)
                break
    return out
