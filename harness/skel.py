"""Control-flow skeletons: seeded generator, renderers to Python / TypeScript / JavaScript / Rust,
and the Coq term encoder (Model/Skel.v).  Shared by C01, C05, C12, C13, C15.

A node is a list [kind, children] where kind is a string ("Simple", "If", ...) or, for
function-like nodes, the tuple-list ["Fn", fkind, name, line, col]; line/col are filled in by
the renderer (they are what the parser reports for the header: a parser-position oracle).
"""
from __future__ import annotations

import copy

from harness.coq import coq_list, coq_string

COMMON = ["Simple", "If", "For", "While", "Switch"]
LANG_KINDS = {
    "py": COMMON + ["AsyncFor", "With", "AsyncWith", "Try"],
    "ts": COMMON + ["ForIn", "DoWhile", "Try"],
    "rs": COMMON + ["Loop", "Closure", "AsyncBlock"],
}
LANG_FKINDS = {"py": ["FDef", "FAsyncDef"], "ts": ["FDef", "FAsyncDef", "FArrow"], "rs": ["FDef", "FAsyncDef"]}
EXT = {"py": ".py", "ts": ".ts", "js": ".js", "rs": ".rs"}
COQ_LANG = {"py": "Py", "ts": "Ts", "js": "Ts", "rs": "Rs"}
COUNTING = {"If", "For", "ForIn", "AsyncFor", "While", "DoWhile", "With", "AsyncWith", "Try", "Switch", "Loop", "Closure", "AsyncBlock"}


def kind_name(node):
    k = node[0]
    return k if isinstance(k, str) else k[0]


def is_fn(node):
    return kind_name(node) == "Fn"


# ------------------------------------------------------------------ generation
class Gen:
    def __init__(self, rng, kinds, fkinds, max_depth=6, nested_fn_p=0.06, else_single_if_ok=True, curried=False, nobrace=False):
        self.rng, self.kinds, self.fkinds, self.curried, self.nobrace = rng, kinds, fkinds, curried, nobrace
        self.max_depth, self.nested_fn_p, self.else_single_if_ok = max_depth, nested_fn_p, else_single_if_ok
        self.counter = 0

    def fresh(self, prefix):
        self.counter += 1
        return f"{prefix}{self.counter}"

    def stmts(self, depth, lo=1, hi=3):
        return [self.stmt(depth) for _ in range(self.rng.randint(lo, hi))]

    def stmt(self, depth):
        r = self.rng
        if depth <= 0 or r.random() < 0.35:
            return ["Simple", []]
        if r.random() < self.nested_fn_p:
            return self.fn(depth - 1, nested=True)
        if self.nobrace and r.random() < 0.12:
            # a brace-less structure directly containing another structure: if (a) if (b) ..., for (..) while (..) ...
            inner = ["Simple", []]
            for _ in range(6):
                inner = self.stmt(depth - 1)
                if kind_name(inner) in ("If", "For", "ForIn", "While", "DoWhile", "Try", "Switch"):
                    break
            return [r.choice(["If", "If", "For", "While"]), [inner], {"nobrace": True}]
        k = r.choice([k for k in self.kinds if k != "Simple"])
        if k == "If":
            cs = self.stmts(depth - 1, 0 if r.random() < 0.1 else 1, 2)
            for _ in range(r.choice([0, 0, 1, 1, 2, 3])):
                cs.append(["Elif", self.stmts(depth - 1, 1, 2)])
            if r.random() < 0.5:
                body = self.stmts(depth - 1, 1, 2)
                if not self.else_single_if_ok and len(body) == 1 and kind_name(body[0]) == "If":
                    body.append(["Simple", []])
                cs.append(["Else", body])
            return self._maybe_nobrace(["If", cs])
        if k == "Try":
            cs = self.stmts(depth - 1, 1, 2)
            n_h = r.choice([0, 1, 1, 2])
            fin = r.random() < 0.4 or n_h == 0
            for _ in range(n_h):
                cs.append(["Handler", self.stmts(depth - 1, 1, 2)])
            if fin:
                cs.append(["Finally", self.stmts(depth - 1, 1, 2)])
            return ["Try", cs]
        if k == "Switch":
            return ["Switch", [["Case", self.stmts(depth - 1, 1, 2)] for _ in range(r.randint(1, 3))]]
        node = [k, self.stmts(depth - 1, 1, 2)]
        return self._maybe_nobrace(node)

    def _maybe_nobrace(self, node):
        """TS/JS: a control structure whose body is ONE statement may be written without braces
        (`if (a)\n  if (b) ...`); the parse tree then has no statement_block, which is transparent for depth"""
        if self.nobrace and kind_name(node) in ("If", "For", "ForIn", "While") and len(node[1]) == 1 \
                and kind_name(node[1][0]) not in ("Fn", "Class", "Elif", "Else") and self.rng.random() < 0.5:
            node.append({"nobrace": True})
        return node

    def fn(self, depth, nested=False, method=False):
        fk = "FMethod" if method else self.rng.choice(self.fkinds)
        name = self.fresh("m" if method else "f")
        body = self.stmts(depth, 0 if self.rng.random() < 0.05 else 1, 3)
        if self.curried and not method and "FArrow" in self.fkinds and self.rng.random() < 0.35:
            if nested and self.rng.random() < 0.5:
                # anonymous block-bodied arrow passed as a call argument: xs.map((x) => { ... });
                return [["Fn", "FArrow", "arrow_function", 0, 0, "callback"], body]
            # curried arrows on one line: const f = (a) => (b) => { ... };
            node = [["Fn", "FArrow", "arrow_function", 0, 0], body]
            for lvl in range(self.rng.choice([1, 1, 2])):
                node = [["Fn", "FArrowExpr", "arrow_function", 0, 0], [node]]
            node[0][2] = name
            return node
        return [["Fn", fk, name, 0, 0], body]

    def file(self, n_items=None):
        r = self.rng
        items = []
        for _ in range(n_items or r.randint(1, 4)):
            d = r.choice([0, 1, 2, 2, 3, 3, 4, 4, 5, self.max_depth, self.max_depth])
            if r.random() < 0.2:
                items.append(["Class", [self.fn(d, method=True) for _ in range(r.randint(1, 3))]])
            else:
                items.append(self.fn(d))
        return items


def nest(node):
    return (1 if kind_name(node) in COUNTING else 0) + max([nest(c) for c in node[1]], default=0)


def doc_depth(body):
    return 1 + max([nest(c) for c in body], default=0)


def functions_of(nodes):
    out = []
    for n in nodes:
        if is_fn(n):
            out.append(n)
        out.extend(functions_of(n[1]))
    return out


def kinds_used(nodes, acc=None):
    acc = set() if acc is None else acc
    for n in nodes:
        acc.add(kind_name(n) if not is_fn(n) else "Fn:" + n[0][1])
        kinds_used(n[1], acc)
    return acc


def has_else_single_if(nodes):
    for n in nodes:
        if kind_name(n) == "Else" and len(n[1]) == 1 and kind_name(n[1][0]) == "If":
            return True
        if has_else_single_if(n[1]):
            return True
    return False


def lang_ok(lang, nodes):
    lk = "ts" if lang == "js" else lang
    allowed = set(LANG_KINDS[lk]) | {"Elif", "Else", "Handler", "Finally", "Case", "Class"} | {"Fn:" + f for f in LANG_FKINDS[lk]} | {"Fn:FMethod"}
    if lk == "ts":
        allowed.add("Fn:FArrowExpr")
    if lk == "rs":
        allowed -= {"Handler", "Finally"}
    if not kinds_used(nodes) <= allowed:
        return False
    if lk == "py" and has_else_single_if(nodes):
        return False
    return True


# ------------------------------------------------------------------ rendering
class Renderer:
    def __init__(self, lang, indent_unit=None, top_offset=0, pad=""):
        self.lang = "ts" if lang == "js" else lang
        self.unit = indent_unit or (4 if self.lang in ("py", "rs") else 2)
        self.lines: list[str] = [""] * top_offset
        self.pad = pad
        self.n = 0

    def emit(self, level, text):
        self.lines.append(" " * (self.unit * level) + text)

    def cond(self):
        self.n += 1
        return f"c{self.n}"

    def render(self, items):
        items = copy.deepcopy(items)
        for it in items:
            self.node(it, 0)
        return "\n".join(self.lines) + "\n", items

    def body(self, nodes, level):
        if not nodes and self.lang == "py":
            self.emit(level, "pass")
        for c in nodes:
            self.node(c, level)

    def node(self, n, level):
        getattr(self, "n_" + self.lang)(n, level)

    # -------- Python
    def n_py(self, n, level):
        k, cs = kind_name(n), n[1]
        e = self.emit
        if k == "Simple":
            e(level, f"x{self.cond()} = 1")
        elif k == "If":
            e(level, f"if {self.cond()}:")
            self.body([c for c in cs if kind_name(c) not in ("Elif", "Else")], level + 1)
            for c in cs:
                if kind_name(c) == "Elif":
                    e(level, f"elif {self.cond()}:")
                    self.body(c[1], level + 1)
                elif kind_name(c) == "Else":
                    e(level, "else:")
                    self.body(c[1], level + 1)
        elif k in ("For", "ForIn"):
            e(level, f"for i in {self.cond()}:")
            self.body(cs, level + 1)
        elif k == "AsyncFor":
            e(level, f"async for i in {self.cond()}:")
            self.body(cs, level + 1)
        elif k == "While":
            e(level, f"while {self.cond()}:")
            self.body(cs, level + 1)
        elif k == "With":
            e(level, f"with {self.cond()}:")
            self.body(cs, level + 1)
        elif k == "AsyncWith":
            e(level, f"async with {self.cond()}:")
            self.body(cs, level + 1)
        elif k == "Try":
            e(level, "try:")
            self.body([c for c in cs if kind_name(c) not in ("Handler", "Finally")], level + 1)
            for c in cs:
                if kind_name(c) == "Handler":
                    e(level, "except Exception:")
                    self.body(c[1], level + 1)
            for c in cs:
                if kind_name(c) == "Finally":
                    e(level, "finally:")
                    self.body(c[1], level + 1)
        elif k == "Switch":
            e(level, f"match {self.cond()}:")
            for i, c in enumerate(cs):
                e(level + 1, f"case {i}:")
                self.body(c[1], level + 2)
        elif k == "Class":
            e(level, f"class K{self.cond()}:")
            self.body(cs, level + 1)
        elif k == "Fn":
            fk, name = n[0][1], n[0][2]
            args = "(self)" if fk == "FMethod" else "()"
            e(level, ("async def " if fk == "FAsyncDef" else "def ") + name + args + ":")
            n[0][3], n[0][4] = len(self.lines), self.unit * level
            self.body(cs, level + 1)
        else:
            raise ValueError(f"python cannot render {k}")

    # -------- TypeScript / JavaScript
    def n_ts(self, n, level):
        k, cs = kind_name(n), n[1]
        e = self.emit
        nobrace = len(n) > 2 and isinstance(n[2], dict) and n[2].get("nobrace")
        if nobrace:
            head = {"If": f"if ({self.cond()})", "For": "for (let i = 0; i < n; i++)", "ForIn": f"for (const k of {self.cond()})",
                    "While": f"while ({self.cond()})"}[k]
            e(level, head)
            self.node(cs[0], level + 1)
            return
        if k == "Simple":
            e(level, f"x{self.cond()}();")
        elif k == "If":
            e(level, f"if ({self.cond()}) {{")
            self.body([c for c in cs if kind_name(c) not in ("Elif", "Else")], level + 1)
            for c in cs:
                if kind_name(c) == "Elif":
                    e(level, f"}} else if ({self.cond()}) {{")
                    self.body(c[1], level + 1)
                elif kind_name(c) == "Else":
                    e(level, "} else {")
                    self.body(c[1], level + 1)
            e(level, "}")
        elif k == "For":
            e(level, "for (let i = 0; i < n; i++) {")
            self.body(cs, level + 1)
            e(level, "}")
        elif k == "ForIn":
            e(level, f"for (const k of {self.cond()}) {{")
            self.body(cs, level + 1)
            e(level, "}")
        elif k == "While":
            e(level, f"while ({self.cond()}) {{")
            self.body(cs, level + 1)
            e(level, "}")
        elif k == "DoWhile":
            e(level, "do {")
            self.body(cs, level + 1)
            e(level, f"}} while ({self.cond()});")
        elif k == "Try":
            e(level, "try {")
            self.body([c for c in cs if kind_name(c) not in ("Handler", "Finally")], level + 1)
            hs = [c for c in cs if kind_name(c) == "Handler"][:1]  # JS allows one catch clause
            for c in hs:
                e(level, "} catch (err) {")
                self.body(c[1], level + 1)
            for c in [c for c in cs if kind_name(c) == "Finally"][:1]:
                e(level, "} finally {")
                self.body(c[1], level + 1)
            e(level, "}")
        elif k == "Switch":
            e(level, f"switch ({self.cond()}) {{")
            for i, c in enumerate(cs):
                e(level + 1, f"case {i}:")
                self.body(c[1], level + 2)
            e(level, "}")
        elif k == "Class":
            e(level, f"class K{self.cond()} {{")
            self.body(cs, level + 1)
            e(level, "}")
        elif k == "Fn":
            fk, name = n[0][1], n[0][2]
            col = self.unit * level
            if fk == "FArrowExpr":
                head = f"const {name} = "
                cur = n
                while cur[0][1] == "FArrowExpr":
                    cur[0][3], cur[0][4] = len(self.lines) + 1, col + len(head)
                    head += "(a) => "
                    cur = cur[1][0]
                cur[0][3], cur[0][4] = len(self.lines) + 1, col + len(head)
                e(level, head + "(z) => {")
                self.body(cur[1], level + 1)
                e(level, "};")
                return
            if fk == "FArrow" and len(n[0]) > 5 and n[0][5] == "callback":
                head = f"xs{self.cond()}.map("
                e(level, head + "(x) => {")
                n[0][3], n[0][4] = len(self.lines), col + len(head)
                self.body(cs, level + 1)
                e(level, "});")
                return
            if fk == "FArrow":
                head = f"const {name} = "
                e(level, head + "() => {")
                col += len(head)
            elif fk == "FMethod":
                e(level, f"{name}() {{")
            else:
                e(level, ("async " if fk == "FAsyncDef" else "") + f"function {name}() {{")
            n[0][3], n[0][4] = len(self.lines), col
            self.body(cs, level + 1)
            e(level, "};" if fk == "FArrow" else "}")
        else:
            raise ValueError(f"typescript cannot render {k}")

    # -------- Rust
    def n_rs(self, n, level):
        k, cs = kind_name(n), n[1]
        e = self.emit
        if k == "Simple":
            e(level, f"x{self.cond()}();")
        elif k == "If":
            e(level, f"if {self.cond()} {{")
            self.body([c for c in cs if kind_name(c) not in ("Elif", "Else")], level + 1)
            for c in cs:
                if kind_name(c) == "Elif":
                    e(level, f"}} else if {self.cond()} {{")
                    self.body(c[1], level + 1)
                elif kind_name(c) == "Else":
                    e(level, "} else {")
                    self.body(c[1], level + 1)
            e(level, "}")
        elif k in ("For", "ForIn"):
            e(level, "for i in 0..n {")
            self.body(cs, level + 1)
            e(level, "}")
        elif k == "While":
            e(level, f"while {self.cond()} {{")
            self.body(cs, level + 1)
            e(level, "}")
        elif k == "Loop":
            e(level, "loop {")
            self.body(cs, level + 1)
            e(level, "}")
        elif k == "Switch":
            e(level, f"match {self.cond()} {{")
            for i, c in enumerate(cs):
                e(level + 1, f"{i} => {{")
                self.body(c[1], level + 2)
                e(level + 1, "}")
            e(level, "}")
        elif k == "Closure":
            e(level, f"let k{self.cond()} = |q| {{")
            self.body(cs, level + 1)
            e(level, "};")
        elif k == "AsyncBlock":
            e(level, f"let a{self.cond()} = async {{")
            self.body(cs, level + 1)
            e(level, "};")
        elif k == "Class":
            e(level, f"impl K{self.cond()} {{")
            self.body(cs, level + 1)
            e(level, "}")
        elif k == "Fn":
            fk, name = n[0][1], n[0][2]
            args = "(&self)" if fk == "FMethod" else "()"
            e(level, ("async fn " if fk == "FAsyncDef" else "fn ") + name + args + " {")
            n[0][3], n[0][4] = len(self.lines), self.unit * level
            self.body(cs, level + 1)
            e(level, "}")
        else:
            raise ValueError(f"rust cannot render {k}")


def render(lang, items, **kw):
    """returns (text, items with line/col of every function header filled in)"""
    return Renderer(lang, **kw).render(items)


# ------------------------------------------------------------------ Coq encoding
def coq_tree(n) -> str:
    k = n[0]
    if isinstance(k, str):
        ks = "K" + k
    else:
        fk, name, line, col = k[1], k[2], k[3], k[4]
        ks = f"(KFn {fk} {coq_string(name)} {line} {col})"
    return f"T {ks} {coq_list([coq_tree(c) for c in n[1]])}"


def coq_file(items) -> str:
    return coq_list([coq_tree(n) for n in items])
