#!/bin/bash
# offline setup: regenerate Gen/, build every Coq file (full .vo), nothing is fetched.
set -e
cd "$(dirname "$0")"
export PYTHONPATH=/repo:/verif
/venv/bin/python - <<'PY'
import sys
sys.path.insert(0, "/verif")
from harness import coq
from translator import run as trun
trun.generate()
coq.write_coqproject()
PY
cd coq && timeout 3000 make -k -j16 || true
