"""Generated layer for the command-line threshold override of `thailint srp` (C16): which configuration keys
`--max-methods` / `--max-loc` write, into which section, and when nothing is written at all.  Read with `ast` from
src/cli/linters/structure_quality.py (the click command `srp`, `_execute_srp_lint`, `_apply_srp_config_override`) and
src/cli/linters/shared.py (`ensure_config_section`, `set_config_value`).  The option a written value comes from is
resolved through the call chain  click option -> parameter of srp() -> argument of _execute_srp_lint(...) ->
argument of _apply_srp_config_override(...) -> value argument of set_config_value(...), so swapped arguments anywhere
on the way change the generated table.  Every item is fail-closed (Unsupported => nothing is emitted)."""
import ast

from translator.lib import Unsupported, coq_list, coq_str_list, coq_string, defn, find_func, parse

GEN_FILE = "SrpCliGen"
HEADER = "From TL Require Import Lib.Base."
SERVES = ["C16"]
SQ = "src/cli/linters/structure_quality.py"
SH = "src/cli/linters/shared.py"
FINGERPRINTS = [
    (SQ, ["srp", "_execute_srp_lint", "_apply_srp_config_override", "_setup_srp_orchestrator", "_run_srp_lint"]),
    (SH, ["ensure_config_section", "set_config_value"]),
]


def need(cond, what):
    if not cond:
        raise Unsupported(what)


def u(e):
    return ast.unparse(e)


def body_of(f):
    b = f.body
    if b and isinstance(b[0], ast.Expr) and isinstance(b[0].value, ast.Constant) and isinstance(b[0].value.value, str):
        b = b[1:]
    return b


def _params(f):
    need(not f.args.vararg and not f.args.kwarg and not f.args.kwonlyargs and not f.args.posonlyargs, f"{f.name}: plain positional parameters")
    return [a.arg for a in f.args.args]


def _single_call(f, callee):
    """the one call of `callee` inside f, all arguments positional names -> list of names"""
    hits = [n for n in ast.walk(f) if isinstance(n, ast.Call) and u(n.func) == callee]
    need(len(hits) == 1, f"{f.name}: exactly one call of {callee}")
    c = hits[0]
    need(not c.keywords and all(isinstance(a, (ast.Name, ast.Attribute)) for a in c.args), f"{f.name}: {callee}(...) with positional name arguments")
    return [u(a) for a in c.args]


def _click_options(f):
    """parameter name -> (flag, declared type) for every @click.option of the command"""
    out = {}
    for d in f.decorator_list:
        if not (isinstance(d, ast.Call) and u(d.func) == "click.option"):
            continue
        strs = [a.value for a in d.args if isinstance(a, ast.Constant) and isinstance(a.value, str)]
        need(len(strs) == len(d.args) and strs, f"click.option arguments of {f.name}")
        longs = [s for s in strs if s.startswith("--")]
        plain = [s for s in strs if not s.startswith("-")]
        need(len(longs) == 1 and len(plain) <= 1, f"click.option names {strs}")
        name = plain[0] if plain else longs[0].split("/")[0][2:].replace("-", "_")
        ty = [u(k.value) for k in d.keywords if k.arg == "type"]
        out[name] = (longs[0], ty[0] if ty else None)
    return out


def shared_helpers():
    """ensure_config_section / set_config_value do what the model assumes: create the missing section as an empty dict and return the
    section object itself; skip a None value, otherwise config[key] = value"""
    sh = parse(SH)
    ens = find_func(sh, "ensure_config_section")
    need(_params(ens) == ["orchestrator", "section"], "ensure_config_section signature")
    need([u(s) for s in body_of(ens)] == ["if section not in orchestrator.config:\n    orchestrator.config[section] = {}",
                                          "config_section: dict[str, Any] = orchestrator.config[section]", "return config_section"],
         "ensure_config_section shape")
    scv = find_func(sh, "set_config_value")
    need(_params(scv) == ["config", "key", "value", "verbose"], "set_config_value signature")
    b = [u(s) for s in body_of(scv)]
    need(len(b) == 3 and b[0] == "if value is None:\n    return" and b[1] == "config[key] = value" and b[2].startswith("logger.debug("), "set_config_value shape")
    return defn("srp_cli_helpers_ok", "bool", "true")


def cli_override():
    mod = parse(SQ)
    ap = find_func(mod, "_apply_srp_config_override")
    ap_params = _params(ap)
    need(len(ap_params) >= 2 and ap_params[0] == "orchestrator", "_apply_srp_config_override signature")
    b = body_of(ap)
    need(len(b) >= 3, "_apply_srp_config_override: guard, section, assignments")
    guard, sec = b[0], b[1]
    need(isinstance(guard, ast.If) and not guard.orelse and [u(s) for s in guard.body] == ["return"], "_apply_srp_config_override: early return")
    tests = guard.test.values if isinstance(guard.test, ast.BoolOp) and isinstance(guard.test.op, ast.And) else [guard.test]
    guard_params = []
    for t in tests:
        need(isinstance(t, ast.Compare) and isinstance(t.left, ast.Name) and len(t.ops) == 1 and isinstance(t.ops[0], ast.Is)
             and u(t.comparators[0]) == "None" and t.left.id in ap_params, f"_apply_srp_config_override: guard test {u(t)}")
        guard_params.append(t.left.id)
    need(isinstance(sec, ast.Assign) and len(sec.targets) == 1 and isinstance(sec.targets[0], ast.Name) and isinstance(sec.value, ast.Call)
         and u(sec.value.func) == "ensure_config_section" and len(sec.value.args) == 2 and not sec.value.keywords and u(sec.value.args[0]) == "orchestrator"
         and isinstance(sec.value.args[1], ast.Constant) and isinstance(sec.value.args[1].value, str), "_apply_srp_config_override: ensure_config_section call")
    secvar, secname = sec.targets[0].id, sec.value.args[1].value
    sets = []
    for st in b[2:]:
        need(isinstance(st, ast.Expr) and isinstance(st.value, ast.Call) and u(st.value.func) == "set_config_value" and len(st.value.args) == 4
             and not st.value.keywords, f"_apply_srp_config_override: unexpected statement {u(st)[:60]}")
        a = st.value.args
        need(u(a[0]) == secvar and isinstance(a[1], ast.Constant) and isinstance(a[1].value, str) and isinstance(a[2], ast.Name)
             and a[2].id in ap_params and a[2].id not in ("orchestrator", "verbose"), f"set_config_value arguments {u(st)[:80]}")
        sets.append((a[1].value, a[2].id))
    # the call chain back to the click options
    ex = find_func(mod, "_execute_srp_lint")
    ex_params = _params(ex)
    order = [u(s.value.func) if isinstance(s, (ast.Assign, ast.Expr)) and isinstance(s.value, ast.Call) else "" for s in body_of(ex)]
    for fn in ("_setup_srp_orchestrator", "_apply_srp_config_override", "_run_srp_lint"):
        need(order.count(fn) == 1, f"_execute_srp_lint: one top-level call of {fn}")
    need(order.index("_setup_srp_orchestrator") < order.index("_apply_srp_config_override") < order.index("_run_srp_lint"),
         "_execute_srp_lint: override applied between set-up and linting")
    need(u(body_of(ex)[order.index("_setup_srp_orchestrator")].targets[0]) == "orchestrator", "_execute_srp_lint: orchestrator variable")
    ap_args = _single_call(ex, "_apply_srp_config_override")
    need(len(ap_args) == len(ap_params) and ap_args[0] == "orchestrator", "_apply_srp_config_override call arity")
    need(_single_call(ex, "_run_srp_lint")[0] == "orchestrator", "_run_srp_lint runs on the overridden orchestrator")
    cmd = find_func(mod, "srp")
    cmd_params = _params(cmd)
    ex_args = _single_call(cmd, "_execute_srp_lint")
    need(len(ex_args) <= len(ex_params), "_execute_srp_lint call arity")
    opts = _click_options(cmd)

    def flag_of(ap_param):
        via_ex = ap_args[ap_params.index(ap_param)]
        need(via_ex in ex_params, f"{ap_param}: argument {via_ex} is not a parameter of _execute_srp_lint")
        j = ex_params.index(via_ex)
        need(j < len(ex_args), f"{via_ex}: not passed by the command")
        via_cmd = ex_args[j]
        need(via_cmd in cmd_params and via_cmd in opts, f"{via_ex}: {via_cmd} is not a click option of the command")
        flag, ty = opts[via_cmd]
        need(ty == "int", f"{flag}: type=int expected, got {ty}")
        return flag
    out = defn("srp_cli_section", "string", coq_string(secname))
    out += defn("srp_cli_guard", "list string", coq_str_list([flag_of(p) for p in guard_params]))
    out += defn("srp_cli_sets", "list (string * string)", coq_list([f"({coq_string(k)}, {coq_string(flag_of(p))})" for k, p in sets]))
    return out


ITEMS = [
    ("shared_helpers", shared_helpers),
    ("cli_override", cli_override),
]
