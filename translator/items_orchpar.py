"""Generated layer for the parallel orchestrator (C07): the Violation record and its to_dict/from_dict
tables, the Severity enum, the worker-count default, the sequential-fallback threshold, the error
handling of the worker / future extraction, the CLI dispatch and exit codes of the cross-file commands.
Everything is read with `ast` from /repo; any unexpected shape aborts the item (fail closed)."""
import ast
import re

from translator.lib import (Unsupported, cmp_op, coq_list, coq_str_list, coq_string, const_value, defn, find_assign,
                            find_class, find_func, parse)

GEN_FILE = "OrchParGen"
HEADER = "From TL Require Import Lib.Base Lib.GenTypes Model.OrchParTypes."
SERVES = ["C07"]
CORE = "src/orchestrator/core.py"
TYPES = "src/core/types.py"
UTILS = "src/cli/utils.py"
SMELLS = "src/cli/linters/code_smells.py"
FINGERPRINTS = [  # hand-modelled structure: a change enlarges the correspondence budget, it is not an obligation
    (CORE, ["lint_files", "lint_files_parallel", "_execute_parallel_linting", "_collect_parallel_results",
            "_extract_violations_from_future", "_finalize_rules", "_lint_file_worker", "lint_directory_parallel",
            "lint_directory", "_safe_check_rule", "_execute_rules", "lint_file"]),
    (TYPES, ["Violation", "Severity"]),
    (UTILS, ["execute_linting_on_paths", "handle_linting_error"]),
    ("src/linters/dry/linter.py", ["check", "finalize"]),
    ("src/core/base.py", ["BaseLintRule"]),
    ("src/linters/stringly_typed/linter.py", ["finalize", "_ensure_storage_initialized"]),
]


def _body(fn: ast.FunctionDef) -> list[ast.stmt]:
    b = list(fn.body)
    if b and isinstance(b[0], ast.Expr) and isinstance(b[0].value, ast.Constant) and isinstance(b[0].value.value, str):
        b = b[1:]
    return b


def _pyval(e: ast.expr) -> str:
    """default values of dataclass fields"""
    if isinstance(e, ast.Constant):
        if e.value is None:
            return "VNone"
        if isinstance(e.value, str):
            return f"(VStr {coq_string(e.value)})"
        if isinstance(e.value, bool):
            raise Unsupported("bool default")
        if isinstance(e.value, int):
            return f"(VInt {'true' if e.value < 0 else 'false'} {abs(e.value)})"
    if isinstance(e, ast.Attribute) and isinstance(e.value, ast.Name):
        return f"(VEnum {coq_string(e.value.id)} {coq_string(e.attr)})"
    raise Unsupported(f"default value {ast.unparse(e)}")


# ------------------------------------------------------------------ src/core/types.py
def violation_fields():
    cls = find_class(parse(TYPES), "Violation")
    if not any(ast.unparse(d) == "dataclass" for d in cls.decorator_list):
        raise Unsupported("Violation is not a plain @dataclass")
    out = []
    for st in cls.body:
        if isinstance(st, ast.AnnAssign) and isinstance(st.target, ast.Name):
            default = "None" if st.value is None else f"(Some {_pyval(st.value)})"
            out.append(f"({coq_string(st.target.id)}, {default})")
        elif isinstance(st, ast.Expr) and isinstance(st.value, ast.Constant) and isinstance(st.value.value, str):
            continue  # attribute docstring
        elif isinstance(st, ast.FunctionDef):
            continue
        else:
            raise Unsupported(f"Violation body: {ast.unparse(st)[:60]}")
    if not out:
        raise Unsupported("no fields")
    return defn("violation_fields", "list (string * option pyval)", coq_list(out))


def severity_members():
    cls = find_class(parse(TYPES), "Severity")
    if [ast.unparse(b) for b in cls.bases] != ["Enum"]:
        raise Unsupported("Severity bases")
    out = []
    for st in cls.body:
        if isinstance(st, ast.Assign) and len(st.targets) == 1 and isinstance(st.targets[0], ast.Name):
            v = const_value(st.value)
            if not isinstance(v, str):
                raise Unsupported("non-string enum value")
            out.append(f"({coq_string(st.targets[0].id)}, {coq_string(v)})")
        elif isinstance(st, ast.Expr) and isinstance(st.value, ast.Constant):
            continue
        else:
            raise Unsupported(f"Severity body: {ast.unparse(st)[:60]}")
    return defn("severity_class", "string", coq_string("Severity")) + defn("severity_members", "list (string * string)", coq_list(out))


def to_dict_spec():
    """return {"k": self.attr, "severity": self.severity.value, ...}"""
    f = find_func(find_class(parse(TYPES), "Violation"), "to_dict")
    b = _body(f)
    if len(b) != 1 or not isinstance(b[0], ast.Return) or not isinstance(b[0].value, ast.Dict):
        raise Unsupported("to_dict is not a single `return {...}`")
    out = []
    for k, v in zip(b[0].value.keys, b[0].value.values):
        if not (isinstance(k, ast.Constant) and isinstance(k.value, str)):
            raise Unsupported("to_dict key")
        if isinstance(v, ast.Attribute) and isinstance(v.value, ast.Name) and v.value.id == "self":
            out.append(f"({coq_string(k.value)}, ({coq_string(v.attr)}, TId))")
        elif (isinstance(v, ast.Attribute) and v.attr == "value" and isinstance(v.value, ast.Attribute)
              and isinstance(v.value.value, ast.Name) and v.value.value.id == "self"):
            out.append(f"({coq_string(k.value)}, ({coq_string(v.value.attr)}, TEnumValue))")
        else:
            raise Unsupported(f"to_dict value {ast.unparse(v)}")
    return defn("to_dict_spec", "list (string * (string * vtrans))", coq_list(out))


def from_dict_spec():
    """return cls(f=data["k"], severity=Severity(data["k"]), suggestion=data.get("k"))"""
    f = find_func(find_class(parse(TYPES), "Violation"), "from_dict")
    b = _body(f)
    if len(b) != 1 or not isinstance(b[0], ast.Return) or not isinstance(b[0].value, ast.Call):
        raise Unsupported("from_dict is not a single `return cls(...)`")
    call = b[0].value
    if ast.unparse(call.func) != "cls" or call.args:
        raise Unsupported("from_dict: not cls(keyword=...)")
    arg = f.args.args[1].arg if len(f.args.args) == 2 else None
    if arg is None:
        raise Unsupported("from_dict signature")

    def access(e):
        if isinstance(e, ast.Subscript) and isinstance(e.value, ast.Name) and e.value.id == arg and isinstance(e.slice, ast.Constant) \
                and isinstance(e.slice.value, str):
            return e.slice.value, "DIndex"
        if isinstance(e, ast.Call) and isinstance(e.func, ast.Attribute) and e.func.attr == "get" and isinstance(e.func.value, ast.Name) \
                and e.func.value.id == arg and len(e.args) == 1 and not e.keywords and isinstance(e.args[0], ast.Constant) \
                and isinstance(e.args[0].value, str):
            return e.args[0].value, "DGet"
        raise Unsupported(f"from_dict access {ast.unparse(e)}")

    out = []
    for kw in call.keywords:
        if kw.arg is None:
            raise Unsupported("from_dict: **kwargs")
        v = kw.value
        if isinstance(v, ast.Call) and isinstance(v.func, ast.Name) and v.func.id == "Severity" and len(v.args) == 1 and not v.keywords:
            key, acc = access(v.args[0])
            out.append(f"({coq_string(kw.arg)}, ({coq_string(key)}, {acc}, TEnumOfValue))")
        else:
            key, acc = access(v)
            out.append(f"({coq_string(kw.arg)}, ({coq_string(key)}, {acc}, TId))")
    return defn("from_dict_spec", "list (string * (string * daccess * vtrans))", coq_list(out))


# ------------------------------------------------------------------ src/orchestrator/core.py
def _orch(name):
    return find_func(find_class(parse(CORE), "Orchestrator"), name)


def default_max_workers():
    v = const_value(find_assign(parse(CORE), "DEFAULT_MAX_WORKERS"))
    if not isinstance(v, int) or isinstance(v, bool) or v < 0:
        raise Unsupported("DEFAULT_MAX_WORKERS")
    return defn("default_max_workers", "nat", str(v))


def effective_workers():
    """effective_workers = max_workers or min(DEFAULT_MAX_WORKERS, multiprocessing.cpu_count())"""
    f = _orch("lint_files_parallel")
    hits = [st for st in _body(f) if isinstance(st, ast.Assign) and ast.unparse(st.targets[0]) == "effective_workers"]
    if len(hits) != 1:
        raise Unsupported("effective_workers assignment")
    got = ast.unparse(hits[0].value)
    if got != "max_workers or min(DEFAULT_MAX_WORKERS, multiprocessing.cpu_count())":
        raise Unsupported(f"effective_workers expression changed: {got}")
    return ("Definition effective_workers (max_workers : option nat) (cpu_count : nat) : nat :=\n"
            "  match max_workers with Some (S n) => S n | _ => Nat.min default_max_workers cpu_count end.\n")


def par_threshold():
    """if len(file_paths) <op> effective_workers * <k>: return self.lint_files(file_paths)"""
    f = _orch("lint_files_parallel")
    hits = [st for st in _body(f) if isinstance(st, ast.If) and isinstance(st.test, ast.Compare)]
    if len(hits) != 1:
        raise Unsupported("threshold test")
    st = hits[0]
    op = cmp_op(st.test)
    if ast.unparse(st.test.left) != "len(file_paths)":
        raise Unsupported(f"threshold left operand {ast.unparse(st.test.left)}")
    r = st.test.comparators[0]
    if not (isinstance(r, ast.BinOp) and isinstance(r.op, ast.Mult)):
        raise Unsupported(f"threshold right operand {ast.unparse(r)}")
    if ast.unparse(r.left) == "effective_workers":
        k = const_value(r.right)
    elif ast.unparse(r.right) == "effective_workers":
        k = const_value(r.left)
    else:
        raise Unsupported(f"threshold right operand {ast.unparse(r)}")
    if not isinstance(k, int) or isinstance(k, bool) or k < 0:
        raise Unsupported("threshold factor")
    return defn("par_threshold_cmp", "cmp", op) + defn("par_threshold_factor", "nat", str(k))


def par_fallback():
    """below the threshold: `return self.lint_files(file_paths)` and nothing else"""
    f = _orch("lint_files_parallel")
    hits = [st for st in _body(f) if isinstance(st, ast.If) and isinstance(st.test, ast.Compare)]
    if len(hits) != 1:
        raise Unsupported("threshold test")
    st = hits[0]
    if st.orelse or len(st.body) != 1 or ast.unparse(st.body[0]) != "return self.lint_files(file_paths)":
        raise Unsupported("fallback branch is not `return self.lint_files(file_paths)`")
    return defn("par_fallback_is_lint_files", "bool", "true")


def par_empty_guard():
    f = _orch("lint_files_parallel")
    b = _body(f)
    if not b or ast.unparse(b[0]) != "if not file_paths:\n    return []":
        raise Unsupported("empty-input guard")
    return defn("par_empty_returns_nil", "bool", "true")


def _handlers(fn: ast.FunctionDef, what: str):
    tries = [st for st in _body(fn) if isinstance(st, ast.Try)]
    if len(tries) != 1 or tries[0].orelse or tries[0].finalbody:
        raise Unsupported(f"{what}: expected one try/except")
    return tries[0]


def parent_evidence():
    """Does lint_files_parallel gather the cross-file evidence in the parent before _finalize_rules(), and does that loop
    decide built-in exclusion / ignore on the same path expression as lint_file does?"""
    f = _orch("lint_files_parallel")
    stmts = [ast.unparse(st) for st in _body(f)]
    try:
        a = stmts.index("violations = self._execute_parallel_linting(file_paths, effective_workers)")
        z = stmts.index("violations.extend(self._finalize_rules())")
    except ValueError as e:
        raise Unsupported(f"parallel branch of lint_files_parallel changed: {stmts[-4:]}") from e
    between = stmts[a + 1:z]
    cls = find_class(parse(CORE), "Orchestrator")
    has_fn = any(isinstance(n, ast.FunctionDef) and n.name == "_collect_cross_file_evidence" for n in cls.body)
    if between == [] and not has_fn:
        return defn("parent_collects_evidence", "bool", "false") + defn("parent_exclusion_like_lint_file", "bool", "true")
    if between != ["self._collect_cross_file_evidence(file_paths)"] or not has_fn:
        raise Unsupported(f"statements between the worker phase and _finalize_rules: {between}")

    def tests(fn):
        ex = [ast.unparse(n.args[0]) for n in ast.walk(fn) if isinstance(n, ast.Call) and ast.unparse(n.func) == "_is_hardcoded_excluded" and len(n.args) == 1]
        ig = [ast.unparse(n.args[0]) for n in ast.walk(fn) if isinstance(n, ast.Call) and ast.unparse(n.func) == "self.ignore_parser.is_ignored" and len(n.args) == 1]
        if len(ex) != 1 or len(ig) != 1:
            raise Unsupported(f"{fn.name}: exclusion/ignore tests {ex} {ig}")
        if ex[0] not in ("file_path", "self._path_inside_project(file_path)"):
            raise Unsupported(f"{fn.name}: exclusion decided on {ex[0]}")
        return ex[0], ig[0]
    g = _orch("_collect_cross_file_evidence")
    loops = [n for n in g.body if isinstance(n, ast.For)]
    if len(loops) != 1 or ast.unparse(loops[0].iter) != "file_paths" or ast.unparse(loops[0].target) != "file_path":
        raise Unsupported("_collect_cross_file_evidence: loop over file_paths")
    rules = [ast.unparse(st.value) for st in g.body if isinstance(st, ast.Assign) and ast.unparse(st.targets[0]) == "rules"]
    if rules != ["[r for r in self.registry.list_all() if type(r).finalize is not BaseLintRule.finalize]"]:
        raise Unsupported(f"_collect_cross_file_evidence: rule selection {rules}")
    pe, pi = tests(g)
    le, li = tests(_orch("lint_file"))
    if pi != li:
        raise Unsupported(f"ignore test decided on {pi} in the parent loop, on {li} in lint_file")
    return (defn("parent_collects_evidence", "bool", "true")
            + defn("parent_exclusion_like_lint_file", "bool", "true" if pe == le else "false"))


def parent_language():
    """The parent's evidence loop must hand the cross-file rules the same language as lint_file does: both build
    FileLintContext(file_path, <detect_language(file_path)>, metadata=...), and the loop skips files only on the exclusion test."""
    cls = find_class(parse(CORE), "Orchestrator")
    if not any(isinstance(n, ast.FunctionDef) and n.name == "_collect_cross_file_evidence" for n in cls.body):
        return defn("parent_language_like_lint_file", "bool", "true")      # no parent loop at all (see parent_evidence)

    def lang_expr(fn):
        calls = [n for n in ast.walk(fn) if isinstance(n, ast.Call) and ast.unparse(n.func) == "FileLintContext"]
        if len(calls) != 1 or len(calls[0].args) != 2 or ast.unparse(calls[0].args[0]) != "file_path":
            raise Unsupported(f"{fn.name}: FileLintContext construction")
        e = calls[0].args[1]
        if isinstance(e, ast.Name):
            defs = [st.value for st in ast.walk(fn) if isinstance(st, ast.Assign) and len(st.targets) == 1
                    and isinstance(st.targets[0], ast.Name) and st.targets[0].id == e.id]
            if len(defs) != 1:
                raise Unsupported(f"{fn.name}: {e.id} assigned {len(defs)} times")
            e = defs[0]
        return ast.unparse(e)
    g = _orch("_collect_cross_file_evidence")
    pl, ll = lang_expr(g), lang_expr(_orch("lint_file"))
    if pl != ll or ll != "detect_language(file_path)":
        raise Unsupported(f"language handed to the rules: parent loop `{pl}`, lint_file `{ll}`")
    n_continue = sum(1 for n in ast.walk(g) if isinstance(n, ast.Continue))
    if n_continue != 1:
        raise Unsupported(f"_collect_cross_file_evidence skips files in {n_continue} places (expected: the exclusion test only)")
    return defn("parent_language_like_lint_file", "bool", "true")


def seq_entry_points():
    """Template for the two sequential entry points: lint_files and lint_directory are the same loop
         violations = []; [file_paths = _collect_files_fast(dir_path, recursive)]
         for file_path in file_paths: violations.extend(self.lint_file(file_path))
         for rule in self.registry.list_all(): violations.extend(rule.finalize())
         return violations
    (comments / docstrings free); emits which of them collects the files itself."""
    rows = []
    for name in ("lint_files", "lint_directory"):
        stmts = [ast.unparse(st) for st in _body(_orch(name))]
        collects = "file_paths = _collect_files_fast(dir_path, recursive)" in stmts
        want = (["violations = []"] + (["file_paths = _collect_files_fast(dir_path, recursive)"] if collects else [])
                + ["for file_path in file_paths:\n    violations.extend(self.lint_file(file_path))",
                   "for rule in self.registry.list_all():\n    violations.extend(rule.finalize())", "return violations"])
        if sorted(stmts[:-3]) != sorted(want[:-3]) or stmts[-3:] != want[-3:]:
            raise Unsupported(f"{name} is not the lint_file loop followed by the finalize loop: {stmts}")
        rows.append(f"({coq_string(name)}, {'true' if collects else 'false'})")
    return defn("seq_entry_points", "list (string * bool)", coq_list(rows))


def worker_template():
    """Template for the task side: what goes into a work item and how the worker uses it.
         work_items = [(fp, self.project_root, self.config) for fp in file_paths]      (_execute_parallel_linting)
         futures = [executor.submit(_lint_file_worker, item) for item in work_items]   (one task per file, all files)
         file_path, project_root, config = args                                        (_lint_file_worker)
         orchestrator = Orchestrator(project_root=project_root, config=config)
         violations = orchestrator.lint_file(file_path);  return [v.to_dict() for v in violations]
    Other statements (comments, logging, hooks) are free; these must be present exactly once."""
    g = _orch("_execute_parallel_linting")
    comps = [n for n in ast.walk(g) if isinstance(n, ast.ListComp)]
    items = [c for c in comps if isinstance(c.elt, ast.Tuple)]
    if len(items) != 1 or ast.unparse(items[0].generators[0].iter) != "file_paths" or items[0].generators[0].ifs:
        raise Unsupported("_execute_parallel_linting: work item comprehension")
    var = ast.unparse(items[0].generators[0].target)
    tup = [ast.unparse(e) for e in items[0].elt.elts]
    if tup != [var, "self.project_root", "self.config"]:
        raise Unsupported(f"work item is {tup}")
    subs = [c for c in comps if isinstance(c.elt, ast.Call) and ast.unparse(c.elt.func) == "executor.submit"]
    if len(subs) != 1 or [ast.unparse(a) for a in subs[0].elt.args] != ["_lint_file_worker", ast.unparse(subs[0].generators[0].target)] \
            or ast.unparse(subs[0].generators[0].iter) != "work_items" or subs[0].generators[0].ifs:
        raise Unsupported("_execute_parallel_linting: submission of the tasks")
    f = find_func(parse(CORE), "_lint_file_worker")
    src = [ast.unparse(n) for n in ast.walk(f) if isinstance(n, (ast.Assign, ast.Return))]
    for want in ("file_path, project_root, config = args", "orchestrator = Orchestrator(project_root=project_root, config=config)",
                 "violations = orchestrator.lint_file(file_path)", "return [v.to_dict() for v in violations]"):
        if src.count(want) != 1:
            raise Unsupported(f"_lint_file_worker: `{want}` occurs {src.count(want)} times")
    return (defn("work_item", "list string", coq_str_list(["file_path", "self.project_root", "self.config"]))
            + defn("worker_builds_fresh_orchestrator_with_item_config", "bool", "true"))


def _reraise_then_swallow(t: ast.Try, what: str):
    """handlers: zero or more `except T: raise`, then one handler that logs and does `return []`"""
    if not t.handlers or any(h.type is None for h in t.handlers):
        raise Unsupported(f"{what} handlers")
    rer = []
    for h in t.handlers[:-1]:
        if len(h.body) == 1 and isinstance(h.body[0], ast.Raise) and h.body[0].exc is None and isinstance(h.type, ast.Name):
            rer.append(h.type.id)
        else:
            raise Unsupported(f"{what}: handler {ast.unparse(h.type)} is not a plain re-raise")
    h = t.handlers[-1]
    ret = [st for st in h.body if isinstance(st, ast.Return)]
    if len(ret) != 1 or ast.unparse(ret[0]) != "return []" or any(isinstance(st, ast.Raise) for st in ast.walk(h)):
        raise Unsupported(f"{what}: last handler does not `return []`")
    return rer, ast.unparse(h.type)


def worker():
    """_lint_file_worker: which exceptions are re-raised, which are turned into an empty result
    (the body - fresh Orchestrator, lint_file, to_dict - is hand-modelled and tied by the correspondence check)"""
    f = find_func(parse(CORE), "_lint_file_worker")
    t = _handlers(f, "_lint_file_worker")
    rer, catches = _reraise_then_swallow(t, "worker")
    return (defn("worker_reraises", "list string", coq_str_list(rer)) + defn("worker_catches", "string", coq_string(catches))
            + defn("worker_error_result_empty", "bool", "true"))


def extract():
    f = _orch("_extract_violations_from_future")
    t = _handlers(f, "_extract_violations_from_future")
    rer, catches = _reraise_then_swallow(t, "extract")
    return (defn("extract_reraises", "list string", coq_str_list(rer)) + defn("extract_catches", "string", coq_string(catches))
            + defn("extract_error_result_empty", "bool", "true"))


def safe_check():
    """_safe_check_rule: ValueError is re-raised (configuration errors), any other Exception -> []"""
    f = _orch("_safe_check_rule")
    t = _handlers(f, "_safe_check_rule")
    if [ast.unparse(st) for st in t.body] != ["return rule.check(context)"]:
        raise Unsupported("_safe_check_rule body")
    reraised, swallowed = [], []
    for h in t.handlers:
        if h.type is None:
            raise Unsupported("bare except")
        if len(h.body) == 1 and isinstance(h.body[0], ast.Raise) and h.body[0].exc is None:
            reraised.append(ast.unparse(h.type))
        elif any(isinstance(st, ast.Return) and ast.unparse(st) == "return []" for st in h.body) and not any(isinstance(x, ast.Raise) for x in ast.walk(h)):
            swallowed.append(ast.unparse(h.type))
        else:
            raise Unsupported(f"handler {ast.unparse(h.type)}")
    return defn("check_reraises", "list string", coq_str_list(reraised)) + defn("check_swallows", "list string", coq_str_list(swallowed))


def dir_parallel():
    f = _orch("lint_directory_parallel")
    src = [ast.unparse(st) for st in _body(f)]
    want = ["file_paths = _collect_files_fast(dir_path, recursive)", "return self.lint_files_parallel(file_paths, max_workers=max_workers)"]
    if src != want:
        raise Unsupported(f"lint_directory_parallel changed: {src}")
    return defn("dir_parallel_collects_then_lint_files_parallel", "bool", "true")


# ------------------------------------------------------------------ CLI
def cli_dispatch():
    """execute_linting_on_paths: which orchestrator method serves files / directories with and without --parallel"""
    f = find_func(parse(UTILS), "execute_linting_on_paths")
    rows = []

    def pair(ifst: ast.If, what: str, want_args: list):
        if ast.unparse(ifst.test) != "parallel" or len(ifst.body) != 1 or len(ifst.orelse) != 1:
            raise Unsupported(f"{what}: dispatch test")
        names = []
        for st in (ifst.body[0], ifst.orelse[0]):
            if not (isinstance(st, ast.Expr) and isinstance(st.value, ast.Call) and ast.unparse(st.value.func) == "violations.extend"
                    and len(st.value.args) == 1 and isinstance(st.value.args[0], ast.Call)):
                raise Unsupported(f"{what}: dispatch statement {ast.unparse(st)}")
            c = st.value.args[0]
            if not (isinstance(c.func, ast.Attribute) and ast.unparse(c.func.value) == "orchestrator"):
                raise Unsupported(f"{what}: callee")
            args = [ast.unparse(a) for a in c.args] + [f"{k.arg}={ast.unparse(k.value)}" for k in c.keywords]
            if args != want_args:
                raise Unsupported(f"{what}: arguments {args}")
            names.append(c.func.attr)
        return names

    seen = 0
    for st in _body(f):
        if isinstance(st, ast.If) and ast.unparse(st.test) == "files":
            inner = [x for x in st.body if isinstance(x, ast.If)]
            if len(inner) != 1 or len(st.body) != 1:
                raise Unsupported("files branch")
            p, s = pair(inner[0], "files", ["files"])
            rows.append(f"({coq_string('files')}, {coq_string(p)}, {coq_string(s)})")
            seen += 1
        elif isinstance(st, ast.For) and ast.unparse(st.iter) == "dirs":
            inner = [x for x in st.body if isinstance(x, ast.If)]
            if len(inner) != 1 or len(st.body) != 1:
                raise Unsupported("dirs loop")
            p, s = pair(inner[0], "dirs", ["dir_path", "recursive=recursive"])
            rows.append(f"({coq_string('dir')}, {coq_string(p)}, {coq_string(s)})")
            seen += 1
    if seen != 2:
        raise Unsupported("dispatch shape")
    return defn("cli_dispatch", "list (string * string * string)", coq_list(rows))


def _exit_site(fn: ast.FunctionDef, var: str):
    hits = [n for n in ast.walk(fn) if isinstance(n, ast.Call) and ast.unparse(n.func) == "sys.exit"]
    if len(hits) != 1 or len(hits[0].args) != 1:
        raise Unsupported(f"{fn.name}: sys.exit sites")
    e = hits[0].args[0]
    if not (isinstance(e, ast.IfExp) and ast.unparse(e.test) == var):
        raise Unsupported(f"{fn.name}: exit expression {ast.unparse(e)}")
    a, b = const_value(e.body), const_value(e.orelse)
    if not all(isinstance(x, int) and not isinstance(x, bool) and x >= 0 for x in (a, b)):
        raise Unsupported("exit codes")
    return a, b


def _filter(fn: ast.FunctionDef):
    rets = [n for n in ast.walk(fn) if isinstance(n, ast.Return)]
    if len(rets) != 1 or not isinstance(rets[0].value, ast.ListComp):
        raise Unsupported(f"{fn.name}: filter")
    lc = rets[0].value
    if ast.unparse(lc.elt) != "v" or len(lc.generators) != 1 or len(lc.generators[0].ifs) != 1 or ast.unparse(lc.generators[0].iter) != "all_violations":
        raise Unsupported(f"{fn.name}: filter comprehension")
    t = lc.generators[0].ifs[0]
    if isinstance(t, ast.Call) and ast.unparse(t.func) == "v.rule_id.startswith" and len(t.args) == 1:
        return f"(FStartsWith {coq_string(const_value(t.args[0]))})"
    if isinstance(t, ast.Compare) and len(t.ops) == 1 and isinstance(t.ops[0], ast.In) and ast.unparse(t.comparators[0]) == "v.rule_id":
        return f"(FContains {coq_string(const_value(t.left))})"
    raise Unsupported(f"{fn.name}: filter test {ast.unparse(t)}")


def cli_commands():
    mod = parse(SMELLS)
    d_exit = _exit_site(find_func(mod, "_execute_dry_lint"), "dry_violations")
    s_exit = _exit_site(find_func(mod, "_execute_stringly_typed_lint"), "stringly_violations")
    d_f = _filter(find_func(mod, "_run_dry_lint"))
    s_f = _filter(find_func(mod, "_run_stringly_typed_lint"))
    h = find_func(parse(UTILS), "handle_linting_error")
    ex = [n for n in ast.walk(h) if isinstance(n, ast.Call) and ast.unparse(n.func) == "sys.exit"]
    if len(ex) != 1 or len(ex[0].args) != 1:
        raise Unsupported("handle_linting_error exit")
    err = const_value(ex[0].args[0])
    if not isinstance(err, int) or isinstance(err, bool) or err < 0:
        raise Unsupported("error exit code")
    m_exit = _exit_site(find_func(mod, "_execute_magic_numbers_lint"), "magic_numbers_violations")
    m_f = _filter(find_func(mod, "_run_magic_numbers_lint"))
    rows = [f"({coq_string('dry')}, ({d_f}, {d_exit[0]}, {d_exit[1]}))", f"({coq_string('stringly-typed')}, ({s_f}, {s_exit[0]}, {s_exit[1]}))",
            f"({coq_string('magic-numbers')}, ({m_f}, {m_exit[0]}, {m_exit[1]}))"]
    return defn("cli_commands", "list (string * (rfilter * nat * nat))", coq_list(rows)) + defn("cli_error_exit", "nat", str(err))


def json_fields():
    """_output_json: the fields of a violation shown by --format json"""
    f = find_func(parse("src/core/cli_utils.py"), "_output_json")
    lcs = [n for n in ast.walk(f) if isinstance(n, ast.ListComp) and isinstance(n.elt, ast.Dict)]
    if len(lcs) != 1 or ast.unparse(lcs[0].generators[0].iter) != "violations" or ast.unparse(lcs[0].generators[0].target) != "v" or lcs[0].generators[0].ifs:
        raise Unsupported("_output_json comprehension")
    rows = []
    for k, v in zip(lcs[0].elt.keys, lcs[0].elt.values):
        if not (isinstance(k, ast.Constant) and isinstance(k.value, str)):
            raise Unsupported("json key")
        src = ast.unparse(v)
        m = re.fullmatch(r"v\.(\w+)", src)
        if m:
            rows.append(f"({coq_string(k.value)}, ({coq_string(m.group(1))}, JId))")
            continue
        m = re.fullmatch(r"_sanitize_string\(v\.(\w+)\)", src)
        if m:
            rows.append(f"({coq_string(k.value)}, ({coq_string(m.group(1))}, JId))")
            continue
        m = re.fullmatch(r"_sanitize_string\(str\(v\.(\w+)\)\)", src)
        if m:
            rows.append(f"({coq_string(k.value)}, ({coq_string(m.group(1))}, JStr))")
            continue
        m = re.fullmatch(r"v\.(\w+)\.name", src)
        if m:
            rows.append(f"({coq_string(k.value)}, ({coq_string(m.group(1))}, JEnumName))")
            continue
        raise Unsupported(f"json value {src}")
    return defn("json_fields", "list (string * (string * jtrans))", coq_list(rows))


# ------------------------------------------------------------------ the rule-instance level (Model/OrchParRules.v)
def _stmts(fn: ast.FunctionDef) -> list[str]:
    return [ast.unparse(st) for st in _body(fn)]


def lint_file_template():
    """Template of Orchestrator.lint_file - two skip tests that `return []`, then EVERY registered rule on the file:
         if _is_hardcoded_excluded(<path expr>): return []          (the path expression is the matter of parent_evidence)
         if self.ignore_parser.is_ignored(file_path): return []
         language = detect_language(file_path); rules = self._get_rules_for_file(file_path, language)
         metadata = {**self.config, '_project_root': self.project_root}
         context = FileLintContext(file_path, language, metadata=metadata)
         return self._execute_rules(rules, context)
       and _get_rules_for_file = discover once, `return self.registry.list_all()` (no per-file selection of rules)."""
    src = _stmts(_orch("lint_file"))
    want_tail = ["if self.ignore_parser.is_ignored(file_path):\n    return []", "language = detect_language(file_path)",
                 "rules = self._get_rules_for_file(file_path, language)", "metadata = {**self.config, '_project_root': self.project_root}",
                 "context = FileLintContext(file_path, language, metadata=metadata)", "return self._execute_rules(rules, context)"]
    if len(src) != 7 or src[1:] != want_tail or not re.fullmatch(r"if _is_hardcoded_excluded\((file_path|self\._path_inside_project\(file_path\))\):\n    return \[\]", src[0]):
        raise Unsupported(f"lint_file is not `excluded -> [], ignored -> [], all rules on the file`: {src}")
    g = _stmts(_orch("_get_rules_for_file"))
    if g != ["self._ensure_rules_discovered()", "return self.registry.list_all()"]:
        raise Unsupported(f"_get_rules_for_file selects rules: {g}")
    return (defn("lint_file_skip_tests", "list string", coq_str_list(["hardcoded_excluded", "ignored"]))
            + defn("lint_file_runs_all_rules", "bool", "true"))


def execute_rules_template():
    """_execute_rules: every rule of the list in order through _safe_check_rule, results appended in that order"""
    src = _stmts(_orch("_execute_rules"))
    want = ["violations = []", "for rule in rules:\n    rule_violations = self._safe_check_rule(rule, context)\n    violations.extend(rule_violations)",
            "return violations"]
    if src != want:
        raise Unsupported(f"_execute_rules is not the plain loop: {src}")
    return defn("execute_rules_in_order", "bool", "true")


def base_finalize():
    """BaseLintRule.finalize (what a rule that does not override finalize reports): `return []`"""
    cls = find_class(parse("src/core/base.py"), "BaseLintRule")
    fns = [n for n in cls.body if isinstance(n, ast.FunctionDef) and n.name == "finalize"]
    if len(fns) != 1 or _stmts(fns[0]) != ["return []"] or fns[0].decorator_list:
        raise Unsupported("BaseLintRule.finalize is not `return []`")
    return defn("base_finalize_result", "list (list (string * pyval))", "[]")


def finalize_rules_template():
    """_finalize_rules: discover, then finalize() of EVERY registered rule in registry order, results appended"""
    src = _stmts(_orch("_finalize_rules"))
    want = ["self._ensure_rules_discovered()", "violations: list[Violation] = []",
            "for rule in self.registry.list_all():\n    violations.extend(rule.finalize())", "return violations"]
    if src != want:
        raise Unsupported(f"_finalize_rules is not the plain loop over the registry: {src}")
    return defn("finalize_rules_over_registry", "bool", "true")


def parent_rule_selection():
    """_collect_cross_file_evidence: which rule instances of the parent's registry are fed, and how: the loop body after the
    skip test builds the same context as lint_file and calls self._execute_rules(rules, context), discarding the result."""
    cls = find_class(parse(CORE), "Orchestrator")
    if not any(isinstance(n, ast.FunctionDef) and n.name == "_collect_cross_file_evidence" for n in cls.body):
        return defn("parent_rule_selection", "psel", "SelOverridesFinalize")      # no parent loop at all (see parent_evidence)
    g = _orch("_collect_cross_file_evidence")
    src = _stmts(g)
    if len(src) != 3 or src[0] != "self._ensure_rules_discovered()":
        raise Unsupported(f"_collect_cross_file_evidence: {src[:2]}")
    sel = {"rules = [r for r in self.registry.list_all() if type(r).finalize is not BaseLintRule.finalize]": "SelOverridesFinalize",
           "rules = self.registry.list_all()": "SelAll"}.get(src[1])
    if sel is None:
        raise Unsupported(f"_collect_cross_file_evidence: rule selection `{src[1]}`")
    loop = [n for n in g.body if isinstance(n, ast.For)]
    if len(loop) != 1 or loop[0].orelse:
        raise Unsupported("_collect_cross_file_evidence: one loop expected")
    body = [ast.unparse(st) for st in loop[0].body]
    if (len(body) != 4 or not body[0].startswith("if ") or not body[0].endswith(":\n    continue")
            or body[1:] != ["metadata = {**self.config, '_project_root': self.project_root}",
                            "context = FileLintContext(file_path, detect_language(file_path), metadata=metadata)",
                            "self._execute_rules(rules, context)"]):
        raise Unsupported(f"_collect_cross_file_evidence: loop body {body}")
    return defn("parent_rule_selection", "psel", sel)


def crossfile_checks_silent():
    """Census of the rule classes under src/linters that override finalize (the cross-file rules), with the fact the
    rule-level theorem needs about each: check() reports NOTHING on any path (it only stores), so what it reports cannot
    depend on what the instance saw before.  Accepted shapes: the class defines check() and every `return` in it is
    `return []`; or it inherits MultiLanguageLintRule.check (returns `[]` or the language dispatch, whose returns are `[]`
    or self._check_<lang>(context, config)) and every _check_<lang> it resolves to returns `[]` only."""
    import pathlib
    from translator.lib import REPO

    def silent(fn: ast.FunctionDef) -> bool:
        rets = [n for n in ast.walk(fn) if isinstance(n, ast.Return)]
        return bool(rets) and all(r.value is not None and ast.unparse(r.value) == "[]" for r in rets) \
            and not any(isinstance(n, (ast.Yield, ast.YieldFrom)) for n in ast.walk(fn))

    def methods(cls: ast.ClassDef) -> dict:
        return {n.name: n for n in cls.body if isinstance(n, ast.FunctionDef)}

    base_mod = parse("src/core/base.py")
    ml = methods(find_class(base_mod, "MultiLanguageLintRule"))
    rets = sorted({ast.unparse(n.value) for n in ast.walk(ml["check"]) if isinstance(n, ast.Return) and n.value is not None})
    if rets != ["[]", "self._dispatch_by_language(context, config)"]:
        raise Unsupported(f"MultiLanguageLintRule.check returns {rets}")
    disp = sorted({ast.unparse(n.value) for n in ast.walk(ml["_dispatch_by_language"]) if isinstance(n, ast.Return) and n.value is not None})
    langs = []
    for d in disp:
        m = re.fullmatch(r"self\.(_check_\w+)\(context, config\)", d)
        if m:
            langs.append(m.group(1))
        elif d != "[]":
            raise Unsupported(f"_dispatch_by_language returns {d}")
    rows = []
    root = pathlib.Path(REPO) / "src" / "linters"
    for path in sorted(root.rglob("*.py")):
        rel = str(path.relative_to(REPO))
        for cls in [n for n in parse(rel).body if isinstance(n, ast.ClassDef)]:
            ms = methods(cls)
            if "finalize" not in ms:
                continue
            bases = [ast.unparse(b) for b in cls.bases]
            if "check" in ms and bases == ["BaseLintRule"]:
                ok = silent(ms["check"])
            elif "check" not in ms and "_dispatch_by_language" not in ms and bases == ["MultiLanguageLintRule"]:
                ok = all(silent(ms[l]) if l in ms else (l in ml and silent(ml[l])) for l in langs)
            else:
                raise Unsupported(f"{cls.name} ({rel}) overrides finalize but its check() has an unknown shape (bases {bases})")
            rows.append(f"({coq_string(cls.name)}, {'true' if ok else 'false'})")
    return defn("crossfile_checks_silent", "list (string * bool)", coq_list(rows))


ITEMS = [
    ("violation_fields", violation_fields),
    ("severity_members", severity_members),
    ("to_dict_spec", to_dict_spec),
    ("from_dict_spec", from_dict_spec),
    ("default_max_workers", default_max_workers),
    ("effective_workers", effective_workers),
    ("par_threshold", par_threshold),
    ("par_fallback", par_fallback),
    ("par_empty_guard", par_empty_guard),
    ("seq_entry_points", seq_entry_points),
    ("parent_evidence", parent_evidence),
    ("parent_language", parent_language),
    ("worker", worker),
    ("worker_template", worker_template),
    ("extract", extract),
    ("safe_check", safe_check),
    ("dir_parallel", dir_parallel),
    ("cli_dispatch", cli_dispatch),
    ("cli_commands", cli_commands),
    ("json_fields", json_fields),
    ("lint_file_template", lint_file_template),
    ("execute_rules_template", execute_rules_template),
    ("base_finalize", base_finalize),
    ("finalize_rules_template", finalize_rules_template),
    ("parent_rule_selection", parent_rule_selection),
    ("crossfile_checks_silent", crossfile_checks_silent),
]
