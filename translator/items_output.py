"""Generated layer for exit codes and the text / JSON / SARIF renderers (C06).

Everything the output theorems depend on that is a literal in the source is read here with `ast`:
the dict literals of `_output_json` and of `SarifFormatter` (as templates), the f-strings of
`_output_text` / `_print_violation`, the dispatch of `format_violations`, the codec arguments of
`_sanitize_string`, the `sys.exit(A if X else B)` site of every linter command, the `sys.exit(2)` sites
of the usage-error paths, the names of the Severity enum and the `lineno or K` defaults of the
syntax-error violation builders.  Fail-closed: any other shape raises Unsupported.
"""
import ast

from translator.lib import (Unsupported, coq_list, coq_str_list, coq_string, const_value, defn, find_class,
                            find_func, parse)

GEN_FILE = "OutputGen"
HEADER = "From TL Require Import Lib.Base Model.OutputTypes.\nFrom Coq Require Import ZArith.\nLocal Open Scope Z_scope."
SERVES = ["C06"]
CU = "src/core/cli_utils.py"
SF = "src/formatters/sarif.py"
UT = "src/cli/utils.py"
LINTER_FILES = ["code_smells", "code_patterns", "structure", "structure_quality", "documentation", "performance", "rust"]
FINGERPRINTS = [
    (CU, ["format_violations", "_output_json", "_output_sarif", "_output_text", "_print_violation", "_sanitize_string"]),
    (SF, ["SarifFormatter"]),
    (UT, ["validate_paths_exist", "handle_linting_error", "load_config_file", "_resolve_explicit_project_root", "format_option"]),
    ("src/cli/linters/shared.py", ["run_linter_command", "create_linter_command", "prepare_standard_command", "extract_command_context"]),
    ("src/cli/main.py", ["cli"]),
    ("src/core/types.py", ["Violation", "Severity"]),
    ("src/orchestrator/core.py", ["_safe_check_rule", "_execute_rules"]),
]

FIELDS = {"rule_id": "FRule", "file_path": "FFile", "line": "FLine", "column": "FCol", "message": "FMsg"}


def zlit(n: int) -> str:
    return f"({n})" if n < 0 else str(n)


# ------------------------------------------------------------------ leaves: expressions over one violation
def leaf(e: ast.expr, var: str, locals_: dict | None = None) -> str:
    """Coq `leaf` term for an expression over the violation variable `var`"""
    if isinstance(e, ast.Attribute) and isinstance(e.value, ast.Name) and e.value.id == var and e.attr in FIELDS:
        return f"(LField {FIELDS[e.attr]})"
    if isinstance(e, ast.Attribute) and e.attr == "name" and isinstance(e.value, ast.Attribute) and e.value.attr == "severity" \
            and isinstance(e.value.value, ast.Name) and e.value.value.id == var:
        return "(LField FSev)"
    if isinstance(e, ast.Call) and isinstance(e.func, ast.Name) and len(e.args) == 1 and not e.keywords:
        if e.func.id == "str":
            inner = e.args[0]
            # str() is the identity on the (string) file path; on anything else it is not supported
            if isinstance(inner, ast.Attribute) and inner.attr == "file_path":
                return leaf(inner, var, locals_)
            raise Unsupported(f"str() of {ast.unparse(inner)}")
        if e.func.id == "_sanitize_string":
            return f"(LSan {leaf(e.args[0], var, locals_)})"
    if isinstance(e, ast.BinOp) and isinstance(e.op, (ast.Add, ast.Sub)) and isinstance(e.right, ast.Constant) \
            and isinstance(e.right.value, int) and not isinstance(e.right.value, bool):
        k = e.right.value if isinstance(e.op, ast.Add) else -e.right.value
        return f"(LPlus {leaf(e.left, var, locals_)} {zlit(k)})"
    raise Unsupported(f"expression over a violation outside the subset: {ast.unparse(e)}")


def _ret_dict(f: ast.FunctionDef) -> ast.Dict:
    rets = [n for n in ast.walk(f) if isinstance(n, ast.Return)]
    if len(rets) != 1 or not isinstance(rets[0].value, ast.Dict):
        raise Unsupported(f"{f.name}: expected a single `return {{...}}`")
    return rets[0].value


def _keys(d: ast.Dict) -> list[str]:
    out = []
    for k in d.keys:
        if not (isinstance(k, ast.Constant) and isinstance(k.value, str)):
            raise Unsupported("non-literal dict key")
        out.append(k.value)
    if len(set(out)) != len(out):
        raise Unsupported("duplicate dict key")
    return out


# ------------------------------------------------------------------ JSON
def json_template():
    f = find_func(parse(CU), "_output_json")
    assigns = [s for s in f.body if isinstance(s, ast.Assign)]
    if len(assigns) != 1 or not isinstance(assigns[0].value, ast.Dict) or ast.unparse(assigns[0].targets[0]) != "output":
        raise Unsupported("_output_json: expected `output = {...}`")
    _dumps_settings("_output_json", "output")      # the document is written by click.echo(json.dumps(output, ...)): item json_serialisation
    if len(_body(f)) != 2:
        raise Unsupported("_output_json: expected `output = {...}` followed by the output call")
    top = assigns[0].value
    tops, fields = [], None
    for k, v in zip(_keys(top), top.values):
        if isinstance(v, ast.ListComp):
            if len(v.generators) != 1 or v.generators[0].ifs or ast.unparse(v.generators[0].iter) != "violations" \
                    or not isinstance(v.generators[0].target, ast.Name) or not isinstance(v.elt, ast.Dict):
                raise Unsupported("_output_json: violations comprehension shape")
            var = v.generators[0].target.id
            fields = [f"({coq_string(fk)}, {leaf(fv, var)})" for fk, fv in zip(_keys(v.elt), v.elt.values)]
            tops.append(f"({coq_string(k)}, JTViolations)")
        elif ast.unparse(v) == "len(violations)":
            tops.append(f"({coq_string(k)}, JTTotal)")
        else:
            raise Unsupported(f"_output_json: unexpected top-level value {ast.unparse(v)}")
    if fields is None:
        raise Unsupported("_output_json: no violations list")
    return defn("json_top", "list (string * jtop)", coq_list(tops)) + defn("json_viol_fields", "list (string * leaf)", coq_list(fields))


# ------------------------------------------------------------------ SARIF
def _sarif_cls():
    return find_class(parse(SF), "SarifFormatter")


def _tmpl(e: ast.expr, one: str | None) -> str:
    """template term; `one` is the name of the single-violation parameter of the method (or None)"""
    if isinstance(e, ast.Constant) and isinstance(e.value, str):
        return f"(TStr {coq_string(e.value)})"
    if isinstance(e, ast.Dict):
        return "(TObj " + coq_list([f"({coq_string(k)}, {_tmpl(v, one)})" for k, v in zip(_keys(e), e.values)]) + ")"
    if isinstance(e, ast.List):
        return "(TArr " + coq_list([_tmpl(x, one) for x in e.elts]) + ")"
    if isinstance(e, ast.Attribute) and isinstance(e.value, ast.Name) and e.value.id == "self":
        return f"(TSelf {coq_string(e.attr)})"
    if isinstance(e, ast.Call) and isinstance(e.func, ast.Attribute) and isinstance(e.func.value, ast.Name) and e.func.value.id == "self" \
            and len(e.args) == 1 and not e.keywords and isinstance(e.args[0], ast.Name):
        if e.args[0].id == "violations":
            return f"(TCallAll {coq_string(e.func.attr)})"
        if one is not None and e.args[0].id == one:
            return f"(TCallOne {coq_string(e.func.attr)})"
        raise Unsupported(f"call with unexpected argument: {ast.unparse(e)}")
    if isinstance(e, ast.ListComp):
        g = e.generators
        if len(g) == 1 and not g[0].ifs and ast.unparse(g[0].iter) == "violations" and isinstance(g[0].target, ast.Name):
            inner = e.elt
            if isinstance(inner, ast.Call) and isinstance(inner.func, ast.Attribute) and ast.unparse(inner.func.value) == "self" \
                    and len(inner.args) == 1 and ast.unparse(inner.args[0]) == g[0].target.id and not inner.keywords:
                return f"(TMapAll {coq_string(inner.func.attr)})"
        raise Unsupported(f"list comprehension shape: {ast.unparse(e)}")
    if isinstance(e, ast.Name) and one is not None and e.id != one:
        return f"(TLocal {coq_string(e.id)})"
    if one is not None:
        return f"(TLeaf {leaf(e, one)})"
    raise Unsupported(f"SARIF template expression outside the subset: {ast.unparse(e)}")


DICT_METHODS = [("format", None), ("_create_run", None), ("_create_tool", None), ("_create_rule", "violation"),
                ("_create_result", "violation"), ("_create_location", "violation")]


def sarif_templates():
    cls = _sarif_cls()
    entries = []
    for name, one in DICT_METHODS:
        f = find_func(cls, name)
        params = [a.arg for a in f.args.args]
        if params != ["self", "violations" if one is None else one]:
            raise Unsupported(f"{name}: parameters {params}")
        entries.append(f"({coq_string(name)}, {_tmpl(_ret_dict(f), one)})")
    return defn("sarif_templates", "list (string * tmpl)", coq_list(entries))


def sarif_self_attrs():
    """string value of every `self.X` a template may mention: class constants and the attributes set in __init__
    from parameter defaults.  `tool_version` is `tool_version or __version__`: an environment value (ESelf)."""
    cls = _sarif_cls()
    consts = {}
    for st in cls.body:
        if isinstance(st, ast.Assign) and len(st.targets) == 1 and isinstance(st.targets[0], ast.Name):
            v = st.value
            try:
                val = ast.literal_eval(v)
            except Exception:  # noqa: BLE001
                continue
            if isinstance(val, str):
                consts[st.targets[0].id] = val
    init = find_func(cls, "__init__")
    params = [a.arg for a in init.args.args][1:]
    defaults = dict(zip(params, [const_value(d) for d in init.args.defaults]))
    out = [f"({coq_string(k)}, SConst {coq_string(v)})" for k, v in consts.items()]
    for st in init.body:
        if isinstance(st, ast.Expr) and isinstance(st.value, ast.Constant):
            continue
        if not (isinstance(st, ast.Assign) and len(st.targets) == 1 and ast.unparse(st.targets[0]).startswith("self.")):
            raise Unsupported(f"__init__: unexpected statement {ast.unparse(st)[:60]}")
        attr = st.targets[0].attr
        v = st.value
        if isinstance(v, ast.Name) and v.id in defaults and isinstance(defaults[v.id], str):
            out.append(f"({coq_string(attr)}, SConst {coq_string(defaults[v.id])})")
        elif isinstance(v, ast.BoolOp) and isinstance(v.op, ast.Or) and len(v.values) == 2 and isinstance(v.values[0], ast.Name) \
                and defaults.get(v.values[0].id, 0) is None:
            alt = v.values[1]
            if isinstance(alt, ast.Attribute) and ast.unparse(alt.value) == "self" and alt.attr in consts:
                out.append(f"({coq_string(attr)}, SConst {coq_string(consts[alt.attr])})")
            elif isinstance(alt, ast.Name) and alt.id == "__version__":
                out.append(f"({coq_string(attr)}, SEnvVersion)")
            else:
                raise Unsupported(f"__init__: {ast.unparse(st)}")
        else:
            raise Unsupported(f"__init__: {ast.unparse(st)}")
    return defn("sarif_self_attrs", "list (string * selfattr)", coq_list(out))


def sarif_rules_mode():
    f = find_func(_sarif_cls(), "_create_rules")
    loops = [s for s in f.body if isinstance(s, ast.For)]
    if len(loops) != 1 or ast.unparse(loops[0].iter) != "violations" or ast.unparse(loops[0].target) != "violation" or loops[0].orelse:
        raise Unsupported("_create_rules: loop shape")
    if not (isinstance(f.body[-1], ast.Return) and ast.unparse(f.body[-1].value) == "rules"):
        raise Unsupported("_create_rules: return")
    body = loops[0].body
    app = "rules.append(self._create_rule(violation))"
    if len(body) == 1 and isinstance(body[0], ast.If) and not body[0].orelse \
            and ast.unparse(body[0].test) == "violation.rule_id not in seen_rule_ids" \
            and [ast.unparse(s) for s in body[0].body] == ["seen_rule_ids.add(violation.rule_id)", app]:
        mode = "RulesFirstOccurrence"
    elif [ast.unparse(s) for s in body] == [app] or [ast.unparse(s) for s in body] == ["seen_rule_ids.add(violation.rule_id)", app]:
        mode = "RulesEvery"
    else:
        raise Unsupported("_create_rules: loop body shape")
    return defn("sarif_rules_mode", "rules_mode", mode)


def sarif_descriptions():
    f = find_func(_sarif_cls(), "_create_rule")
    stmts = [s for s in f.body if not (isinstance(s, ast.Expr) and isinstance(s.value, ast.Constant))]
    if len(stmts) != 5:
        raise Unsupported(f"_create_rule: {len(stmts)} statements")
    if ast.unparse(stmts[0]) != "parts = violation.rule_id.split('.')" or \
            ast.unparse(stmts[1]) != "category = parts[0] if parts else violation.rule_id":
        raise Unsupported("_create_rule: category computation changed")
    d = stmts[2]
    if not (isinstance(d, (ast.Assign, ast.AnnAssign)) and isinstance(d.value, ast.Dict) and ast.unparse(d.target if isinstance(d, ast.AnnAssign) else d.targets[0]) == "descriptions"):
        raise Unsupported("_create_rule: descriptions dict")
    table = []
    for k, v in zip(_keys(d.value), d.value.values):
        table.append(f"({coq_string(k)}, {coq_string(const_value(v))})")
    g = stmts[3]
    if not (isinstance(g, ast.Assign) and ast.unparse(g.targets[0]) == "description" and isinstance(g.value, ast.Call)
            and ast.unparse(g.value.func) == "descriptions.get" and len(g.value.args) == 2 and ast.unparse(g.value.args[0]) == "category"):
        raise Unsupported("_create_rule: description lookup")
    return (defn("sarif_descriptions", "list (string * string)", coq_list(table))
            + defn("sarif_default_description", "list fpart", _fparts(g.value.args[1], "violation", {}))
            + defn("sarif_category_separator", "string", coq_string(".")))


# ------------------------------------------------------------------ f-strings
def _fparts(e: ast.expr, var: str, locals_: dict) -> str:
    if isinstance(e, ast.Constant) and isinstance(e.value, str):
        return coq_list([f"PLit {coq_string(e.value)}"])
    if isinstance(e, ast.Name) and e.id in locals_:
        return coq_list([f"PLocal {coq_string(e.id)}"])
    if not isinstance(e, ast.JoinedStr):
        raise Unsupported(f"expected f-string: {ast.unparse(e)}")
    out = []
    for v in e.values:
        if isinstance(v, ast.Constant):
            out.append(f"PLit {coq_string(v.value)}")
        elif isinstance(v, ast.FormattedValue) and v.format_spec is None and v.conversion == -1:
            x = v.value
            if isinstance(x, ast.Name) and x.id in locals_:
                out.append(f"PLocal {coq_string(x.id)}")
            elif ast.unparse(x) == "len(violations)":
                out.append("PLen")
            else:
                out.append(f"PLeaf {leaf(x, var)}")
        else:
            raise Unsupported("f-string with format spec/conversion")
    return coq_list(out)


def _echo_arg(st: ast.stmt):
    """argument of `click.echo(<arg>)` (stdout only); None for `click.echo()`"""
    if isinstance(st, ast.Expr) and isinstance(st.value, ast.Call) and ast.unparse(st.value.func) == "click.echo" and not st.value.keywords:
        if len(st.value.args) == 0:
            return None
        if len(st.value.args) == 1:
            return st.value.args[0]
    raise Unsupported(f"expected click.echo(...): {ast.unparse(st)[:80]}")


def _body(f):
    return [s for s in f.body if not (isinstance(s, ast.Expr) and isinstance(s.value, ast.Constant))]


def text_format():
    mod = parse(CU)
    f = _body(find_func(mod, "_output_text"))
    if len(f) != 3 or not isinstance(f[0], ast.If) or ast.unparse(f[0].test) != "not violations" or f[0].orelse \
            or len(f[0].body) != 2 or not (isinstance(f[0].body[1], ast.Return) and f[0].body[1].value is None):
        raise Unsupported("_output_text: shape of the empty branch")
    none_msg = const_value(_echo_arg(f[0].body[0]))
    header = _fparts(_echo_arg(f[1]), "v", {})
    loop = f[2]
    if not (isinstance(loop, ast.For) and ast.unparse(loop.iter) == "violations" and ast.unparse(loop.target) == "v"
            and [ast.unparse(s) for s in loop.body] == ["_print_violation(v)"] and not loop.orelse):
        raise Unsupported("_output_text: loop shape")
    p = _body(find_func(mod, "_print_violation"))
    if len(p) != 7:
        raise Unsupported(f"_print_violation: {len(p)} statements")
    locs = {}
    for st in p[0:2]:
        if not (isinstance(st, ast.Assign) and isinstance(st.targets[0], ast.Name)):
            raise Unsupported("_print_violation: local assignment")
        locs[st.targets[0].id] = leaf(st.value, "v")
    st = p[2]
    if not (isinstance(st, ast.Assign) and ast.unparse(st.targets[0]) == "location" and isinstance(st.value, ast.IfExp)):
        raise Unsupported("_print_violation: location expression")
    loc_cond = leaf(st.value.test, "v")
    loc_then = _fparts(st.value.body, "v", locs)
    loc_else = _fparts(st.value.orelse, "v", locs)
    st = p[3]
    if not (isinstance(st, ast.If) and not st.orelse and len(st.body) == 1 and isinstance(st.body[0], ast.AugAssign)
            and ast.unparse(st.body[0].target) == "location" and isinstance(st.body[0].op, ast.Add)):
        raise Unsupported("_print_violation: column suffix")
    col_cond = leaf(st.test, "v")
    col_suffix = _fparts(st.body[0].value, "v", locs)
    locs2 = dict(locs)
    locs2["location"] = "location"
    line1 = _fparts(_echo_arg(p[4]), "v", locs2)
    line2 = _fparts(_echo_arg(p[5]), "v", locs2)
    if _echo_arg(p[6]) is not None:
        raise Unsupported("_print_violation: trailing blank echo")
    return (defn("text_none_message", "string", coq_string(none_msg))
            + defn("text_header", "list fpart", header)
            + defn("text_locals", "list (string * leaf)", coq_list([f"({coq_string(k)}, {v})" for k, v in locs.items()]))
            + defn("text_loc_cond", "leaf", loc_cond)
            + defn("text_loc_then", "list fpart", loc_then)
            + defn("text_loc_else", "list fpart", loc_else)
            + defn("text_col_cond", "leaf", col_cond)
            + defn("text_col_suffix", "list fpart", col_suffix)
            + defn("text_line1", "list fpart", line1)
            + defn("text_line2", "list fpart", line2))


# ------------------------------------------------------------------ dispatch, sanitiser, severity
def format_dispatch():
    f = _body(find_func(parse(CU), "format_violations"))
    if len(f) != 1 or not isinstance(f[0], ast.If):
        raise Unsupported("format_violations: shape")
    table, node = [], f[0]
    names = {"_output_json": "RJson", "_output_sarif": "RSarif", "_output_text": "RText"}

    def call_of(stmts):
        if len(stmts) == 1 and isinstance(stmts[0], ast.Expr) and isinstance(stmts[0].value, ast.Call) \
                and ast.unparse(stmts[0].value.func) in names and [ast.unparse(a) for a in stmts[0].value.args] == ["violations"]:
            return names[ast.unparse(stmts[0].value.func)]
        raise Unsupported("format_violations: branch body")

    while True:
        t = node.test
        if not (isinstance(t, ast.Compare) and ast.unparse(t.left) == "output_format" and len(t.ops) == 1 and isinstance(t.ops[0], ast.Eq)):
            raise Unsupported("format_violations: test shape")
        table.append(f"({coq_string(const_value(t.comparators[0]))}, {call_of(node.body)})")
        if len(node.orelse) == 1 and isinstance(node.orelse[0], ast.If):
            node = node.orelse[0]
            continue
        default = call_of(node.orelse)
        break
    fo = find_func(parse(UT), "format_option")
    choices = [n for n in ast.walk(fo) if isinstance(n, ast.Call) and ast.unparse(n.func) == "click.Choice"]
    if len(choices) != 1:
        raise Unsupported("format_option: click.Choice")
    opts = [const_value(x) for x in choices[0].args[0].elts]
    dflt = [k.value for n in ast.walk(fo) if isinstance(n, ast.Call) for k in n.keywords if k.arg == "default"]
    if len(dflt) != 1:
        raise Unsupported("format_option: default")
    # the renderer of _output_sarif must be SarifFormatter().format
    so = [ast.unparse(s) for s in _body(find_func(parse(CU), "_output_sarif"))]
    if so[:-1] != ["from src.formatters.sarif import SarifFormatter", "formatter = SarifFormatter()", "sarif_doc = formatter.format(violations)"] or len(so) != 4:
        raise Unsupported("_output_sarif changed")
    _dumps_settings("_output_sarif", "sarif_doc")  # ... and written by click.echo(json.dumps(sarif_doc, ...)): item json_serialisation
    return (defn("format_dispatch", "list (string * renderer)", coq_list(table)) + defn("format_default", "renderer", default)
            + defn("format_choices", "list string", coq_str_list(opts)) + defn("format_option_default", "string", coq_string(const_value(dflt[0]))))


def _dumps_settings(fn: str, docvar: str):
    """(indent, ensure_ascii, sort_keys, item separator, key separator) of the one output call of a JSON renderer, which must be its last
    statement and have the shape click.echo(json.dumps(<docvar>, indent=K[, ensure_ascii=.., sort_keys=.., separators=..]))"""
    mod = parse(CU)
    imports = [ast.unparse(s) for s in mod.body if isinstance(s, (ast.Import, ast.ImportFrom))]
    if "import json" not in imports or "import click" not in imports:
        raise Unsupported("cli_utils: `import json` / `import click` not found at module level")
    rebound = [n for n in ast.walk(mod) if (isinstance(n, ast.Name) and n.id in ("json", "click") and isinstance(n.ctx, ast.Store))
               or (isinstance(n, ast.arg) and n.arg in ("json", "click"))]
    if rebound:
        raise Unsupported("cli_utils: the names json / click are rebound")
    f = find_func(mod, fn)
    last = _body(f)[-1]
    outs = [n for n in ast.walk(f) if isinstance(n, ast.Call) and ast.unparse(n.func) in ("click.echo", "click.secho", "print", "sys.stdout.write",
                                                                                           "sys.stdout.buffer.write")]
    if len(outs) != 1 or not (isinstance(last, ast.Expr) and last.value is outs[0]) or ast.unparse(outs[0].func) != "click.echo":
        raise Unsupported(f"{fn}: expected exactly one output call, click.echo(...), as the last statement")
    echo = outs[0]
    if len(echo.args) != 1 or echo.keywords:
        raise Unsupported(f"{fn}: click.echo arguments changed: {ast.unparse(echo)}")
    d = echo.args[0]
    if not (isinstance(d, ast.Call) and ast.unparse(d.func) == "json.dumps" and len(d.args) == 1 and isinstance(d.args[0], ast.Name)
            and d.args[0].id == docvar):
        raise Unsupported(f"{fn}: expected json.dumps({docvar}, ...) inside click.echo: {ast.unparse(d)}")
    kw = {}
    for k in d.keywords:
        if k.arg not in ("indent", "ensure_ascii", "sort_keys", "separators"):
            raise Unsupported(f"{fn}: json.dumps keyword outside the model: {k.arg}")
        try:
            kw[k.arg] = ast.literal_eval(k.value)
        except ValueError as ex:
            raise Unsupported(f"{fn}: json.dumps {k.arg} is not a literal") from ex
    indent = kw.get("indent")
    if isinstance(indent, bool) or not isinstance(indent, int) or indent < 1:
        raise Unsupported(f"{fn}: json.dumps indent must be a positive integer literal (compact / string indents are outside the model)")
    seps = kw.get("separators", (",", ": "))
    if not (isinstance(seps, tuple) and len(seps) == 2 and all(isinstance(x, str) for x in seps)):
        raise Unsupported(f"{fn}: separators shape")
    for b in ("ensure_ascii", "sort_keys"):
        if b in kw and not isinstance(kw[b], bool):
            raise Unsupported(f"{fn}: {b} must be a boolean literal")
    return (indent, kw.get("ensure_ascii", True), kw.get("sort_keys", False), seps[0], seps[1])


def json_serialisation():
    """the serialisation call of the two JSON renderers - the arguments of json.dumps the byte-level model (Model/OutputBytes.v) is parametrised by"""
    a, b = _dumps_settings("_output_json", "output"), _dumps_settings("_output_sarif", "sarif_doc")
    # one model for both renderers: the layout of _output_json; `json_dumps_uniform` records whether _output_sarif uses the same arguments
    # (the theorems demand it), and an argument that is switched off in either call is switched off in the generated constant
    indent, _, _, isep, ksep = a
    ea, sk = a[1] and b[1], a[2] or b[2]
    return (defn("json_dumps_indent", "nat", f"{indent}%nat") + defn("json_dumps_ensure_ascii", "bool", "true" if ea else "false")
            + defn("json_dumps_sort_keys", "bool", "true" if sk else "false") + defn("json_dumps_item_sep", "string", coq_string(isep))
            + defn("json_dumps_key_sep", "string", coq_string(ksep)) + defn("json_dumps_uniform", "bool", "true" if a == b else "false"))


def sanitize_codec():
    f = _body(find_func(parse(CU), "_sanitize_string"))
    if len(f) != 1 or not isinstance(f[0], ast.Return):
        raise Unsupported("_sanitize_string: shape")
    e = f[0].value
    try:
        assert isinstance(e, ast.Call) and e.func.attr == "decode" and isinstance(e.func.value, ast.Call) and e.func.value.func.attr == "encode"
        assert ast.unparse(e.func.value.func.value) == "text"
        enc = e.func.value
        a = [const_value(enc.args[0]), {k.arg: const_value(k.value) for k in enc.keywords}.get("errors", "strict"),
             const_value(e.args[0]), {k.arg: const_value(k.value) for k in e.keywords}.get("errors", "strict")]
    except (AssertionError, AttributeError, IndexError) as ex:
        raise Unsupported("_sanitize_string: expression shape") from ex
    return defn("sanitize_codec", "list string", coq_str_list(a))


def severity_names():
    cls = find_class(parse("src/core/types.py"), "Severity")
    names = [st.targets[0].id for st in cls.body if isinstance(st, ast.Assign) and isinstance(st.targets[0], ast.Name)]
    if not names:
        raise Unsupported("Severity has no member")
    v = find_class(parse("src/core/types.py"), "Violation")
    dflt = [ast.unparse(st.value) for st in v.body if isinstance(st, ast.AnnAssign) and ast.unparse(st.target) == "severity" and st.value is not None]
    if len(dflt) != 1 or not dflt[0].startswith("Severity."):
        raise Unsupported("Violation.severity default")
    return defn("severity_names", "list string", coq_str_list(names)) + defn("severity_default", "string", coq_string(dflt[0].split(".", 1)[1]))


# ------------------------------------------------------------------ exit codes
def _exit_const(call: ast.Call):
    if ast.unparse(call.func) != "sys.exit" or len(call.args) != 1:
        raise Unsupported("not a sys.exit(k) call")
    return call.args[0]


def _executor_exit(f: ast.FunctionDef):
    """(exit when violations, exit when none) of an `_execute_*_lint`: its last two statements must be
    `format_violations(X, <fmt>)` and `sys.exit(A if X else B)` with the same plain name X"""
    body = _body(f)
    if len(body) < 2:
        raise Unsupported(f"{f.name}: too short")
    fv, ex = body[-2], body[-1]
    if not (isinstance(fv, ast.Expr) and isinstance(fv.value, ast.Call) and ast.unparse(fv.value.func) == "format_violations"
            and len(fv.value.args) == 2 and isinstance(fv.value.args[0], ast.Name)):
        raise Unsupported(f"{f.name}: expected format_violations(X, fmt) before the exit")
    x = fv.value.args[0].id
    fmt = ast.unparse(fv.value.args[1])
    if fmt not in ("format", "params.format"):
        raise Unsupported(f"{f.name}: format argument {fmt}")
    if not (isinstance(ex, ast.Expr) and isinstance(ex.value, ast.Call)):
        raise Unsupported(f"{f.name}: last statement is not sys.exit")
    arg = _exit_const(ex.value)
    if not (isinstance(arg, ast.IfExp) and isinstance(arg.test, ast.Name) and arg.test.id == x):
        raise Unsupported(f"{f.name}: exit expression {ast.unparse(arg)} does not test the rendered list {x}")
    a, b = const_value(arg.body), const_value(arg.orelse)
    if not all(isinstance(k, int) and not isinstance(k, bool) for k in (a, b)):
        raise Unsupported(f"{f.name}: exit constants")
    # no other exit / output between
    for n in ast.walk(f):
        if isinstance(n, ast.Call) and ast.unparse(n.func) in ("sys.exit", "format_violations") and n not in (fv.value, ex.value):
            raise Unsupported(f"{f.name}: additional {ast.unparse(n.func)} call")
    # the rendered list must be assigned exactly once in the executor
    assigns = [n for n in ast.walk(f) if isinstance(n, ast.Assign) and any(isinstance(t, ast.Name) and t.id == x for t in n.targets)]
    if len(assigns) != 1:
        raise Unsupported(f"{f.name}: {x} assigned {len(assigns)} times")
    return a, b


def _commands():
    """command name -> (module, executor FunctionDef)"""
    out = {}
    for m in LINTER_FILES:
        rel = f"src/cli/linters/{m}.py"
        mod = parse(rel)
        funcs = {n.name: n for n in mod.body if isinstance(n, ast.FunctionDef)}
        for st in mod.body:
            if isinstance(st, ast.Assign) and isinstance(st.value, ast.Call) and ast.unparse(st.value.func) == "create_linter_command":
                a = st.value.args
                if len(a) < 2 or not isinstance(a[1], ast.Name) or a[1].id not in funcs:
                    raise Unsupported(f"{rel}: create_linter_command arguments")
                out[const_value(a[0])] = (rel, funcs[a[1].id])
            if isinstance(st, ast.FunctionDef):
                for d in st.decorator_list:
                    if isinstance(d, ast.Call) and ast.unparse(d.func) == "cli.command" and d.args:
                        name = const_value(d.args[0])
                        callee = {n.func.id for n in ast.walk(st) if isinstance(n, ast.Call) and isinstance(n.func, ast.Name) and n.func.id.startswith("_execute_")}
                        if len(callee) != 1 or next(iter(callee)) not in funcs:
                            raise Unsupported(f"{rel}: command {name} calls {sorted(callee)}")
                        out[name] = (rel, funcs[next(iter(callee))])
                        # the command body must route exceptions to handle_linting_error
                        src_ = ast.unparse(st)
                        if "handle_linting_error" not in src_ and "run_linter_command" not in src_:
                            raise Unsupported(f"{rel}: command {name} has no error handler")
    if len(out) < 5:
        raise Unsupported("too few linter commands found")
    return out


def exit_table():
    rows = []
    for name, (rel, f) in sorted(_commands().items()):
        a, b = _executor_exit(f)
        rows.append(f"({coq_string(name)}, ({zlit(a)}, {zlit(b)}))")
    return defn("cli_exit_table", "list (string * (Z * Z))", coq_list(rows))


def _single_exit(rel: str, fn: str, scope=None) -> int:
    f = find_func(scope or parse(rel), fn)
    ks = [const_value(_exit_const(n)) for n in ast.walk(f) if isinstance(n, ast.Call) and ast.unparse(n.func) == "sys.exit"]
    if not ks or len(set(ks)) != 1 or not isinstance(ks[0], int):
        raise Unsupported(f"{fn}: exit constants {ks}")
    return ks[0]


def usage_exits():
    sites = [
        ("missing_path", UT, "validate_paths_exist"),
        ("missing_config", UT, "load_config_file"),
        ("linting_error", UT, "handle_linting_error"),
        ("bad_project_root", UT, "_resolve_explicit_project_root"),
        ("dry_missing_config", "src/cli/linters/code_smells.py", "_load_dry_config_file"),
        ("bad_inline_rules", "src/cli/linters/structure.py", "_parse_json_rules"),
        ("group_config_error", "src/cli/main.py", "cli"),
    ]
    rows = [f"({coq_string(k)}, {zlit(_single_exit(rel, fn))})" for k, rel, fn in sites]
    # run_linter_command and the hand-written commands catch Exception and call handle_linting_error
    r = find_func(parse("src/cli/linters/shared.py"), "run_linter_command")
    tr = [n for n in ast.walk(r) if isinstance(n, ast.Try)]
    if len(tr) != 1 or len(tr[0].handlers) != 1 or ast.unparse(tr[0].handlers[0].type) != "Exception" \
            or "handle_linting_error" not in ast.unparse(tr[0].handlers[0]):
        raise Unsupported("run_linter_command: error handler shape")
    return defn("usage_exit_sites", "list (string * Z)", coq_list(rows))


def dry_null_guard():
    """_load_dry_config_file: `config = yaml.safe_load(f) or {}` (an empty file means an empty mapping) or the bare call
    (None is then indexed with "dry": TypeError -> handle_linting_error)"""
    f = find_func(parse("src/cli/linters/code_smells.py"), "_load_dry_config_file")
    hits = [n for n in ast.walk(f) if isinstance(n, (ast.Assign, ast.AnnAssign)) and "yaml.safe_load" in ast.unparse(n.value or ast.Constant(None))]
    if len(hits) != 1:
        raise Unsupported(f"_load_dry_config_file: {len(hits)} yaml.safe_load assignments")
    v = ast.unparse(hits[0].value)
    if v == "yaml.safe_load(f) or {}":
        guarded = "true"
    elif v == "yaml.safe_load(f)":
        guarded = "false"
    else:
        raise Unsupported(f"_load_dry_config_file: unexpected load expression {v}")
    # the lookup that follows must be the subscription guarded only against KeyError
    src_ = ast.unparse(f)
    if "config['dry']" not in src_ or "except KeyError" not in src_:
        raise Unsupported("_load_dry_config_file: dry section lookup changed")
    return defn("dry_config_null_guard", "bool", guarded)


def group_config_check():
    """_determine_project_root_for_context (reached by every linter command through get_project_root_from_context):
    `if config_path and not Path(config_path).exists(): ...; sys.exit(k)` before anything else -> Some k; no such check -> None"""
    mod = parse(UT)
    f = find_func(mod, "_determine_project_root_for_context")
    body = _body(f)
    found, seen_return = None, False
    for st in body:
        if any(isinstance(n, ast.Return) for n in ast.walk(st)):
            seen_return = True
        exits = [n for n in ast.walk(st) if isinstance(n, ast.Call) and ast.unparse(n.func) == "sys.exit"]
        if not exits:
            continue
        if not (isinstance(st, ast.If) and not st.orelse and ast.unparse(st.test) == "config_path and (not Path(config_path).exists())"
                and len(exits) == 1 and isinstance(st.body[-1], ast.Expr) and st.body[-1].value is exits[0]) or seen_return or found is not None:
            raise Unsupported(f"_determine_project_root_for_context: unexpected exit site {ast.unparse(st)[:80]}")
        k = const_value(_exit_const(exits[0]))
        if not isinstance(k, int) or isinstance(k, bool):
            raise Unsupported("group config check: exit constant")
        found = k
    if "config_path = ctx.obj.get('cli_config_path')" not in [ast.unparse(b) for b in body]:
        raise Unsupported("_determine_project_root_for_context: config_path is no longer the group-level --config")
    # the chain by which every linter command reaches the check
    chain = [(UT, "get_project_root_from_context", "_determine_project_root_for_context"),
             ("src/cli/linters/shared.py", "extract_command_context", "get_project_root_from_context"),
             ("src/cli/linters/shared.py", "prepare_standard_command", "extract_command_context")]
    for rel, fn, callee in chain:
        if callee + "(" not in ast.unparse(find_func(parse(rel), fn)):
            raise Unsupported(f"{fn} no longer calls {callee}")
    entry = ("get_project_root_from_context(", "extract_command_context(", "prepare_standard_command(")
    for m in LINTER_FILES + ["shared"]:
        rel = f"src/cli/linters/{m}.py"
        for st in ast.walk(parse(rel)):
            if isinstance(st, ast.FunctionDef) and any(isinstance(d, ast.Call) and ast.unparse(d.func) == "cli.command" for d in st.decorator_list):
                if not any(e in ast.unparse(st) for e in entry):
                    raise Unsupported(f"{rel}: command function {st.name} does not resolve the project root through the shared helpers")
    return defn("group_config_missing_exit", "option Z", "None" if found is None else f"(Some {zlit(found)})")


def rule_exception_policy():
    """Orchestrator._safe_check_rule: the except clauses around rule.check(context), in order, with what each does:
    re-raise (the run ends in handle_linting_error) or swallow (log, the rule contributes no violation)"""
    cls = find_class(parse("src/orchestrator/core.py"), "Orchestrator")
    f = find_func(cls, "_safe_check_rule")
    tr = [n for n in _body(f) if isinstance(n, ast.Try)]
    if len(tr) != 1 or len(_body(f)) != 1 or tr[0].orelse or tr[0].finalbody:
        raise Unsupported("_safe_check_rule: expected a single try statement")
    if [ast.unparse(x) for x in tr[0].body] != ["return rule.check(context)"]:
        raise Unsupported("_safe_check_rule: guarded call changed")
    rows = []
    for h in tr[0].handlers:
        if not isinstance(h.type, ast.Name):
            raise Unsupported(f"_safe_check_rule: handler type {ast.unparse(h.type) if h.type else 'bare'}")
        stmts = [x for x in h.body]
        if len(stmts) == 1 and isinstance(stmts[0], ast.Raise) and stmts[0].exc is None:
            act = "true"
        elif isinstance(stmts[-1], ast.Return) and ast.unparse(stmts[-1].value) == "[]" and not any(isinstance(n, ast.Raise) for x in stmts for n in ast.walk(x)):
            act = "false"
        else:
            raise Unsupported(f"_safe_check_rule: handler body of {h.type.id}")
        rows.append(f"({coq_string(h.type.id)}, {act})")
    return defn("rule_exception_policy", "list (string * bool)", coq_list(rows))


# ------------------------------------------------------------------ syntax-error violations
def syntax_defaults():
    """`line=<err>.lineno or K`, `column=<err>.offset or K'` in the syntax-error violation builders"""
    sites = [("nesting", "src/linters/nesting/violation_builder.py", "create_syntax_error_violation"),
             ("performance", "src/linters/performance/violation_builder.py", "create_syntax_error_violation"),
             ("srp", "src/linters/srp/class_analyzer.py", "_create_syntax_error_violation"),
             ("lbyl", "src/linters/lbyl/violation_builder.py", "create_syntax_error_violation")]
    rows = []
    for key, rel, fn in sites:
        f = find_func(parse(rel), fn)
        found = {}
        for n in ast.walk(f):
            if isinstance(n, ast.BoolOp) and isinstance(n.op, ast.Or) and len(n.values) == 2 and isinstance(n.values[0], ast.Attribute) \
                    and n.values[0].attr in ("lineno", "offset"):
                found[n.values[0].attr] = const_value(n.values[1])
        if set(found) != {"lineno", "offset"} or not all(isinstance(v, int) for v in found.values()):
            raise Unsupported(f"{rel}: lineno/offset defaults {found}")
        msgs = [n for n in ast.walk(f) if isinstance(n, ast.JoinedStr)]
        if len(msgs) != 1 or len(msgs[0].values) != 2 or not isinstance(msgs[0].values[0], ast.Constant) \
                or not ast.unparse(msgs[0].values[1].value).endswith(".msg"):
            raise Unsupported(f"{rel}: message format")
        # the rule id is the builder's own (self.rule_id: None) or a literal
        rids = [k.value for n in ast.walk(f) if isinstance(n, ast.Call) for k in n.keywords if k.arg == "rule_id"]
        if len(rids) != 1:
            raise Unsupported(f"{rel}: rule_id keyword")
        if isinstance(rids[0], ast.Constant) and isinstance(rids[0].value, str):
            fixed = f"(Some {coq_string(rids[0].value)})"
        elif ast.unparse(rids[0]) == "self.rule_id":
            fixed = "None"
        else:
            raise Unsupported(f"{rel}: rule_id expression {ast.unparse(rids[0])}")
        rows.append(f"({coq_string(key)}, ({zlit(found['lineno'])}, {zlit(found['offset'])}, {coq_string(msgs[0].values[0].value)}, {fixed}))")
    return defn("syntax_error_defaults", "list (string * (Z * Z * string * option string))", coq_list(rows))


THRESHOLD_VALIDATORS = ["src/linters/nesting/config.py", "src/linters/srp/config.py", "src/linters/dry/config.py", "src/linters/collection_pipeline/config.py"]


def threshold_options():
    """every integer-valued option of a linter command (click declarations: @click.option("--x", type=int, ...)) and the smallest value the
    validators of the configuration classes accept for a threshold (`if v <= 0: raise ValueError` / `if v < 1: raise ValueError`)"""
    rows = []
    for m in LINTER_FILES:
        rel = f"src/cli/linters/{m}.py"
        for st in parse(rel).body:
            if not isinstance(st, ast.FunctionDef):
                continue
            names = [const_value(d.args[0]) for d in st.decorator_list
                     if isinstance(d, ast.Call) and ast.unparse(d.func) == "cli.command" and d.args]
            for d in st.decorator_list:
                if not (isinstance(d, ast.Call) and ast.unparse(d.func) == "click.option"):
                    continue
                ty = [k.value for k in d.keywords if k.arg == "type"]
                if not ty or ast.unparse(ty[0]) not in ("int", "click.INT"):
                    if ty and "IntRange" in ast.unparse(ty[0]):
                        raise Unsupported(f"{rel}: {ast.unparse(d)[:80]}: click.IntRange is outside the model (click itself would reject values)")
                    continue
                flags = [const_value(a) for a in d.args if isinstance(a, ast.Constant) and str(a.value).startswith("--")]
                if len(names) != 1 or len(flags) != 1:
                    raise Unsupported(f"{rel}: integer option {ast.unparse(d)[:80]} on a function that is not exactly one command / has not exactly one long flag")
                rows.append((names[0], flags[0]))
    if len(rows) < 3:
        raise Unsupported("fewer than three integer-valued command options found")
    mins = set()
    for rel in THRESHOLD_VALIDATORS:
        found = 0
        for fn in [n for n in ast.walk(parse(rel)) if isinstance(n, ast.FunctionDef) and (n.name == "__post_init__" or n.name.startswith("_validate"))]:
            for node in ast.walk(fn):
                if isinstance(node, ast.If) and isinstance(node.test, ast.Compare) and len(node.test.ops) == 1 and isinstance(node.test.comparators[0], ast.Constant) \
                        and isinstance(node.test.comparators[0].value, int) and any(isinstance(x, ast.Raise) for x in node.body):
                    op, k = node.test.ops[0], node.test.comparators[0].value
                    if isinstance(op, ast.LtE):
                        mins.add(k + 1)
                    elif isinstance(op, ast.Lt):
                        mins.add(k)
                    else:
                        raise Unsupported(f"{rel}: validator comparison {ast.unparse(node.test)}")
                    found += 1
        if not found:
            raise Unsupported(f"{rel}: no threshold validator found")
    if len(mins) != 1:
        raise Unsupported(f"threshold validators disagree on the smallest valid value: {sorted(mins)}")
    return (defn("threshold_options", "list (string * string)", coq_list([f"({coq_string(c)}, {coq_string(f)})" for c, f in sorted(rows)]))
            + defn("threshold_min_valid", "Z", zlit(mins.pop())))


def threshold_option_rows():
    """the same table for the harness (Python side)"""
    import re as _re
    return _re.findall(r'\("([^"]+)", "([^"]+)"\)', threshold_options().split("threshold_min_valid")[0])



ITEMS = [
    ("json_template", json_template),
    ("sarif_templates", sarif_templates),
    ("sarif_self_attrs", sarif_self_attrs),
    ("sarif_rules_mode", sarif_rules_mode),
    ("sarif_descriptions", sarif_descriptions),
    ("text_format", text_format),
    ("format_dispatch", format_dispatch),
    ("sanitize_codec", sanitize_codec),
    ("json_serialisation", json_serialisation),
    ("severity_names", severity_names),
    ("cli_exit_table", exit_table),
    ("usage_exit_sites", usage_exits),
    ("dry_config_null_guard", dry_null_guard),
    ("group_config_missing_exit", group_config_check),
    ("rule_exception_policy", rule_exception_policy),
    ("syntax_error_defaults", syntax_defaults),
    ("threshold_options", threshold_options),
]
