#!/usr/bin/env python3
"""C19: extract every documented example from /repo/docs/*-linter.md (regenerated on every run).

An *example* is a fenced code block in python / typescript / javascript / rust that the document marks as
violating or acceptable:
  * by the label line in front of the fence      (**Before:** / **Code with violation(s):** / **Detects:** ...  versus
                                                   **After:** / **Refactored code:** / **EAFP alternative:** / **Fixed code:** ...)
  * by the heading it stands under               (... Acceptable ... / ... (No Violations))
  * by inline markers                            (`<- VIOLATION` / `# Violation` comments give the exact expected lines;
                                                   `# Bad ...` / `# Good ...` comment lines split a block into segments)
Fail-closed: a marked block that cannot be parsed in its language, or whose markers contradict each other, is
returned in `unparsable` (listed in the evidence, never silently dropped); a *-linter.md file this table does not
know is returned in `unknown_docs`.  Nothing here imports /repo code.
"""
from __future__ import annotations

import ast
import hashlib
import os
import re
import sys
import textwrap
from pathlib import Path

REPO = Path(os.environ.get("VERIF_REPO", "/repo"))

# doc file stem -> (linter key, rule-id prefix every report of the linter starts with, pattern linter?)
LINTERS = {
    "blocking-async": ("blocking-async", "blocking-async", False),
    "clone-abuse": ("clone-abuse", "clone-abuse", False),
    "unwrap-abuse": ("unwrap-abuse", "unwrap-abuse", False),
    "collection-pipeline": ("pipeline", "collection-pipeline", True),
    "cqs": ("cqs", "cqs", True),
    "dry": ("dry", "dry", False),
    "file-header": ("file-header", "file-header", True),
    "improper-logging": ("improper-logging", "improper-logging", True),
    "print-statements": ("improper-logging", "improper-logging", True),
    "lazy-ignores": ("lazy-ignores", "lazy-ignores", True),
    "lbyl": ("lbyl", "lbyl", True),
    "magic-numbers": ("magic-numbers", "magic-numbers", False),
    "method-property": ("method-property", "method-property", True),
    "nesting": ("nesting", "nesting", False),
    "performance": ("perf", "performance", True),
    "srp": ("srp", "srp", False),
    "stateless-class": ("stateless-class", "stateless-class", True),
    "stringly-typed": ("stringly-typed", "stringly-typed", True),
}
# documents named *-linter.md that hold no code examples of a code linter (path rules only)
NO_CODE_DOCS = {"file-placement"}

LANGS = {"python": "py", "py": "py", "typescript": "ts", "ts": "ts", "tsx": "ts", "javascript": "js", "js": "js",
         "jsx": "js", "rust": "rs", "rs": "rs"}
EXT = {"py": ".py", "ts": ".ts", "js": ".js", "rs": ".rs"}

VIOL_LABEL = re.compile(r"^\W*(before|code with violations?|code with duplication|violations?|detects|bad|anti-?pattern|problem)\b", re.I)
OK_LABEL = re.compile(r"^\W*(after|refactored|fixed|eafp alternative|good|acceptable|solution)\b", re.I)
OK_HEADING = re.compile(r"acceptable|no violations", re.I)
VIOL_MARK = re.compile(r"(←|<-|#|//)\s*(VIOLATION|Violation)\b")
SEG_MARK = re.compile(r"^\s*(#|//)\s*(Bad|BAD|Good|GOOD)\b")
ADVICE_H2 = re.compile(r"best practices|troubleshooting|when to |tips|faq|common issues", re.I)   # style advice, not detection claims
FILE_MARK = re.compile(r"^\s*(#|//)\s*(?:File:\s*)?`?([\w./-]+\.(?:py|tsx?|jsx?|rs))`?\s*$")
WHEN_HINT = re.compile(r"\(when\s+`([a-z_]+):\s*(true|false|\d+)`\)", re.I)
NAME_DEPENDENT = re.compile(r"test_\*|\(test_\w*\.py\)|[Tt]est files?\b")
CONFIG_SECTION = {"pipeline": "collection_pipeline", "perf": "performance", "improper-logging": "print_statements"}
OPT_IN_HEADING = re.compile(r"\(`(detect_[a-z_]+)`\)")
MAX_HINT = re.compile(r"\(?\bmax(?:imum)?\s*[=:]\s*(\d+)\)?", re.I)
DEPTH_LABEL = re.compile(r"\(depth\s+(\d+)\)", re.I)
ELISION = re.compile(r"^\s*(#|//)\s*\.\.\.|^\s*\.\.\.\s*(#.*)?$|(#|//)\s*\.\.\.\s*\(?\d+ more|(#|//).*\b\d+\+? (more )?(methods|lines|LOC)\b", re.I)
FENCE = re.compile(r"^(\s*)(```+|~~~+)\s*([A-Za-z0-9_+-]*)\s*$")


def _blocks(text: str):
    """(start line (1-based, of the fence), lang, code lines, label, heading) for every fenced block"""
    lines = text.split("\n")
    heading, h2, i = "", "", 0
    while i < len(lines):
        ln = lines[i]
        if re.match(r"^#{1,6}\s", ln):
            heading = ln.strip("# ").strip()
            if re.match(r"^#{1,2}\s", ln):
                h2 = heading
        m = FENCE.match(ln)
        if not m:
            i += 1
            continue
        indent, fence, lang = m.group(1), m.group(2), m.group(3).lower()
        j = i + 1
        while j < len(lines) and not re.match(r"^\s*" + re.escape(fence[0]) + "{" + str(len(fence)) + r",}\s*$", lines[j]):
            j += 1
        code = [c[len(indent):] if c.startswith(indent) else c.lstrip() for c in lines[i + 1:j]]
        k, label = i - 1, ""
        while k >= 0 and i - k <= 3:
            if lines[k].strip():
                label = lines[k].strip()
                break
            k -= 1
        yield i + 1, lang, code, label, heading, h2, j >= len(lines)
        i = j + 1


def _parses(lang: str, code: str) -> str | None:
    """None when `code` is a well-formed file of its language, else the reason"""
    if lang == "py":
        try:
            ast.parse(code)
            return None
        except (SyntaxError, ValueError) as e:
            return f"python syntax: {e}"
    try:
        root = _ts_parse(lang, code)
    except Exception as e:  # noqa: BLE001 - parser unavailable => fail closed
        return f"no parser for {lang}: {type(e).__name__}: {e}"
    if root is None:
        return f"no parser for {lang}"
    return "tree-sitter reports a syntax error" if root.has_error else None


_ts_cache: dict = {}


def _ts_parse(lang: str, code: str):
    if lang not in _ts_cache:
        from tree_sitter import Language, Parser
        if lang == "rs":
            import tree_sitter_rust as m
            language = Language(m.language())
        elif lang == "ts":
            import tree_sitter_typescript as m
            language = Language(m.language_tsx())
        else:
            try:
                import tree_sitter_javascript as m
                language = Language(m.language())
            except ImportError:
                import tree_sitter_typescript as m
                language = Language(m.language_tsx())
        _ts_cache[lang] = Parser(language)
    return _ts_cache[lang].parse(code.encode("utf-8")).root_node


def _config_hint(linter: str, verdict: str, label: str, heading: str, code: str) -> dict:
    """configuration the document states for the example (option named in the section heading, `max=3` in a marker,
    `(depth 4)` in a Before label): the example is judged under that configuration, everything else is default"""
    if linter == "lbyl":
        m = OPT_IN_HEADING.search(heading)
        return {"lbyl": {m.group(1): True}} if m else {}
    if linter == "nesting" and verdict == "violating":
        m = MAX_HINT.search(code) or MAX_HINT.search(label)
        if m:
            return {"nesting": {"max_nesting_depth": int(m.group(1))}}
        m = DEPTH_LABEL.search(label)
        if m and int(m.group(1)) >= 2:
            return {"nesting": {"max_nesting_depth": int(m.group(1)) - 1}}
    if linter == "dry":
        return {"dry": {"enabled": True, "cache_enabled": False}}
    m = WHEN_HINT.search(label)
    if m:
        v = m.group(2).lower()
        val = True if v == "true" else False if v == "false" else int(v)
        return {CONFIG_SECTION.get(linter, linter): {m.group(1): val}}
    return {}


def _schematic(lang: str, code: str) -> str | None:
    """a fragment the document abbreviates: judged for the embedding law (observed result) but not for its isolated verdict"""
    for c in code.split("\n"):
        if ELISION.search(c):
            return f"elided code (`{c.strip()[:40]}`)"
        if NAME_DEPENDENT.search(c) and re.match(r"^\s*(#|//)", c):
            return f"verdict depends on the file name (`{c.strip()[:40]}`)"
    if lang == "py":
        try:
            mod = ast.parse(code)
        except SyntaxError:
            return None
        for st in mod.body:
            if isinstance(st, (ast.FunctionDef, ast.AsyncFunctionDef)) and st.args.args and st.args.args[0].arg in ("self", "cls"):
                return f"method `{st.name}` shown outside its class"
    return None


def _split_files(lang: str, code: str) -> list:
    """`# File: a/b.py` comment lines split one block into several files of one example"""
    cl = code.split("\n")
    idx = [n for n, c in enumerate(cl) if FILE_MARK.match(c)]
    if len(idx) < 2 or any(c.strip() for c in cl[:idx[0]]):
        return []
    out = []
    for a, b in zip(idx, idx[1:] + [len(cl)]):
        out.append({"name": FILE_MARK.match(cl[a]).group(2), "code": "\n".join(cl[a:b]).strip("\n") + "\n"})
    return out


def _mk(stem, line, lang, verdict, code, how, expected_lines=None, seg="", label="", heading=""):
    linter, prefix, pattern = LINTERS[stem]
    h = hashlib.sha1((lang + "\0" + code).encode("utf-8")).hexdigest()[:8]
    return {"id": f"{stem}#{h}{seg}", "doc": f"docs/{stem}-linter.md", "doc_line": line, "linter": linter, "rule_prefix": prefix,
            "pattern_linter": pattern, "lang": lang, "verdict": verdict, "marked_by": how,
            "expected_lines": expected_lines, "code": code, "config": _config_hint(linter, verdict, label, heading, code),
            "schematic": _schematic(lang, code), "files": _split_files(lang, code)}


def extract(docs_dir: Path | None = None) -> dict:
    docs_dir = docs_dir or (REPO / "docs")
    examples, unparsable, unknown, stats = [], [], [], {"fenced_blocks": 0, "code_blocks": 0, "unmarked_code_blocks": 0}
    files = sorted(docs_dir.glob("*-linter.md"))
    if not files:
        unknown.append(f"no *-linter.md under {docs_dir}")
    for stem in LINTERS:
        if not (docs_dir / f"{stem}-linter.md").exists():
            unknown.append(f"{stem}-linter.md is missing")
    for f in files:
        stem = f.name[:-len("-linter.md")]
        if stem in NO_CODE_DOCS:
            continue
        if stem not in LINTERS:
            unknown.append(f.name)
            continue
        try:
            text = f.read_text(encoding="utf-8")
        except (OSError, UnicodeDecodeError) as e:
            unknown.append(f"{f.name}: unreadable ({e})")
            continue
        if LINTERS[stem][1] not in text:
            unknown.append(f"{f.name}: never mentions its rule-id prefix {LINTERS[stem][1]!r}")
        for line, lang, code_lines, label, heading, h2, unterminated in _blocks(text):
            stats["fenced_blocks"] += 1
            if unterminated:
                unparsable.append({"doc": f.name, "doc_line": line, "reason": "unterminated fence"})
                continue
            if lang not in LANGS:
                continue
            lg = LANGS[lang]
            stats["code_blocks"] += 1
            code = textwrap.dedent("\n".join(code_lines)).strip("\n") + "\n"
            segs = [n for n, c in enumerate(code.split("\n")) if SEG_MARK.match(c)]
            marks = [n + 1 for n, c in enumerate(code.split("\n")) if VIOL_MARK.search(c)]
            lab_v, lab_ok = bool(VIOL_LABEL.match(label)), bool(OK_LABEL.match(label)) or bool(OK_HEADING.search(heading))
            found = []
            if ADVICE_H2.search(h2) and not marks:
                # best-practice / troubleshooting sections show partial snippets and style advice, not detection claims
                stats["advice_blocks"] = stats.get("advice_blocks", 0) + 1
                continue
            if segs and not marks and not lab_v and not lab_ok and ADVICE_H2.search(h2):
                stats["advice_blocks"] = stats.get("advice_blocks", 0) + 1      # `# Bad / # Good` style advice
                continue
            if segs and not marks and not (lab_v and not lab_ok):
                cl = code.split("\n")
                bounds = segs + [len(cl)]
                if any(c.strip() for c in cl[:segs[0]]):
                    pre = "\n".join(cl[:segs[0]]) + "\n"       # shared preamble (imports ...) goes in front of every segment
                else:
                    pre = ""
                for n, (a, b) in enumerate(zip(bounds, bounds[1:])):
                    kind = SEG_MARK.match(cl[a]).group(2).lower()
                    seg_code = pre + textwrap.dedent("\n".join(cl[a:b])).strip("\n") + "\n"
                    found.append(_mk(stem, line, lg, "violating" if kind == "bad" else "acceptable", seg_code,
                                     f"segment comment `{cl[a].strip()[:40]}`", seg=f".s{n}", label=label, heading=heading))
            elif marks:
                if lab_ok and not lab_v:
                    unparsable.append({"doc": f.name, "doc_line": line, "reason": f"violation markers under an acceptable label/heading ({label[:40]!r} / {heading[:40]!r})"})
                    continue
                found.append(_mk(stem, line, lg, "violating", code, "inline VIOLATION markers", expected_lines=marks, label=label, heading=heading))
            elif lab_v and not lab_ok:
                found.append(_mk(stem, line, lg, "violating", code, f"label {label[:40]!r}", label=label, heading=heading))
            elif lab_ok and not lab_v:
                found.append(_mk(stem, line, lg, "acceptable", code, f"label/heading {label[:30]!r} / {heading[:30]!r}", label=label, heading=heading))
            elif lab_ok and lab_v:
                # e.g. **Before:** under a heading that says acceptable: contradictory
                unparsable.append({"doc": f.name, "doc_line": line, "reason": f"contradictory label {label[:40]!r} / heading {heading[:40]!r}"})
                continue
            else:
                stats["unmarked_code_blocks"] += 1
                continue
            for ex in found:
                why = _parses(ex["lang"], ex["code"])
                if why:
                    unparsable.append({"doc": f.name, "doc_line": line, "id": ex["id"], "verdict": ex["verdict"], "reason": why})
                else:
                    examples.append(ex)
    seen, uniq = set(), []
    for ex in examples:                       # the same snippet quoted twice in one document counts once
        if ex["id"] in seen:
            continue
        seen.add(ex["id"])
        uniq.append(ex)
    return {"examples": uniq, "unparsable": unparsable, "unknown_docs": unknown, "stats": stats}


if __name__ == "__main__":
    import collections
    import json
    r = extract()
    c = collections.Counter((e["linter"], e["lang"], e["verdict"]) for e in r["examples"])
    for k in sorted(c):
        print(k, c[k])
    print("unparsable:", len(r["unparsable"]), "unknown:", r["unknown_docs"], r["stats"])
    if "-v" in sys.argv:
        json.dump(r["unparsable"], sys.stdout, indent=1)


# ------------------------------------------------------------------ what the documents say about identifier NAMES
def name_spec(docs_dir: Path | None = None) -> dict:
    """Identifier renaming ("with its identifiers renamed") must keep an example inside the behaviour its document
    describes.  Where a document defines a pattern or an exemption BY NAME, the renaming has to respect it:
      keep_*    identifiers that are part of the documented pattern and therefore stay as they are
      forbid_*  new names that would move an identifier into a documented name-defined pattern or exemption
    Every rule is read from the document text (fail-closed: a phrase that is gone is reported in `problems`)."""
    docs_dir = docs_dir or (REPO / "docs")
    spec, problems = {}, []

    def text_of(stem):
        try:
            return (docs_dir / f"{stem}-linter.md").read_text(encoding="utf-8")
        except OSError:
            problems.append(f"{stem}-linter.md unreadable")
            return ""

    # performance: "- Variables named: result, output, ..." (variables with these names count as strings)
    t = text_of("performance")
    m = re.findall(r"^- Variables named:\s*(.+)$", t, re.M)
    if len(m) == 1:
        names = [x.strip().strip("`").lower() for x in m[0].split(",")]
        spec["perf"] = {"keep_exact_lower": names, "forbid_exact_lower": names}
    else:
        problems.append("performance-linter.md: `Variables named:` line not found")
    # performance: the regex rule is defined by the module name and the function names the document lists
    # ("**Regex detection:**" - `re.match()` ..., `re.compile()` for the fix): these identifiers keep their names
    rx = re.search(r"\*\*Regex detection:\*\*\n((?:- `\w+\.\w+\(\)`\n)+)", t)
    if rx and "re.compile()" in t:
        pairs = re.findall(r"`(\w+)\.(\w+)\(\)`", rx.group(1))
        rx_names = sorted({a for a, _ in pairs} | {b for _, b in pairs} | {"compile"})
        spec.setdefault("perf", {})
        spec["perf"]["keep_exact_lower"] = list(spec["perf"].get("keep_exact_lower", [])) + rx_names
        spec["perf"]["forbid_exact_lower"] = list(spec["perf"].get("forbid_exact_lower", [])) + rx_names
    else:
        problems.append("performance-linter.md: `**Regex detection:**` list not found")
    # improper-logging: conditional-verbose is defined by verbose-like conditions around logger / logging calls
    t = text_of("improper-logging")
    if "verbose-like conditions" in t and "if verbose:" in t and "logger.debug()" in t:
        spec["improper-logging"] = {"keep_contains_lower": ["verbose"], "forbid_contains_lower": ["verbose"],
                                    "keep_exact_lower": ["logger", "logging", "log"]}
    else:
        problems.append("improper-logging-linter.md: the description of verbose-like conditions changed")
    # method-property: dunder methods and action verbs (default prefixes / names) are documented exclusions
    t = text_of("method-property")
    mp = re.search(r"\*\*Default Prefixes\*\*[^\n]*\n- (.+)", t)
    mn = re.search(r"\*\*Default Names\*\*[^\n]*\n- (.+)", t)
    if mp and mn and "Are dunder methods" in t:
        spec["method-property"] = {"fn_forbid_prefixes": [x.rstrip("*") for x in re.findall(r"`([a-z_]+\*?)`", mp.group(1))],
                                   "fn_forbid_names": re.findall(r"`([a-z_]+)`", mn.group(1)), "fn_forbid_dunder": True}
    else:
        problems.append("method-property-linter.md: default exclusion lists / dunder rule not found")
    return {"spec": spec, "problems": problems}
