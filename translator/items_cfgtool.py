"""Generated layer for the configuration tooling (C20): `thailint init-config` merging and
`thailint config set/get/reset`.

Everything the C20 model reads as a literal comes from here: the section table, the template text,
the preset table and its placeholders, the header/marker/regex texts, the separators and the
comparison used by the text splice, the key normalisation, the value conversion order, the defaults
and the validators of src/config.py.  Every item checks the *shape* of the code around the literal
and fails closed (Unsupported) when it is not the shape the hand-written skeleton in
Model/CfgMerge.v / Model/CfgCli.v was written for.
"""
import ast
import re

from translator.lib import (Unsupported, cmp_op, coq_list, coq_str_list, coq_string, const_value, defn, find_assign,
                            find_func, fstring_parts, parse, source, str_elems)

GEN_FILE = "CfgToolGen"
HEADER = "From TL Require Import Lib.Base Lib.GenTypes Model.CfgTypes.\nFrom Coq Require Import ZArith."
SERVES = ["C20"]
M = "src/cli/config_merge.py"
C = "src/cli/config.py"
S = "src/config.py"
P = "src/core/config_parser.py"
T = "src/templates/thailint_config_template.yaml"
FINGERPRINTS = [
    (M, ["_process_template_line", "_handle_section_header", "_start_linter_section", "_handle_content_line", "_save_current_section",
         "extract_linter_sections", "identify_missing_sections", "merge_config_sections", "_insert_before_global_settings",
         "_find_global_settings_position", "perform_merge", "_parse_existing_config", "_build_missing_sections_dict"]),
    (C, ["config_get", "config_set", "config_reset", "init_config", "_convert_value_type", "_validate_and_report_errors",
         "_save_and_report_success", "_generate_config_content", "_write_config_file", "_run_interactive_preset_selection"]),
    (S, ["load_config", "_load_from_explicit_path", "_load_from_default_locations", "_try_load_from_location", "_load_and_merge_config",
         "save_config", "_validate_before_save", "_write_config_file", "validate_config", "merge_configs"]),
    (P, ["parse_config_file", "_normalize_config_keys", "parse_yaml", "parse_json"]),
    (S, ["_load_config_file", "_validate_and_return_config", "_write_and_log_config", "_write_yaml_config", "_write_json_config"]),
    ("src/cli/main.py", ["cli"]),
]


def _body(f):
    """statements of a function without its docstring"""
    b = f.body
    if b and isinstance(b[0], ast.Expr) and isinstance(b[0].value, ast.Constant) and isinstance(b[0].value.value, str):
        b = b[1:]
    return b


def _expect(cond, what):
    if not cond:
        raise Unsupported(what)


def _unparse_is(node, text, what):
    got = ast.unparse(node)
    _expect(got == text, f"{what}: expected `{text}`, found `{got}`")


# ---------------------------------------------------------------- config_merge.py
def linter_sections():
    v = str_elems(find_assign(parse(M), "LINTER_SECTIONS"))
    _expect(len(v) == len(set(v)) and v, "LINTER_SECTIONS empty or with duplicates")
    return defn("linter_sections", "list string", coq_str_list(v))


def header_prefix():
    f = find_func(parse(M), "_is_section_header_line")
    b = _body(f)
    _expect(len(b) == 1 and isinstance(b[0], ast.Return), "_is_section_header_line: single return expected")
    c = b[0].value
    _expect(isinstance(c, ast.Call) and ast.unparse(c.func) == "line.startswith" and len(c.args) == 1, "_is_section_header_line: line.startswith(<const>)")
    p = const_value(c.args[0])
    _expect(isinstance(p, str) and p and "\n" not in p, "header prefix")
    return defn("section_header_prefix", "string", coq_string(p))


EXPECTED_SECTION_RE = r"^([a-z][a-z0-9-]*):$"


def section_regex():
    f = find_func(parse(M), "_get_linter_section_name")
    b = _body(f)
    _expect(len(b) == 3, "_get_linter_section_name: three statements expected")
    _expect(isinstance(b[0], ast.Assign) and isinstance(b[0].value, ast.Call) and ast.unparse(b[0].value.func) == "re.match"
            and len(b[0].value.args) == 2 and ast.unparse(b[0].value.args[1]) == "line", "re.match(<pattern>, line)")
    pat = const_value(b[0].value.args[0])
    _expect(pat == EXPECTED_SECTION_RE, f"section regex changed: {pat!r} (the matcher in Model/CfgMerge.v is written for {EXPECTED_SECTION_RE!r})")
    _expect(isinstance(b[1], ast.If) and not b[1].orelse, "if section_match and ...: return group(1)")
    _unparse_is(b[1].test, "section_match and section_match.group(1) in LINTER_SECTIONS", "_get_linter_section_name test")
    _unparse_is(b[1].body[0], "return section_match.group(1)", "_get_linter_section_name result")
    _unparse_is(b[2], "return None", "_get_linter_section_name fallthrough")
    return defn("section_name_regex", "string", coq_string(pat)) + defn("section_name_suffix", "string", coq_string(":"))


def buffer_line():
    f = find_func(parse(M), "_is_buffer_line")
    b = _body(f)
    _expect(len(b) == 2, "_is_buffer_line: two statements")
    _unparse_is(b[0], "stripped = line.strip()", "_is_buffer_line strip")
    r = b[1]
    _expect(isinstance(r, ast.Return) and isinstance(r.value, ast.BoolOp) and isinstance(r.value.op, ast.Or) and len(r.value.values) == 2,
            "_is_buffer_line: `a or b`")
    a, e = r.value.values
    _expect(isinstance(a, ast.Call) and ast.unparse(a.func) == "stripped.startswith" and len(a.args) == 1, "stripped.startswith(<const>)")
    _expect(isinstance(e, ast.Compare) and isinstance(e.ops[0], ast.Eq) and ast.unparse(e.left) == "stripped", "stripped == <const>")
    p, emp = const_value(a.args[0]), const_value(e.comparators[0])
    _expect(isinstance(p, str) and len(p) == 1 and emp == "", "buffer line constants")
    return defn("buffer_comment_prefix", "string", coq_string(p))


def extract_machine():
    """the line state machine: shapes of the five helpers and the driver (hand-modelled, checked structurally)"""
    mod = parse(M)
    exp = {
        "_save_current_section": ["if current_section and current_content:\n    sections[current_section] = '\\n'.join(current_content)"],
        "_handle_section_header": ["_save_current_section(sections, current_section, current_content)", "return (None, [], [line])"],
        "_start_linter_section": ["return (section_name, header_buffer + [line], [])"],
        "_handle_content_line": ["if current_section:\n    current_content.append(line)\n    return (current_section, current_content, header_buffer)",
                                 "if _is_buffer_line(line):\n    header_buffer.append(line)\n    return (current_section, current_content, header_buffer)",
                                 "return (current_section, current_content, [])"],
        "_process_template_line": ["if _is_section_header_line(line):\n    return _handle_section_header(line, sections, current_section, current_content)",
                                   "section_name = _get_linter_section_name(line)",
                                   "if section_name:\n    _save_current_section(sections, current_section, current_content)\n    return _start_linter_section(section_name, line, header_buffer)",
                                   "return _handle_content_line(line, current_section, current_content, header_buffer)"],
        "extract_linter_sections": ["sections: dict[str, str] = {}", "lines = template.split('\\n')", "current_section: str | None = None",
                                    "current_content: list[str] = []", "header_buffer: list[str] = []",
                                    "for line in lines:\n    current_section, current_content, header_buffer = _process_template_line(line, sections, current_section, current_content, header_buffer)",
                                    "if current_section and current_content:\n    sections[current_section] = '\\n'.join(current_content)",
                                    "return sections"],
    }
    for name, stmts in exp.items():
        b = _body(find_func(mod, name))
        got = [ast.unparse(s) for s in b]
        _expect(got == stmts, f"{name}: body differs from the modelled state machine: {got}")
    return defn("extract_machine_shape_ok", "bool", "true")


def _norm_chars():
    """(from, to) of _normalize_config_keys, for comparing other normalisation sites with it"""
    f = find_func(parse(P), "_normalize_config_keys")
    for n in ast.walk(f):
        if isinstance(n, ast.Call) and ast.unparse(n.func) == "key.replace" and len(n.args) == 2:
            return const_value(n.args[0]), const_value(n.args[1])
    raise Unsupported("_normalize_config_keys: key.replace not found")


def missing_test():
    """identify_missing_sections: membership among the literal keys (original) or among the normalised keys (repaired)"""
    f = find_func(parse(M), "identify_missing_sections")
    b = [ast.unparse(x) for x in _body(f)]
    frm, to = _norm_chars()
    raw = ["return [s for s in all_sections if s not in existing_config]"]
    normalised = [f"existing = {{str(key).replace({frm!r}, {to!r}) for key in existing_config}}",
                  f"return [s for s in all_sections if s.replace({frm!r}, {to!r}) not in existing]"]
    if b == raw:
        flag = "false"
    elif b == normalised:
        flag = "true"
    else:
        raise Unsupported(f"identify_missing_sections: neither the literal-key nor the normalised-key membership test: {b}")
    g = find_func(parse(M), "_build_missing_sections_dict")
    _unparse_is(_body(g)[0], "return {name: template_sections[name] for name in missing_names if name in template_sections}", "_build_missing_sections_dict")
    return defn("missing_test_is_not_in", "bool", "true") + defn("missing_by_normalised_key", "bool", flag)


def _newlines_only(s, what):
    _expect(isinstance(s, str) and s and set(s) == {"\n"}, f"{what}: expected a run of newlines, found {s!r}")
    return len(s)


def global_marker():
    f = find_func(parse(M), "_find_global_settings_position")
    b = _body(f)
    _expect(len(b) == 2 and isinstance(b[0], ast.Assign), "_find_global_settings_position: marker assignment + return")
    m = const_value(b[0].value)
    _unparse_is(b[1], "return content.find(marker)", "_find_global_settings_position")
    _expect(isinstance(m, str) and m.count("\n") == 1, "marker must span exactly two lines")
    l1, l2 = m.split("\n")
    _expect(l1 and l2, "marker lines must be non-empty")
    return defn("marker_line1", "string", coq_string(l1)) + defn("marker_line2_prefix", "string", coq_string(l2))


def merge_shape():
    """merge_config_sections / _insert_before_global_settings: operator, separators"""
    mod = parse(M)
    b = _body(find_func(mod, "merge_config_sections"))
    _expect(len(b) == 5, "merge_config_sections: five statements")
    _unparse_is(b[0], "if not missing_sections:\n    return existing_content", "merge_config_sections empty case")
    _expect(isinstance(b[1], ast.Assign) and isinstance(b[1].value, ast.Call) and isinstance(b[1].value.func, ast.Attribute)
            and b[1].value.func.attr == "join" and ast.unparse(b[1].value.args[0]) == "missing_sections.values()", "sections_text = <sep>.join(missing_sections.values())")
    join_nl = _newlines_only(const_value(b[1].value.func.value), "section join separator")
    _unparse_is(b[2], "insert_pos = _find_global_settings_position(existing_content)", "insert_pos")
    i = b[3]
    _expect(isinstance(i, ast.If) and not i.orelse and isinstance(i.test, ast.Compare) and ast.unparse(i.test.left) == "insert_pos", "if insert_pos <op> <k>")
    op = cmp_op(i.test)
    k = const_value(i.test.comparators[0])
    _expect(isinstance(k, int) and k >= 0, "insert_pos bound")
    _unparse_is(i.body[0], "return _insert_before_global_settings(existing_content, sections_text, insert_pos)", "insert branch")
    r = b[4]
    _expect(isinstance(r, ast.Return), "append branch")
    # existing_content.rstrip() + SEP + sections_text + TAIL
    e = r.value
    parts = []
    while isinstance(e, ast.BinOp) and isinstance(e.op, ast.Add):
        parts.insert(0, e.right)
        e = e.left
    parts.insert(0, e)
    _expect(len(parts) == 4 and ast.unparse(parts[0]) == "existing_content.rstrip()" and ast.unparse(parts[2]) == "sections_text", "append expression shape")
    app_sep = _newlines_only(const_value(parts[1]), "append separator")
    app_tail = _newlines_only(const_value(parts[3]), "append tail")
    g = _body(find_func(mod, "_insert_before_global_settings"))
    _expect(len(g) == 1 and isinstance(g[0], ast.Return), "_insert_before_global_settings")
    e = g[0].value
    parts = []
    while isinstance(e, ast.BinOp) and isinstance(e.op, ast.Add):
        parts.insert(0, e.right)
        e = e.left
    parts.insert(0, e)
    _expect(len(parts) == 4 and ast.unparse(parts[0]) == "content[:insert_pos]" and ast.unparse(parts[1]) == "sections_text"
            and ast.unparse(parts[3]) == "content[insert_pos:]", "insert expression shape")
    ins_sep = _newlines_only(const_value(parts[2]), "insert separator")
    return (defn("section_join_newlines", "nat", str(join_nl)) + defn("insert_pos_cmp", "cmp", op) + defn("insert_pos_bound", "nat", str(k))
            + defn("append_sep_newlines", "nat", str(app_sep)) + defn("append_tail_newlines", "nat", str(app_tail))
            + defn("insert_sep_newlines", "nat", str(ins_sep)))


def perform_merge_shape():
    b = _body(find_func(parse(M), "perform_merge"))
    got = [ast.unparse(s) for s in b]
    exp = ["existing_content = output_path.read_text(encoding='utf-8')",
           "existing_config = _parse_existing_config(existing_content, output)",
           "template_sections = extract_linter_sections(generate_config_fn(preset))",
           "missing_names = identify_missing_sections(existing_config, list(template_sections.keys()))",
           "if not missing_names:\n    click.echo(f'{output} already contains all linter sections')\n    return",
           "missing_sections = _build_missing_sections_dict(missing_names, template_sections)",
           "merged_content = merge_config_sections(existing_content, missing_sections)",
           "output_path.write_text(merged_content, encoding='utf-8')",
           "_report_merge_results(missing_names, output)"]
    _expect(got == exp, f"perform_merge differs from the modelled pipeline: {got}")
    p = _body(find_func(parse(M), "_parse_existing_config"))
    _expect(len(p) == 1 and isinstance(p[0], ast.Try), "_parse_existing_config: try/except")
    _unparse_is(p[0].body[0], "return yaml.safe_load(content) or {}", "_parse_existing_config load")
    h = p[0].handlers[0]
    _expect(ast.unparse(h.type) == "yaml.YAMLError", "_parse_existing_config handler")
    ex = [s for s in h.body if isinstance(s, ast.Expr) and ast.unparse(s.value.func) == "sys.exit"]
    _expect(len(ex) == 1, "sys.exit in handler")
    code = const_value(ex[0].value.args[0])
    _expect(isinstance(code, int) and code > 0, "exit code of unparsable existing config")
    ic = find_func(parse(C), "init_config")
    tests = [ast.unparse(n.test) for n in ast.walk(ic) if isinstance(n, ast.If)]
    _expect("output_path.exists() and (not force)" in tests, f"init_config: merge guard `output_path.exists() and not force` not found: {tests}")
    return defn("unparsable_exit_code", "nat", str(code))


# ---------------------------------------------------------------- cli/config.py: presets and template
def presets():
    f = find_func(parse(C), "_generate_config_content")
    d = None
    reps = []
    tpl = None
    for st in _body(f):
        if isinstance(st, ast.Assign) and ast.unparse(st.targets[0]) == "presets":
            d = st.value
        if isinstance(st, ast.Assign) and ast.unparse(st.targets[0]) == "content":
            c = st.value
            _expect(isinstance(c, ast.Call) and isinstance(c.func, ast.Attribute) and c.func.attr == "replace" and len(c.args) == 2,
                    "content = <x>.replace(<placeholder>, config[<key>])")
            src = ast.unparse(c.func.value)
            _expect(src == ("template" if not reps else "content"), "replace chain")
            ph = const_value(c.args[0])
            _expect(isinstance(c.args[1], ast.Subscript) and ast.unparse(c.args[1].value) == "config", "replacement must be config[<key>]")
            reps.append((ph, const_value(c.args[1].slice)))
        if isinstance(st, ast.Assign) and ast.unparse(st.targets[0]) == "template_path":
            tpl = ast.unparse(st.value)
    _expect(tpl == "Path(__file__).parent.parent / 'templates' / 'thailint_config_template.yaml'", f"template path: {tpl}")
    _expect(isinstance(d, ast.Dict) and reps, "presets dict / replace chain not found")
    _unparse_is(_body(f)[-1], "return content", "_generate_config_content result")
    rows = []
    names = []
    for k, v in zip(d.keys, d.values):
        name = const_value(k)
        _expect(isinstance(v, ast.Dict), "preset entry")
        entry = {const_value(a): const_value(b) for a, b in zip(v.keys, v.values)}
        pairs = []
        for ph, key in reps:
            _expect(key in entry and isinstance(entry[key], str) and "\n" not in entry[key] and ph and "\n" not in ph, f"preset {name}: key {key}")
            pairs.append(f"({coq_string(ph)}, {coq_string(entry[key])})")
        rows.append(f"({coq_string(name)}, {coq_list(pairs)})")
        names.append(name)
    # the click.Choice of --preset must offer exactly these presets
    ic = find_func(parse(C), "init_config")
    choices = None
    default_output = None
    for dec in ic.decorator_list:
        if isinstance(dec, ast.Call) and ast.unparse(dec.func) == "click.option":
            a0 = const_value(dec.args[0])
            kw = {k.arg: k.value for k in dec.keywords}
            if a0 == "--preset":
                choices = str_elems(kw["type"].args[0])
                _expect(const_value(kw["default"]) in names, "default preset")
            if a0 == "--output":
                default_output = const_value(kw["default"])
    _expect(choices is not None and sorted(choices) == sorted(names), f"--preset choices {choices} vs presets {names}")
    _expect(isinstance(default_output, str), "--output default")
    return (defn("presets", "list (string * list (string * string))", coq_list(rows))
            + defn("default_output_name", "string", coq_string(default_output)))


def template_lines():
    text = source(T)
    _expect("\r" not in text, "template contains CR")
    lines = text.split("\n")
    return defn("template_lines", "list string", "[\n  " + ";\n  ".join(coq_string(l) for l in lines) + "]")


# ---------------------------------------------------------------- config_parser.py
def key_normalisation():
    f = find_func(parse(P), "_normalize_config_keys")
    b = _body(f)
    got = [ast.unparse(s) for s in b]
    _expect(len(b) == 3 and got[0] == "normalized = {}" and got[2] == "return normalized" and isinstance(b[1], ast.For), f"_normalize_config_keys shape: {got}")
    lp = b[1]
    _unparse_is(lp.target, "(key, value)", "loop target")
    _unparse_is(lp.iter, "config.items()", "loop iter")
    _expect(len(lp.body) == 2, "loop body")
    a = lp.body[0]
    _expect(isinstance(a, ast.Assign) and isinstance(a.value, ast.Call) and ast.unparse(a.value.func) == "key.replace" and len(a.value.args) == 2, "key.replace(a, b)")
    frm, to = const_value(a.value.args[0]), const_value(a.value.args[1])
    _expect(isinstance(frm, str) and isinstance(to, str) and len(frm) == 1 and len(to) == 1, "single-character replacement expected")
    _unparse_is(lp.body[1], "normalized[normalized_key] = value", "assignment")
    pf = find_func(parse(P), "parse_config_file")
    _unparse_is(_body(pf)[-1], "return _normalize_config_keys(config)", "parse_config_file result")
    return defn("norm_from", "ascii", f"{coq_string(frm)}%char") + defn("norm_to", "ascii", f"{coq_string(to)}%char")


# ---------------------------------------------------------------- src/config.py and cli/config.py: set/get/reset
def _cval(v):
    if isinstance(v, bool):
        return f"VBool {'true' if v else 'false'}"
    if isinstance(v, int):
        return f"VInt ({v})%Z"
    if isinstance(v, str):
        return f"VStr {coq_string(v)}"
    raise Unsupported(f"default value of unsupported type {type(v).__name__}")


def default_config():
    mod = parse(S)
    d = find_assign(mod, "DEFAULT_CONFIG")
    _expect(isinstance(d, ast.Dict), "DEFAULT_CONFIG dict")
    rows = []
    for k, v in zip(d.keys, d.values):
        if isinstance(v, ast.Name):
            v = find_assign(mod, v.id)
        rows.append(f"({coq_string(const_value(k))}, {_cval(const_value(v))})")
    locs = find_assign(mod, "CONFIG_LOCATIONS")
    _expect(isinstance(locs, ast.List) and ast.unparse(locs.elts[0]) == "Path.cwd() / 'config.yaml'", "CONFIG_LOCATIONS[0]")
    return defn("default_config", "list (string * cval)", coq_list(rows))


BOUNDS: dict = {}   # key -> bound of its guard, filled by validators() (read by the harness to draw boundary values)


def _only_if(f, nth=-1):
    b = _body(f)
    i = b[nth]
    _expect(isinstance(i, ast.If) and not i.orelse, f"{f.name}: trailing if expected")
    return i


def validators():
    mod = parse(S)
    out = ""
    v = _body(find_func(mod, "validate_config"))
    calls = [ast.unparse(s) for s in v]
    exp = ["errors: list[str] = []", "_validate_required_keys(config, errors)", "_validate_log_level(config, errors)", "_validate_output_format(config, errors)",
           "_validate_numeric_values(config, errors)", "_validate_string_values(config, errors)", "return (len(errors) == 0, errors)"]
    _expect(calls == exp, f"validate_config: {calls}")
    n = [ast.unparse(s) for s in _body(find_func(mod, "_validate_numeric_values"))]
    _expect(n == ["_validate_max_retries(config, errors)", "_validate_timeout(config, errors)"], f"_validate_numeric_values: {n}")
    rk = _body(find_func(mod, "_validate_required_keys"))
    req = str_elems(rk[0].value)
    _unparse_is(rk[1], "for key in required_keys:\n    if key not in config:\n        errors.append(f'Missing required key: {key}')", "_validate_required_keys loop")
    out += defn("required_keys", "list string", coq_str_list(req))

    def membership(fname, key, listname, coqname):
        f = find_func(mod, fname)
        b = _body(f)
        _expect(len(b) == 3, f"{fname}: three statements")
        vals = str_elems(b[0].value)
        _expect(ast.unparse(b[0].targets[0]) == listname, f"{fname}: list name")
        t = b[1]
        _expect(isinstance(t, ast.Try) and ast.unparse(t.body[0].value) == f"config['{key}']" and ast.unparse(t.handlers[0].type) == "KeyError"
                and ast.unparse(t.handlers[0].body[0]) == "return", f"{fname}: optional key lookup")
        var = ast.unparse(t.body[0].targets[0])
        i = _only_if(f)
        _unparse_is(i.test, f"{var} not in {listname}", f"{fname} test")
        return defn(coqname, "list string", coq_str_list(vals))

    out += membership("_validate_log_level", "log_level", "valid_log_levels", "valid_log_levels")
    out += membership("_validate_output_format", "output_format", "valid_formats", "valid_formats")

    def numeric(fname, key, types, coqprefix):
        f = find_func(mod, fname)
        b = _body(f)
        _expect(len(b) == 2, f"{fname}: two statements")
        t = b[0]
        _expect(isinstance(t, ast.Try) and ast.unparse(t.body[0].value) == f"config['{key}']" and ast.unparse(t.handlers[0].body[0]) == "return", f"{fname}: lookup")
        var = ast.unparse(t.body[0].targets[0])
        i = _only_if(f)
        tst = i.test
        _expect(isinstance(tst, ast.BoolOp) and isinstance(tst.op, ast.Or) and len(tst.values) == 2, f"{fname}: `not isinstance or cmp`")
        _unparse_is(tst.values[0], f"not isinstance({var}, {types})", f"{fname} type test")
        c = tst.values[1]
        _expect(isinstance(c, ast.Compare) and ast.unparse(c.left) == var, f"{fname}: comparison")
        bound = const_value(c.comparators[0])
        _expect(isinstance(bound, int) and not isinstance(bound, bool), f"{fname}: integer bound expected")
        _expect(len(i.body) == 1 and ast.unparse(i.body[0]).startswith("errors.append("), f"{fname}: errors.append(<message>)")
        msg = const_value(i.body[0].value.args[0])
        _expect(isinstance(msg, str), f"{fname}: message")
        BOUNDS[key] = bound
        return (defn(coqprefix + "_bad_cmp", "cmp", cmp_op(c)) + defn(coqprefix + "_bound", "Z", f"({bound})%Z")
                + defn(coqprefix + "_msg", "string", coq_string(msg)))

    out += numeric("_validate_max_retries", "max_retries", "int", "max_retries")
    out += numeric("_validate_timeout", "timeout", "(int, float)", "timeout")
    s = find_func(mod, "_validate_string_values")
    i = _only_if(s)
    _unparse_is(i.test, "not isinstance(app_name, str) or not app_name.strip()", "_validate_string_values test")
    _unparse_is(_body(s)[0].body[0], "app_name = config['app_name']", "_validate_string_values lookup")
    _expect(len(i.body) == 1 and ast.unparse(i.body[0]).startswith("errors.append("), "_validate_string_values: errors.append(<message>)")
    out += defn("app_name_msg", "string", coq_string(const_value(i.body[0].value.args[0])))
    return out


def save_and_load():
    """save_config validates before writing; set converts, validates, saves; get prints cfg[key]"""
    mod = parse(S)
    b = [ast.unparse(x) for x in _body(find_func(mod, "save_config"))]
    _expect(len(b) == 4 and re.fullmatch(r"path = config_path or CONFIG_LOCATIONS\[\d+\]", b[0]) is not None
            and b[1:] == ["path.parent.mkdir(parents=True, exist_ok=True)", "_validate_before_save(config)", "_write_and_log_config(config, path)"],
            f"save_config: {b}")
    vb = _body(find_func(mod, "_validate_before_save"))
    _unparse_is(vb[0], "is_valid, errors = validate_config(config)", "_validate_before_save")
    _expect(isinstance(vb[1], ast.If) and ast.unparse(vb[1].test) == "not is_valid" and isinstance(vb[1].body[-1], ast.Raise), "_validate_before_save raises")
    lm = [ast.unparse(x) for x in _body(find_func(mod, "_load_and_merge_config"))]
    _expect(lm == ["config = DEFAULT_CONFIG.copy()", "user_config = _load_config_file(config_path)", "return merge_configs(config, user_config)"], f"_load_and_merge_config: {lm}")
    ex = [ast.unparse(x) for x in _body(find_func(mod, "_load_from_explicit_path"))]
    _expect(ex == ["if not config_path.exists():\n    logger.warning('Config file not found: %s, using defaults', config_path)\n    return DEFAULT_CONFIG.copy()",
                   "merged_config = _load_and_merge_config(config_path)", "return _validate_and_return_config(merged_config, config_path)"], f"_load_from_explicit_path: {ex}")
    tl = ast.unparse(find_func(mod, "_try_load_from_location"))
    _expect("if not is_valid:" in tl and "return None" in tl, "_try_load_from_location")
    mc = [ast.unparse(x) for x in _body(find_func(mod, "merge_configs"))]
    _expect(mc == ["result = base.copy()",
                   "for key, value in override.items():\n    if key in result and isinstance(result[key], dict) and isinstance(value, dict):\n        result[key] = merge_configs(result[key], value)\n    else:\n        result[key] = value",
                   "return result"], f"merge_configs: {mc}")
    cm = parse(C)
    st = find_func(cm, "config_set")
    sb = [ast.unparse(x) for x in _body(st)]
    frm, to = _norm_chars()
    norm_stmt = f"key = key.replace({frm!r}, {to!r})"
    set_norm = len(sb) > 2 and sb[2] == norm_stmt
    if set_norm:
        del sb[2]
    _expect(sb[:3] == ["cfg = ctx.obj['config']", "converted_value = _convert_value_type(value)", "cfg[key] = converted_value"], f"config_set head: {sb[:3]}")
    _expect("_validate_and_report_errors(cfg)" in sb[3] and "sys.exit(1)" in sb[3], "config_set validation step")
    _expect("_save_and_report_success(cfg, key, converted_value, config_path, verbose)" in sb[4], "config_set save step")
    ve = ast.unparse(find_func(cm, "_validate_and_report_errors"))
    _expect("if not is_valid:" in ve and "sys.exit(1)" in ve, "_validate_and_report_errors")
    gb = [ast.unparse(x) for x in _body(find_func(cm, "config_get"))]
    get_norm = len(gb) > 1 and gb[1] == norm_stmt
    if get_norm:
        del gb[1]
    _expect(gb == ["cfg = ctx.obj['config']", "if key not in cfg:\n    click.echo(f'Configuration key not found: {key}', err=True)\n    sys.exit(1)", "click.echo(cfg[key])"], f"config_get: {gb}")
    rs = ast.unparse(find_func(cm, "config_reset"))
    _expect("save_config(DEFAULT_CONFIG.copy(), config_path)" in rs, "config_reset")
    sr = find_func(cm, "_save_and_report_success")
    msg = None
    for n in ast.walk(sr):
        if isinstance(n, ast.Call) and ast.unparse(n.func) == "click.echo":
            msg = fstring_parts(n.args[0])
    _expect(msg == [("lit", "Set "), ("var", "key"), ("lit", " = "), ("var", "value")], f"set message: {msg}")
    mainf = find_func(parse("src/cli/main.py"), "cli")
    txt = ast.unparse(mainf)
    _expect("ctx.obj['config'] = load_config(Path(config))" in txt and "ctx.obj['config_path'] = None" in txt and "sys.exit(2)" in txt, "cli group config loading")
    return (defn("set_normalises_key", "bool", "true" if set_norm else "false") + defn("get_normalises_key", "bool", "true" if get_norm else "false")
            + defn("set_reject_exit", "nat", "1") + defn("get_missing_exit", "nat", "1") + defn("load_error_exit", "nat", "2")
            + defn("set_msg_prefix", "string", coq_string("Set ")) + defn("set_msg_mid", "string", coq_string(" = ")))


LOCATIONS: list = []   # (base, relative path) per entry of CONFIG_LOCATIONS, filled by config_locations() (read by the harness)


def config_locations():
    """the default-location chain: CONFIG_LOCATIONS (order, base directory, relative name), the location save_config writes
    when no --config is given, and the shapes of load_config / _load_from_default_locations / _try_load_from_location
    (first existing location whose merged configuration validates; unreadable and invalid ones are skipped)"""
    mod = parse(S)
    locs = find_assign(mod, "CONFIG_LOCATIONS")
    _expect(isinstance(locs, ast.List) and locs.elts, "CONFIG_LOCATIONS: non-empty list literal")
    rows = []
    for e in locs.elts:
        parts = []
        while isinstance(e, ast.BinOp) and isinstance(e.op, ast.Div):
            c = const_value(e.right)
            _expect(isinstance(c, str) and c and "/" not in c, f"CONFIG_LOCATIONS: path component {ast.unparse(e.right)}")
            parts.insert(0, c)
            e = e.left
        src = ast.unparse(e)
        if src == "Path.cwd()" and parts:
            rows.append(("cwd", "/".join(parts)))
        elif src == "Path.home()" and parts:
            rows.append(("home", "/".join(parts)))
        elif isinstance(e, ast.Call) and ast.unparse(e.func) == "Path" and len(e.args) == 1 and not parts \
                and isinstance(const_value(e.args[0]), str) and const_value(e.args[0]).startswith("/"):
            rows.append(("abs", const_value(e.args[0])))
        else:
            raise Unsupported(f"CONFIG_LOCATIONS: entry of unknown shape `{ast.unparse(e)}`")
    _expect(len(set(rows)) == len(rows), "CONFIG_LOCATIONS: duplicate entries")
    for _, rel in rows:
        _expect(rel.endswith((".yaml", ".yml", ".json")), f"CONFIG_LOCATIONS: suffix of {rel}")
    sv = ast.unparse(_body(find_func(mod, "save_config"))[0])
    m = re.fullmatch(r"path = config_path or CONFIG_LOCATIONS\[(\d+)\]", sv)
    _expect(m is not None, f"save_config target: {sv}")
    idx = int(m.group(1))
    _expect(idx < len(rows), "save_config target index outside CONFIG_LOCATIONS")
    lc = [ast.unparse(x) for x in _body(find_func(mod, "load_config"))]
    _expect(lc == ["if config_path:\n    return _load_from_explicit_path(config_path)", "return _load_from_default_locations()"], f"load_config: {lc}")
    dl = [ast.unparse(x) for x in _body(find_func(mod, "_load_from_default_locations"))]
    _expect(dl == ["existing_locations = (loc for loc in CONFIG_LOCATIONS if loc.exists())",
                   "for location in existing_locations:\n    loaded_config = _try_load_from_location(location)\n    if loaded_config:\n        return loaded_config",
                   "logger.debug('No CLI config file found, using defaults')", "return DEFAULT_CONFIG.copy()"], f"_load_from_default_locations: {dl}")
    tl = [ast.unparse(x) for x in _body(find_func(mod, "_try_load_from_location"))]
    _expect(tl == ["try:\n    config = _load_and_merge_config(location)\n    is_valid, errors = validate_config(config)\n    if not is_valid:\n"
                   "        logger.warning('Invalid config at %s: %s', location, errors)\n        return None\n"
                   "    logger.info('Loaded config from: %s', location)\n    return config\n"
                   "except ConfigError as e:\n    logger.warning('Failed to load config from %s: %s', location, e)\n    return None"],
            f"_try_load_from_location: {tl}")
    lf = [ast.unparse(x) for x in _body(find_func(mod, "_load_config_file"))]
    _expect(lf == ["try:\n    return parse_config_file(path)\nexcept ConfigParseError as e:\n    raise ConfigError(str(e)) from e\n"
                   "except Exception as e:\n    raise ConfigError(f'Failed to load config from {path}: {e}') from e"], f"_load_config_file: {lf}")
    mainf = ast.unparse(find_func(parse("src/cli/main.py"), "cli"))
    _expect("ctx.obj['config'] = load_config()" in mainf, "cli group: load_config() without --config")
    LOCATIONS[:] = rows
    return (defn("config_locations", "list (string * string)", coq_list([f"({coq_string(a)}, {coq_string(b)})" for a, b in rows]))
            + defn("save_location_index", "nat", str(idx)))


def suffix_handling():
    """--config FILE: which suffixes the loader accepts (parse_config_file: lower-cased suffix in (*CONFIG_EXTENSIONS, '.json')) and
    which the writer accepts (_write_config_file: exact suffix in CONFIG_EXTENSIONS, or == '.json'); a refused write is a
    ConfigError, reported by `config set` / `config reset` with their own exit codes"""
    exts = str_elems(find_assign(parse("src/core/constants.py"), "CONFIG_EXTENSIONS"))
    _expect(exts and all(e.startswith(".") and e == e.lower() and e.isascii() for e in exts), f"CONFIG_EXTENSIONS: {exts}")
    pf = [ast.unparse(x) for x in _body(find_func(parse(P), "parse_config_file"))]
    _expect(len(pf) == 5 and pf[0] == "suffix = path.suffix.lower()" and pf[2].startswith("if suffix not in valid_suffixes:\n    raise ConfigParseError(")
            and pf[3] == "with path.open(encoding=encoding) as f:\n    if suffix in CONFIG_EXTENSIONS:\n        config = parse_yaml(f, path)\n    else:\n        config = parse_json(f, path)"
            and pf[4] == "return _normalize_config_keys(config)", f"parse_config_file: {pf}".replace("(*", "( *"))
    m = re.fullmatch(r"valid_suffixes = \(\*CONFIG_EXTENSIONS, '(\.[a-z]+)'\)", pf[1])
    _expect(m is not None, f"parse_config_file valid_suffixes: {pf[1]}".replace("(*", "( *"))
    js = m.group(1)
    wf = [ast.unparse(x) for x in _body(find_func(parse(S), "_write_config_file"))]
    _expect(wf == [f"if path.suffix in CONFIG_EXTENSIONS:\n    _write_yaml_config(config, path)\nelif path.suffix == '{js}':\n    _write_json_config(config, path)\n"
                   "else:\n    raise ConfigError(f'Unsupported config format: {path.suffix}')"], f"_write_config_file: {wf}")
    wl = [ast.unparse(x) for x in _body(find_func(parse(S), "_write_and_log_config"))]
    _expect(wl == ["try:\n    _write_config_file(config, path)\n    logger.info('Saved config to: %s', path)\nexcept ConfigError:\n    raise\n"
                   "except Exception as e:\n    raise ConfigError(f'Failed to save config to {path}: {e}') from e"], f"_write_and_log_config: {wl}")
    cm = parse(C)
    sb = ast.unparse(_body(find_func(cm, "config_set"))[-1])
    ms = re.fullmatch(r"try:\n    config_path = ctx\.obj\.get\('config_path'\)\n    verbose = ctx\.obj\.get\('verbose', False\)\n"
                      r"    _save_and_report_success\(cfg, key, converted_value, config_path, verbose\)\nexcept ConfigError as e:\n"
                      r"    click\.echo\(f'Error saving configuration: \{e\}', err=True\)\n    sys\.exit\((\d+)\)", sb)
    _expect(ms is not None, f"config_set save step: {sb}")
    rb = ast.unparse(_body(find_func(cm, "config_reset"))[-1])
    mr = re.fullmatch(r"try:\n    config_path = ctx\.obj\.get\('config_path'\)\n    save_config\(DEFAULT_CONFIG\.copy\(\), config_path\)\n"
                      r"    click\.echo\('Configuration reset to defaults'\)\n    logger\.debug\('Configuration reset to defaults'\)\nexcept ConfigError as e:\n"
                      r"    click\.echo\(f'Error resetting configuration: \{e\}', err=True\)\n    sys\.exit\((\d+)\)", rb)
    _expect(mr is not None, f"config_reset save step: {rb}")
    return (defn("config_extensions", "list string", coq_str_list(exts)) + defn("json_extension", "string", coq_string(js))
            + defn("save_error_exit", "nat", ms.group(1)) + defn("reset_error_exit", "nat", mr.group(1)))


def init_entry_shape():
    """init_config: the preset is chosen first (flag or prompt), THEN `exists and not force` decides merge vs fresh file - two
    independent statements; the prompt offers exactly the presets and returns the answer (default on an empty answer)"""
    cm = parse(C)
    b = [ast.unparse(x) for x in _body(find_func(cm, "init_config"))]
    exp = ["output_path = Path(output)",
           "if not non_interactive:\n    preset = _run_interactive_preset_selection(preset)",
           "if output_path.exists() and (not force):\n    perform_merge(output_path, preset, output, _generate_config_content)\n    return",
           "config_content = _generate_config_content(preset)",
           "_write_config_file(output_path, config_content, preset, output)"]
    _expect(b == exp, f"init_config: control shape differs from the modelled entry point: {b}")
    sel = _body(find_func(cm, "_run_interactive_preset_selection"))
    _expect(all(isinstance(x, ast.Expr) and ast.unparse(x.value.func) == "click.echo" for x in sel[:-3]), "_run_interactive_preset_selection: banner of click.echo calls")
    t = [ast.unparse(x) for x in sel[-3:]]
    _expect(t[1] == "result: str = click.prompt('Choose preset', type=preset_choices, default=default_preset)" and t[2] == "return result"
            and t[0].startswith("preset_choices = click.Choice(["), f"_run_interactive_preset_selection: prompt shape: {t}")
    ch = sel[-3].value
    _expect(len(ch.args) == 1 and not ch.keywords, "click.Choice(<list>) without options (case-sensitive)")
    choices = str_elems(ch.args[0])
    wf = ast.unparse(find_func(cm, "_write_config_file"))
    _expect("output_path.write_text(content, encoding='utf-8')" in wf, "_write_config_file writes the content as is")
    return defn("prompt_choices", "list string", coq_str_list(choices)) + defn("init_entry_shape_ok", "bool", "true")


def convert_value():
    f = find_func(parse(C), "_convert_value_type")
    b = _body(f)
    b = [s for s in b if not isinstance(s, ast.ImportFrom)]
    _expect(len(b) == 3, "_convert_value_type: three steps")
    i = b[0]
    _expect(isinstance(i, ast.If) and isinstance(i.test, ast.Compare) and isinstance(i.test.ops[0], ast.In) and ast.unparse(i.test.left) == "value.lower()", "bool test")
    words = str_elems(i.test.comparators[0])
    r = i.body[0]
    _expect(isinstance(r, ast.Return) and isinstance(r.value, ast.Compare) and isinstance(r.value.ops[0], ast.Eq) and ast.unparse(r.value.left) == "value.lower()", "bool result")
    tw = const_value(r.value.comparators[0])
    lp = b[1]
    _expect(isinstance(lp, ast.For) and isinstance(lp.iter, ast.Tuple), "converter loop")
    convs = [ast.unparse(e) for e in lp.iter.elts]
    _expect(all(c in ("int", "float") for c in convs), f"converters: {convs}")
    _unparse_is(lp.body[0], "with suppress(ValueError):\n    return converter(value)", "converter body")
    _unparse_is(b[2], "return value", "fallthrough")
    return (defn("bool_words", "list string", coq_str_list(words)) + defn("true_word", "string", coq_string(tw))
            + defn("converter_order", "list string", coq_str_list(convs)))


ITEMS = [
    ("linter_sections", linter_sections),
    ("section_header_prefix", header_prefix),
    ("section_name_regex", section_regex),
    ("buffer_comment_prefix", buffer_line),
    ("extract_machine", extract_machine),
    ("missing_test", missing_test),
    ("global_marker", global_marker),
    ("merge_shape", merge_shape),
    ("perform_merge_shape", perform_merge_shape),
    ("presets", presets),
    ("template_lines", template_lines),
    ("key_normalisation", key_normalisation),
    ("default_config", default_config),
    ("validators", validators),
    ("save_and_load", save_and_load),
    ("convert_value", convert_value),
    ("config_locations", config_locations),
    ("suffix_handling", suffix_handling),
    ("init_entry_shape", init_entry_shape),
]
