"""Generated layer for the file-placement linter (C18).

Every literal the placement model depends on is read from /repo with `ast`: message formats, default
reasons, the reason-key lookup order, the config keys and the order in which the checks run, the root key,
the depth arithmetic of DirectoryMatcher, the comparison operator and start value of the best-depth search,
the regex entry points and flags.  Any unexpected shape raises Unsupported (fail closed).
"""
import ast

from translator.lib import (Unsupported, cmp_op, const_value, coq_str_list, coq_string, defn, find_class, find_func,
                            fstring_parts, parse)

GEN_FILE = "PlacementGen"
HEADER = "From Coq Require Import ZArith.\nFrom TL Require Import Lib.Base Lib.GenTypes Model.PlacementTypes."
SERVES = ["C18"]
D = "src/linters/file_placement/"
FINGERPRINTS = [
    (D + "rule_checker.py", ["RuleChecker", "RuleCheckContext"]),
    (D + "directory_matcher.py", ["DirectoryMatcher"]),
    (D + "pattern_matcher.py", ["PatternMatcher"]),
    (D + "pattern_validator.py", ["PatternValidator", "_extract_pattern"]),
    (D + "path_resolver.py", ["PathResolver"]),
    (D + "violation_factory.py", ["ViolationFactory"]),
    (D + "linter.py", ["FilePlacementLinter", "FilePlacementRule"]),
    ("src/cli/linters/structure.py", ["_setup_orchestrator", "_apply_orchestrator_config", "_apply_inline_rules", "_parse_json_rules"]),
]


# ---------------------------------------------------------------- helpers
def _body(f):
    """statements of a function without its docstring"""
    b = list(f.body)
    if b and isinstance(b[0], ast.Expr) and isinstance(b[0].value, ast.Constant) and isinstance(b[0].value.value, str):
        b = b[1:]
    return b


def _method(rel, cls, name):
    return find_func(find_class(parse(rel), cls), name)


def _str(e, what):
    v = const_value(e)
    if not isinstance(v, str):
        raise Unsupported(f"{what}: expected a string constant")
    return v


def _fparts(e, varmap, what):
    parts = []
    for kind, v in fstring_parts(e):
        if kind == "lit":
            parts.append(f"FLit {coq_string(v)}")
        elif v in varmap:
            parts.append(varmap[v])
        else:
            raise Unsupported(f"{what}: unknown f-string variable {v}")
    return "[" + "; ".join(parts) + "]"


def _message_assign(f, what):
    hits = [st.value for st in _body(f) if isinstance(st, ast.Assign) and len(st.targets) == 1
            and isinstance(st.targets[0], ast.Name) and st.targets[0].id == "message"]
    if len(hits) != 1:
        raise Unsupported(f"{what}: {len(hits)} message assignments")
    return hits[0]


def _build_call(f, what):
    calls = [n for n in ast.walk(f) if isinstance(n, ast.Call) and isinstance(n.func, ast.Attribute) and n.func.attr == "build_from_params"]
    if len(calls) != 1 or calls[0].args:
        raise Unsupported(f"{what}: build_from_params call")
    kw = {k.arg: k.value for k in calls[0].keywords}
    if ast.unparse(kw.get("message")) != "message" or ast.unparse(kw.get("file_path")) != "str(rel_path)":
        raise Unsupported(f"{what}: message/file_path arguments")
    return _str(kw["rule_id"], what), const_value(kw["line"]), const_value(kw["column"])


# ---------------------------------------------------------------- violation_factory.py
def messages():
    rel = D + "violation_factory.py"
    vm = {"rel_path": "FRel", "matched_path": "FMatched", "reason": "FReason"}
    out = ""
    ids = set()
    f = _method(rel, "ViolationFactory", "create_deny_violation")
    out += defn("fp_dir_deny_msg", "list fpart", _fparts(_message_assign(f, "deny"), vm, "deny"))
    ids.add(_build_call(f, "deny"))
    f = _method(rel, "ViolationFactory", "create_allow_violation")
    out += defn("fp_dir_allow_msg", "list fpart", _fparts(_message_assign(f, "allow"), vm, "allow"))
    ids.add(_build_call(f, "allow"))
    f = _method(rel, "ViolationFactory", "create_global_deny_violation")
    m = _message_assign(f, "global deny")
    if not (isinstance(m, ast.BoolOp) and isinstance(m.op, ast.Or) and len(m.values) == 2 and ast.unparse(m.values[0]) == "reason"):
        raise Unsupported("global deny message is not `reason or f'...'`")
    out += defn("fp_gdeny_fallback_msg", "list fpart", _fparts(m.values[1], vm, "global deny"))
    ids.add(_build_call(f, "global deny"))
    f = _method(rel, "ViolationFactory", "create_global_allow_violation")
    out += defn("fp_gallow_msg", "list fpart", _fparts(_message_assign(f, "global allow"), vm, "global allow"))
    ids.add(_build_call(f, "global allow"))
    if len(ids) != 1:
        raise Unsupported(f"violations built with different rule_id/line/column: {sorted(map(str, ids))}")
    rid, line, col = ids.pop()
    if not (isinstance(line, int) and isinstance(col, int) and line >= 0 and col >= 0):
        raise Unsupported("line/column")
    return out + defn("fp_rule_id", "string", coq_string(rid)) + defn("fp_line", "nat", str(line)) + defn("fp_column", "nat", str(col))


# ---------------------------------------------------------------- pattern_matcher.py
def reasons():
    rel = D + "pattern_matcher.py"
    f = _method(rel, "PatternMatcher", "_extract_pattern_and_reason")
    b = _body(f)
    if len(b) != 2 or not isinstance(b[0], ast.If) or b[0].orelse or len(b[0].body) != 1 or not isinstance(b[1], ast.Return):
        raise Unsupported("_extract_pattern_and_reason: shape")
    if ast.unparse(b[0].test) != "isinstance(deny_item, str)":
        raise Unsupported("_extract_pattern_and_reason: test")
    r0 = b[0].body[0]
    if not (isinstance(r0, ast.Return) and isinstance(r0.value, ast.Tuple) and len(r0.value.elts) == 2 and ast.unparse(r0.value.elts[0]) == "deny_item"):
        raise Unsupported("_extract_pattern_and_reason: string branch")
    default_str = _str(r0.value.elts[1], "default reason")
    t = b[1].value
    if not (isinstance(t, ast.Tuple) and len(t.elts) == 2):
        raise Unsupported("_extract_pattern_and_reason: dict branch")
    sub = t.elts[0]
    if not (isinstance(sub, ast.Subscript) and ast.unparse(sub.value) == "deny_item"):
        raise Unsupported("pattern subscript")
    pkey = _str(sub.slice, "pattern key")
    keys = []
    e = t.elts[1]
    while isinstance(e, ast.Call):
        if not (isinstance(e.func, ast.Attribute) and e.func.attr == "get" and ast.unparse(e.func.value) == "deny_item" and len(e.args) == 2 and not e.keywords):
            raise Unsupported("reason lookup is not a chain of deny_item.get(k, ...)")
        keys.append(_str(e.args[0], "reason key"))
        e = e.args[1]
    default_dict = _str(e, "default reason (dict)")
    if not keys:
        raise Unsupported("no reason keys")
    # the deny fallback in rule_checker: `reason or "Pattern denied"`
    g = _method(D + "rule_checker.py", "RuleChecker", "_check_directory_deny_rules")
    ors = [n for n in ast.walk(g) if isinstance(n, ast.BoolOp) and isinstance(n.op, ast.Or)]
    if len(ors) != 1 or len(ors[0].values) != 2 or ast.unparse(ors[0].values[0]) != "reason":
        raise Unsupported("_check_directory_deny_rules: `reason or <fallback>`")
    fallback = _str(ors[0].values[1], "deny fallback")
    return (defn("fp_default_reason_str", "string", coq_string(default_str))
            + defn("fp_default_reason_dict", "string", coq_string(default_dict))
            + defn("fp_pattern_key", "string", coq_string(pkey))
            + defn("fp_reason_keys", "list string", coq_str_list(keys))
            + defn("fp_dir_deny_fallback", "string", coq_string(fallback)))


def regex_entry():
    """re.compile(pattern, re.IGNORECASE) + compiled.search(path_str) in the matcher, re.compile(pattern) in the validator"""
    rel = D + "pattern_matcher.py"
    f = _method(rel, "PatternMatcher", "_get_compiled")
    comp = [n for n in ast.walk(f) if isinstance(n, ast.Call) and ast.unparse(n.func) == "re.compile"]
    if len(comp) != 1 or len(comp[0].args) not in (1, 2) or comp[0].keywords or ast.unparse(comp[0].args[0]) != "pattern":
        raise Unsupported("_get_compiled: re.compile call")
    flags = []
    for part in (ast.unparse(comp[0].args[1]).split("|") if len(comp[0].args) == 2 else []):
        part = part.strip()
        if not part.startswith("re."):
            raise Unsupported("regex flags")
        flags.append(part[3:])
    methods = []
    for name in ("match_deny_patterns", "match_allow_patterns"):
        g = _method(rel, "PatternMatcher", name)
        calls = [n for n in ast.walk(g) if isinstance(n, ast.Call) and isinstance(n.func, ast.Attribute)
                 and n.func.attr in ("search", "match", "fullmatch", "findall", "finditer")]
        if len(calls) != 1 or len(calls[0].args) != 1 or ast.unparse(calls[0].args[0]) != "path_str":
            raise Unsupported(f"{name}: regex call")
        methods.append(calls[0].func.attr)
    g = _method(rel, "PatternMatcher", "match_allow_patterns")
    b = _body(g)
    if len(b) != 1 or not isinstance(b[0], ast.Return) or not (isinstance(b[0].value, ast.Call) and ast.unparse(b[0].value.func) == "any"):
        raise Unsupported("match_allow_patterns is not `return any(...)`")
    gen = b[0].value.args[0] if len(b[0].value.args) == 1 else None
    if not (isinstance(gen, ast.GeneratorExp) and len(gen.generators) == 1 and not gen.generators[0].ifs
            and ast.unparse(gen.generators[0].iter) == "allow_patterns" and isinstance(gen.generators[0].target, ast.Name)):
        raise Unsupported("match_allow_patterns: generator over allow_patterns")
    var = gen.generators[0].target.id
    gc = [n for n in ast.walk(gen.elt) if isinstance(n, ast.Call) and ast.unparse(n.func) == "self._get_compiled"]
    if len(gc) != 1 or len(gc[0].args) != 1:
        raise Unsupported("match_allow_patterns: _get_compiled call")
    marg = ast.unparse(gc[0].args[0])
    if marg == var:
        m_extracted = False
    elif marg == f"{var} if isinstance({var}, str) else {var}['pattern']":
        m_extracted = True
    else:
        raise Unsupported("match_allow_patterns: pattern expression " + marg[:60])
    va = _method(D + "pattern_validator.py", "PatternValidator", "_validate_allow_patterns")
    vb = [ast.unparse(x) for x in _body(va)]
    if vb == ["with suppress(KeyError):\n    for pattern in rules['allow']:\n        self._validate_pattern(pattern)"]:
        v_extracted = False
    elif vb == ["with suppress(KeyError):\n    for allow_item in rules['allow']:\n        self._validate_pattern(_extract_pattern(allow_item))"]:
        v_extracted = True
    else:
        raise Unsupported("_validate_allow_patterns: shape")
    if m_extracted != v_extracted:
        raise Unsupported("allow items are unwrapped in only one of validator / matcher")
    v = _method(D + "pattern_validator.py", "PatternValidator", "_validate_pattern")
    vc = [n for n in ast.walk(v) if isinstance(n, ast.Call) and ast.unparse(n.func) == "re.compile"]
    if len(vc) != 1 or len(vc[0].args) != 1 or vc[0].keywords or ast.unparse(vc[0].args[0]) != "pattern":
        raise Unsupported("_validate_pattern: re.compile(pattern)")
    handlers = [h for n in ast.walk(v) if isinstance(n, ast.Try) for h in n.handlers]
    if len(handlers) != 1 or ast.unparse(handlers[0].type) != "re.error":
        raise Unsupported("_validate_pattern: except re.error")
    raises = [n for n in ast.walk(handlers[0]) if isinstance(n, ast.Raise)]
    if len(raises) != 1 or not (isinstance(raises[0].exc, ast.Call) and ast.unparse(raises[0].exc.func) == "ValueError" and len(raises[0].exc.args) == 1):
        raise Unsupported("_validate_pattern: raise ValueError(f'...')")
    msg = _fparts(raises[0].exc.args[0], {"pattern": "FPattern", "e": "FErr"}, "invalid pattern message")
    return (defn("fp_allow_dict_supported", "bool", "true" if m_extracted else "false")
            + defn("fp_match_flags", "list string", coq_str_list(flags))
            + defn("fp_match_methods", "list string", coq_str_list(methods))
            + defn("fp_invalid_exc", "string", coq_string("ValueError"))
            + defn("fp_invalid_msg", "list fpart", msg))


# ---------------------------------------------------------------- directory_matcher.py
def matcher():
    rel = D + "directory_matcher.py"
    f = _method(rel, "DirectoryMatcher", "find_matching_rule")
    inits = {st.targets[0].id: st.value for st in _body(f) if isinstance(st, ast.Assign) and isinstance(st.targets[0], ast.Name)}
    if set(inits) != {"best_match", "best_path", "best_depth"}:
        raise Unsupported("find_matching_rule: initialisations")
    init = const_value(inits["best_depth"])
    if not isinstance(init, int):
        raise Unsupported("best_depth init")
    loops = [st for st in _body(f) if isinstance(st, ast.For)]
    if len(loops) != 1 or ast.unparse(loops[0].iter) != "directories.items()" or len(loops[0].body) != 2:
        raise Unsupported("find_matching_rule: loop")
    call, cond = loops[0].body
    if ast.unparse(call) != "(matches, depth) = self._check_path_match(dir_path, path_str)" and \
            ast.unparse(call) != "matches, depth = self._check_path_match(dir_path, path_str)":
        raise Unsupported("find_matching_rule: call of _check_path_match")
    if not (isinstance(cond, ast.If) and not cond.orelse and isinstance(cond.test, ast.BoolOp) and isinstance(cond.test.op, ast.And)
            and len(cond.test.values) == 2 and ast.unparse(cond.test.values[0]) == "matches"):
        raise Unsupported("find_matching_rule: condition")
    c = cond.test.values[1]
    if not (isinstance(c, ast.Compare) and ast.unparse(c.left) == "depth" and ast.unparse(c.comparators[0]) == "best_depth"):
        raise Unsupported("find_matching_rule: depth comparison")
    upd = sorted(ast.unparse(s) for s in cond.body)
    if upd != ["best_depth = depth", "best_match = rules", "best_path = dir_path"]:
        raise Unsupported("find_matching_rule: update")
    rets = [st for st in _body(f) if isinstance(st, ast.Return)]
    if len(rets) != 1 or ast.unparse(rets[0].value) != "(best_match, best_path)":
        raise Unsupported("find_matching_rule: return")
    # _check_path_match
    g = _method(rel, "DirectoryMatcher", "_check_path_match")
    b = _body(g)
    if len(b) != 3 or not isinstance(b[0], ast.If) or not isinstance(b[1], ast.If) or not isinstance(b[2], ast.Return):
        raise Unsupported("_check_path_match: shape")
    t0 = b[0].test
    if not (isinstance(t0, ast.Compare) and isinstance(t0.ops[0], ast.Eq) and ast.unparse(t0.left) == "dir_path"):
        raise Unsupported("_check_path_match: root test")
    root1 = _str(t0.comparators[0], "root key")
    if ast.unparse(b[0].body[0]) != "return self._check_root_match(dir_path, path_str)" or b[0].orelse:
        raise Unsupported("_check_path_match: root branch")
    t1 = b[1].test
    if not (isinstance(t1, ast.Call) and isinstance(t1.func, ast.Attribute) and ast.unparse(t1.func.value) == "path_str"
            and len(t1.args) == 1 and not t1.keywords):
        raise Unsupported("_check_path_match: prefix test")
    method = t1.func.attr
    parg = t1.args[0]
    if ast.unparse(parg) == "dir_path":          # bare string prefix
        prefix_form = "PfBare"
    elif (isinstance(parg, ast.BinOp) and isinstance(parg.op, ast.Add) and isinstance(parg.left, ast.Call)
          and ast.unparse(parg.left.func) == "dir_path.rstrip" and len(parg.left.args) == 1 and not parg.left.keywords):
        strip = _str(parg.left.args[0], "rstrip argument")     # dir_path.rstrip(c) + sep
        psep = _str(parg.right, "prefix separator")
        if len(strip) != 1 or not (32 <= ord(strip) < 127) or strip == '"':
            raise Unsupported("rstrip argument is not a single printable character")
        prefix_form = f'PfRstripSep "{strip}"%char {coq_string(psep)}'
    else:
        raise Unsupported("_check_path_match: prefix test argument " + ast.unparse(parg)[:60])
    body1 = [ast.unparse(s) for s in b[1].body]
    if len(body1) != 2 or body1[1] not in ("return (True, depth)",) or b[1].orelse:
        raise Unsupported("_check_path_match: prefix branch")
    dep = b[1].body[0]
    if not (isinstance(dep, ast.Assign) and ast.unparse(dep.targets[0]) == "depth" and isinstance(dep.value, ast.Call)
            and ast.unparse(dep.value.func) == "len" and len(dep.value.args) == 1):
        raise Unsupported("_check_path_match: depth")
    sp = dep.value.args[0]
    if not (isinstance(sp, ast.Call) and ast.unparse(sp.func) == "dir_path.split" and len(sp.args) == 1 and not sp.keywords):
        raise Unsupported("_check_path_match: split")
    sep = _str(sp.args[0], "split separator")
    if len(sep) != 1 or not (32 <= ord(sep) < 127) or sep == '"':
        raise Unsupported("split separator is not a single printable character")
    if ast.unparse(b[2].value) != "(False, -1)":
        raise Unsupported("_check_path_match: no-match return")
    # _check_root_match
    h = _method(rel, "DirectoryMatcher", "_check_root_match")
    hb = _body(h)
    if len(hb) != 2 or not isinstance(hb[0], ast.If) or hb[0].orelse or ast.unparse(hb[1]) != "return (False, -1)":
        raise Unsupported("_check_root_match: shape")
    t = hb[0].test
    if not (isinstance(t, ast.BoolOp) and isinstance(t.op, ast.And) and len(t.values) == 2):
        raise Unsupported("_check_root_match: test")
    a, bb = t.values
    if not (isinstance(a, ast.Compare) and isinstance(a.ops[0], ast.Eq) and ast.unparse(a.left) == "dir_path"):
        raise Unsupported("_check_root_match: key test")
    root2 = _str(a.comparators[0], "root key 2")
    if not (isinstance(bb, ast.Compare) and isinstance(bb.ops[0], ast.NotIn) and ast.unparse(bb.comparators[0]) == "path_str"):
        raise Unsupported("_check_root_match: `sep not in path_str`")
    notin = _str(bb.left, "root separator")
    r = hb[0].body[0]
    if not (isinstance(r, ast.Return) and isinstance(r.value, ast.Tuple) and ast.unparse(r.value.elts[0]) == "True"):
        raise Unsupported("_check_root_match: return")
    rdepth = const_value(r.value.elts[1])
    if not isinstance(rdepth, int):
        raise Unsupported("root depth")
    return (defn("fp_best_init", "Z", f"({init})%Z") + defn("fp_best_cmp", "cmp", cmp_op(c))
            + defn("fp_root_key", "string", coq_string(root1)) + defn("fp_root_key2", "string", coq_string(root2))
            + defn("fp_root_notin", "string", coq_string(notin)) + defn("fp_root_depth", "Z", f"({rdepth})%Z")
            + defn("fp_prefix_method", "string", coq_string(method))
            + defn("fp_prefix_form", "prefix_form", prefix_form)
            + defn("fp_split_sep", "ascii", f'"{sep}"%char'))


# ---------------------------------------------------------------- rule_checker.py
def _subscript_keys(scope, base):
    """string keys K of every `<base>["K"]` in source order"""
    out = []
    for n in ast.walk(scope):
        if isinstance(n, ast.Subscript) and ast.unparse(n.value) == base and isinstance(n.slice, ast.Constant) and isinstance(n.slice.value, str):
            out.append((n.lineno, n.col_offset, n.slice.value))
    return [k for _, _, k in sorted(out)]


def checker():
    rel = D + "rule_checker.py"
    f = _method(rel, "RuleChecker", "check_all_rules")
    b = _body(f)
    withs = [st for st in b if isinstance(st, ast.With)]
    if len(withs) != 3 or not isinstance(b[-1], ast.Return) or ast.unparse(b[-1].value) != "violations":
        raise Unsupported("check_all_rules: three suppress blocks + return violations")
    keys, callees = [], []
    for w in withs:
        if ast.unparse(w.items[0].context_expr) != "suppress(KeyError)" or len(w.body) != 2:
            raise Unsupported("check_all_rules: block shape")
        ks = _subscript_keys(w, "fp_config")
        calls = [n for n in ast.walk(w.body[0]) if isinstance(n, ast.Call) and isinstance(n.func, ast.Attribute) and n.func.attr.startswith("_check_")]
        if len(ks) != 1 or len(calls) != 1 or not ast.unparse(w.body[1]).startswith("violations.extend("):
            raise Unsupported("check_all_rules: block contents")
        a = [ast.unparse(x) for x in calls[0].args]
        if a[:2] != ["path_str", "rel_path"] or a[2] != f"fp_config['{ks[0]}']":
            raise Unsupported("check_all_rules: call arguments")
        keys.append(ks[0])
        callees.append(calls[0].func.attr)
    # _check_directory_rules: deny first, then allow
    g = _method(rel, "RuleChecker", "_check_directory_rules")
    order = []
    for n in sorted((n for n in ast.walk(g) if isinstance(n, ast.Call) and isinstance(n.func, ast.Attribute)
                     and n.func.attr in ("_check_directory_deny_rules", "_check_directory_allow_rules")), key=lambda n: n.lineno):
        order.append("deny" if "deny" in n.func.attr else "allow")
    gb = [ast.unparse(s) for s in _body(g)]
    if len(order) != 2 or gb[-1] != "return self._wrap_violation(allow_violation)" and gb[-1] != "return self._wrap_violation(deny_violation)":
        raise Unsupported("_check_directory_rules: two checks")
    if gb[1] != "if not dir_rule or not matched_path:\n    return []":
        raise Unsupported("_check_directory_rules: guard")
    dk = _subscript_keys(_method(rel, "RuleChecker", "_check_directory_deny_rules"), "ctx.dir_rule")
    ak = _subscript_keys(_method(rel, "RuleChecker", "_check_directory_allow_rules"), "ctx.dir_rule")
    if len(dk) != 1 or len(ak) != 1:
        raise Unsupported("directory deny/allow keys")
    for fn, key in (("_check_directory_deny_rules", dk[0]), ("_check_directory_allow_rules", ak[0])):
        m = _method(rel, "RuleChecker", fn)
        first = _body(m)[0]
        if ast.unparse(first) != f"if '{key}' not in ctx.dir_rule:\n    return None":
            raise Unsupported(f"{fn}: presence test")
    allow_m = _method(rel, "RuleChecker", "_check_directory_allow_rules")
    if "if not is_allowed:" not in ast.unparse(allow_m):
        raise Unsupported("_check_directory_allow_rules: `if not is_allowed`")
    # _check_global_patterns: deny first, then allow
    h = _method(rel, "RuleChecker", "_check_global_patterns")
    gk = _subscript_keys(h, "global_patterns")
    tries = [st for st in _body(h) if isinstance(st, ast.Try)]
    if len(tries) != 2 or len(gk) != 2:
        raise Unsupported("_check_global_patterns: two try blocks")
    src = ast.unparse(h)
    if "if not is_allowed:" not in src or "if is_denied:" not in src:
        raise Unsupported("_check_global_patterns: tests")
    kinds = []
    for t in tries:
        calls = [n.func.attr for n in ast.walk(t) if isinstance(n, ast.Call) and isinstance(n.func, ast.Attribute)
                 and n.func.attr in ("match_deny_patterns", "match_allow_patterns")]
        if len(calls) != 1:
            raise Unsupported("_check_global_patterns: matcher call")
        kinds.append("deny" if "deny" in calls[0] else "allow")
    gd = _method(rel, "RuleChecker", "_check_global_deny")
    if "if is_denied:" not in ast.unparse(gd):
        raise Unsupported("_check_global_deny")
    # which of the two strings goes where: keys and patterns are tested against path_str, reports carry rel_path
    cls = find_class(parse(rel), "RuleChecker")
    seen = {"match": 0, "find": 0, "create": 0}
    for n in ast.walk(cls):
        if not (isinstance(n, ast.Call) and isinstance(n.func, ast.Attribute)):
            continue
        a0 = ast.unparse(n.args[0]) if n.args else None
        if n.func.attr in ("match_deny_patterns", "match_allow_patterns"):
            seen["match"] += 1
            if a0 not in ("path_str", "ctx.path_str"):
                raise Unsupported(f"{n.func.attr} is not applied to path_str but to {a0}")
        elif n.func.attr == "find_matching_rule":
            seen["find"] += 1
            if a0 != "path_str":
                raise Unsupported(f"find_matching_rule is not applied to path_str but to {a0}")
        elif n.func.attr.startswith("create_") and n.func.attr.endswith("_violation"):
            seen["create"] += 1
            if a0 not in ("rel_path", "ctx.rel_path"):
                raise Unsupported(f"{n.func.attr} is not given rel_path but {a0}")
    if seen != {"match": 5, "find": 1, "create": 5}:
        raise Unsupported(f"RuleChecker: matcher / directory search / factory calls {seen}")
    ctxs = [n for n in ast.walk(cls) if isinstance(n, ast.Call) and ast.unparse(n.func) == "RuleCheckContext"]
    if len(ctxs) != 1 or {k.arg: ast.unparse(k.value) for k in ctxs[0].keywords if k.arg in ("path_str", "rel_path")} != {
            "path_str": "path_str", "rel_path": "rel_path"}:
        raise Unsupported("RuleCheckContext(path_str=path_str, rel_path=rel_path, ...)")
    return (defn("fp_checker_keys", "list string", coq_str_list(keys))
            + defn("fp_checker_callees", "list string", coq_str_list(callees))
            + defn("fp_dir_check_order", "list string", coq_str_list(order))
            + defn("fp_dir_keys", "list string", coq_str_list([dk[0], ak[0]]))
            + defn("fp_gpat_check_order", "list string", coq_str_list(kinds))
            + defn("fp_gpat_keys", "list string", coq_str_list(gk)))


# ---------------------------------------------------------------- pattern_validator.py
def validator():
    rel = D + "pattern_validator.py"
    f = _method(rel, "PatternValidator", "validate_config")
    order = []
    for st in _body(f):
        s = ast.unparse(st)
        if not (s.startswith("self._validate_") and s.endswith("(config)")):
            raise Unsupported("validate_config: statement " + s[:50])
        order.append(s[len("self."):-len("(config)")])
    names = {"_validate_directory_patterns": "directories", "_validate_global_patterns": "global_patterns",
             "_validate_global_deny_patterns": "global_deny"}
    if any(o not in names for o in order) or len(set(order)) != len(order):
        raise Unsupported("validate_config: validators called")
    # keys used by each validator
    kd = _subscript_keys(_method(rel, "PatternValidator", "_validate_directory_patterns"), "fp_config")
    kg = _subscript_keys(_method(rel, "PatternValidator", "_validate_global_patterns"), "fp_config")
    kgd = _subscript_keys(_method(rel, "PatternValidator", "_validate_global_deny_patterns"), "fp_config")
    if kd != ["directories"] or set(kg) != {"global_patterns"} or kgd != ["global_deny"]:
        raise Unsupported(f"validator keys {kd} {kg} {kgd}")

    def sub_order(fn):
        g = _method(rel, "PatternValidator", fn)
        o = []
        for n in sorted((n for n in ast.walk(g) if isinstance(n, ast.Call) and isinstance(n.func, ast.Attribute)
                         and n.func.attr in ("_validate_allow_patterns", "_validate_deny_patterns")), key=lambda n: n.lineno):
            o.append("allow" if "allow" in n.func.attr else "deny")
        if sorted(o) != ["allow", "deny"]:
            raise Unsupported(f"{fn}: allow/deny validation calls")
        return o
    ka = _subscript_keys(_method(rel, "PatternValidator", "_validate_allow_patterns"), "rules")
    kdn = _subscript_keys(_method(rel, "PatternValidator", "_validate_deny_patterns"), "rules")
    if ka != ["allow"] or kdn != ["deny"]:
        raise Unsupported("allow/deny keys in validator")
    ep = find_func(parse(rel), "_extract_pattern")
    eb = [ast.unparse(s) for s in _body(ep)]
    if eb != ["if isinstance(deny_item, str):\n    return deny_item", "return deny_item.get('pattern', '')"]:
        raise Unsupported("_extract_pattern")
    return (defn("fp_validate_order", "list string", coq_str_list([names[o] for o in order]))
            + defn("fp_vdir_order", "list string", coq_str_list(sub_order("_validate_directory_patterns")))
            + defn("fp_vgpat_order", "list string", coq_str_list(sub_order("_validate_global_patterns"))))


# ---------------------------------------------------------------- path_resolver.py
def resolver():
    rel = D + "path_resolver.py"
    f = _method(rel, "PathResolver", "normalize_path_string")
    b = _body(f)
    if len(b) != 1 or not isinstance(b[0], ast.Return) or b[0].value is None:
        raise Unsupported("normalize_path_string: a single return expected")
    ops = _norm_chain(b[0].value)
    seps = [o for o in ops if o[0] == "NReplace" and o[1] == "\\"]
    if len(seps) > 1 or any(o[2] != "/" for o in seps):
        raise Unsupported("normalize_path_string: backslash replaced more than once or not by '/'")
    g = _method(rel, "PathResolver", "get_relative_path")
    gb = [ast.unparse(s) for s in _body(g)]
    head = "try:\n    if file_path.is_absolute():\n        return file_path.relative_to(self.project_root)\n    return "
    tail = "\nexcept ValueError:\n    return file_path"
    if gb == [head + "file_path" + tail]:
        resolved = False      # a relative path is used as given (relative to the working directory)
    elif gb == [head + "file_path.resolve().relative_to(self.project_root.resolve())" + tail]:
        resolved = True       # resolved against the working directory, re-expressed relative to the project root
    else:
        raise Unsupported("get_relative_path")
    # the call site: lint_path normalises the root-relative path and hands both to the checker
    lp = [ast.unparse(x) for x in _body(_method(D + "linter.py", "FilePlacementLinter", "lint_path"))]
    if lp != ["rel_path = self._components.path_resolver.get_relative_path(file_path)",
              "path_str = self._components.path_resolver.normalize_path_string(rel_path)",
              "fp_config = self.config",
              "return self._components.rule_checker.check_all_rules(path_str, rel_path, fp_config)"]:
        raise Unsupported("FilePlacementLinter.lint_path")
    return (defn("fp_path_sep", "string", coq_string("/")) + defn("fp_relative_resolved", "bool", "true" if resolved else "false")
            + defn("fp_normalize_ops", "list norm_op", "[" + "; ".join(_coq_norm_op(o) for o in ops) + "]"))


_NORM_METHODS = {"replace": ("NReplace", 2), "lstrip": ("NLstrip", 1), "rstrip": ("NRstrip", 1), "strip": ("NStrip", 1),
                 "lower": ("NLower", 0), "removeprefix": ("NRemovePrefix", 1)}


def _norm_chain(e):
    """`str(path)` followed by string methods with constant arguments, innermost first: [(op, args...)]"""
    if ast.unparse(e) == "path.as_posix()":     # only the platform's own separator is converted: nothing on POSIX
        return []
    if isinstance(e, ast.Call) and isinstance(e.func, ast.Name) and e.func.id == "str":
        if len(e.args) != 1 or e.keywords or ast.unparse(e.args[0]) != "path":
            raise Unsupported("normalize_path_string: str(path)")
        return []
    if not (isinstance(e, ast.Call) and isinstance(e.func, ast.Attribute) and not e.keywords):
        raise Unsupported("normalize_path_string: not a chain of string methods over str(path): " + ast.unparse(e)[:60])
    if e.func.attr not in _NORM_METHODS:
        raise Unsupported("normalize_path_string: string method " + e.func.attr)
    op, arity = _NORM_METHODS[e.func.attr]
    if len(e.args) != arity:
        raise Unsupported(f"normalize_path_string: {e.func.attr} with {len(e.args)} arguments")
    args = [_str(a, "normalize_path_string argument") for a in e.args]
    if any('"' in a or any(not 32 <= ord(c) < 127 for c in a) for a in args) or (args and args[0] == ""):
        raise Unsupported("normalize_path_string: argument is empty or not printable ASCII")
    return _norm_chain(e.func.value) + [(op, *args)]


def _coq_norm_op(o):
    return o[0] if len(o) == 1 else "(" + o[0] + " " + " ".join(coq_string(a) for a in o[1:]) + ")"


# ---------------------------------------------------------------- where the rule set comes from
def source():
    """FilePlacementRule._extract_inline_config/_get_wrapped_config/_get_unwrapped_config/_get_or_create_linter/_get_layout_path/
    _load_layout_config, FilePlacementLinter._unwrap_config, cli/linters/structure.py::_apply_*, config_parser._normalize_config_keys:
    exact statement shapes, with the key names, file names and the dict method as the extracted constants"""
    rel = D + "linter.py"
    rule = find_class(parse(rel), "FilePlacementRule")

    def stmts(scope, name):
        return [ast.unparse(x) for x in _body(find_func(scope, name))]
    w = stmts(rule, "_get_wrapped_config")
    wk = _subscript_keys(find_func(rule, "_get_wrapped_config"), "context.metadata")
    if len(wk) != 2 or w != ["if not hasattr(context, 'metadata'):\n    return None"] + \
            [f"with suppress(KeyError):\n    return context.metadata['{k}']" for k in wk] + ["return None"]:
        raise Unsupported("_get_wrapped_config")
    u = stmts(rule, "_get_unwrapped_config")
    fu = find_func(rule, "_get_unwrapped_config")
    sets = [n for n in ast.walk(fu) if isinstance(n, ast.Set)]
    if len(sets) != 1:
        raise Unsupported("_get_unwrapped_config: config_keys")
    uk = sorted(_str(e, "config key") for e in sets[0].elts)
    if u[0] != "if not hasattr(context, 'metadata'):\n    return None" or not u[1].startswith("config_keys = {") or u[2:] != [
            "matching_keys = {k: v for k, v in context.metadata.items() if k in config_keys}",
            "return matching_keys if matching_keys else None"]:
        raise Unsupported("_get_unwrapped_config")
    if stmts(rule, "_extract_inline_config") != [
            "if not self._has_valid_metadata(context):\n    return None", "if context is None:\n    return None",
            "wrapped_config = self._get_wrapped_config(context)", "if wrapped_config is not None:\n    return wrapped_config",
            "return self._get_unwrapped_config(context)"]:
        raise Unsupported("_extract_inline_config")
    if stmts(rule, "_get_or_create_linter") != [
            "with suppress(KeyError):\n    return self._linter_cache[project_root]",
            "config_from_metadata = self._extract_inline_config(context) if context else None",
            "if config_from_metadata:\n    linter = FilePlacementLinter(config_obj=config_from_metadata, project_root=project_root)\n"
            "else:\n    layout_path = self._get_layout_path(project_root)\n    layout_config = self._load_layout_config(layout_path)\n"
            "    linter = FilePlacementLinter(config_obj=layout_config, project_root=project_root)",
            "self._linter_cache[project_root] = linter", "return linter"]:
        raise Unsupported("_get_or_create_linter")
    ll = find_func(rule, "_load_layout_config")
    lk = _subscript_keys(ll, "config")
    if len(lk) != 2 or stmts(rule, "_load_layout_config") != [
            "try:\n    config = self._parse_layout_file(layout_path)\n" +
            "".join(f"    with suppress(KeyError):\n        return config['{k}']\n" for k in lk) +
            "    return config\nexcept Exception:\n    return {}"]:
        raise Unsupported("_load_layout_config")
    lp = find_func(rule, "_get_layout_path")
    names = [n.right.value for n in ast.walk(lp) if isinstance(n, ast.BinOp) and isinstance(n.op, ast.Div)
             and ast.unparse(n.left) == "project_root" and isinstance(n.right, ast.Constant) and isinstance(n.right.value, str)]
    if len(names) != 2 or stmts(rule, "_get_layout_path") != [
            "layout_file = self.config.get('layout_file')", "if layout_file:\n    return project_root / layout_file",
            f"thailint_yaml = project_root / '{names[0]}'", f"thailint_json = project_root / '{names[1]}'",
            "for path in [thailint_yaml, thailint_json]:\n    if path.exists():\n        return path", "return thailint_yaml"]:
        raise Unsupported("_get_layout_path")
    lint = find_class(parse(rel), "FilePlacementLinter")
    uw = stmts(lint, "_unwrap_config")
    calls = [n for n in ast.walk(find_func(lint, "_unwrap_config")) if isinstance(n, ast.Call)]
    uwk = [_str(c.args[0], "unwrap key") for c in sorted(calls, key=lambda c: c.col_offset)]
    if len(uwk) != 2 or uw != [f"return config.get('{uwk[0]}', config.get('{uwk[1]}', config))"]:
        raise Unsupported("_unwrap_config")
    init = ast.unparse(find_func(lint, "__init__"))
    if "if config_obj:\n        self.config = self._unwrap_config(config_obj)" not in init or "self._components.pattern_validator.validate_config(self.config)" not in init:
        raise Unsupported("FilePlacementLinter.__init__")
    # CLI: --rules is merged into the orchestrator's (auto-loaded) config
    st = parse("src/cli/linters/structure.py")
    if stmts(st, "_apply_orchestrator_config") != [
            "if rules:\n    _apply_inline_rules(orchestrator, rules, verbose)\nelif config_file:\n    load_config_file(orchestrator, config_file, verbose)"]:
        raise Unsupported("_apply_orchestrator_config")
    ai = stmts(st, "_apply_inline_rules")
    if len(ai) != 3 or ai[0] != "rules_config = _parse_json_rules(rules)" or not ai[1].startswith("orchestrator.config.") or not ai[1].endswith("(rules_config)"):
        raise Unsupported("_apply_inline_rules")
    method = ai[1][len("orchestrator.config."):-len("(rules_config)")]
    so = stmts(st, "_setup_orchestrator")
    if so[-3:] != ["orchestrator = Orchestrator(project_root=project_root)", "_apply_orchestrator_config(orchestrator, config_file, rules, verbose)", "return orchestrator"]:
        raise Unsupported("_setup_orchestrator")
    nk = find_func(parse("src/core/config_parser.py"), "_normalize_config_keys")
    reps = [n for n in ast.walk(nk) if isinstance(n, ast.Call) and ast.unparse(n.func) == "key.replace"]
    if len(reps) != 1 or len(reps[0].args) != 2:
        raise Unsupported("_normalize_config_keys")
    a, b = _str(reps[0].args[0], "from"), _str(reps[0].args[1], "to")
    if len(a) != 1 or len(b) != 1 or not all(32 <= ord(c) < 127 and c != '"' for c in a + b):
        raise Unsupported("_normalize_config_keys: single characters expected")
    return (defn("fp_wrapped_keys", "list string", coq_str_list(wk)) + defn("fp_unwrapped_keys", "list string", coq_str_list(uk))
            + defn("fp_layout_keys", "list string", coq_str_list(lk)) + defn("fp_unwrap_keys", "list string", coq_str_list(uwk))
            + defn("fp_layout_files", "list string", coq_str_list(names)) + defn("fp_rules_merge_method", "string", coq_string(method))
            + defn("fp_norm_from", "ascii", f'"{a}"%char') + defn("fp_norm_to", "ascii", f'"{b}"%char'))


ITEMS = [
    ("messages", messages),
    ("reasons", reasons),
    ("regex_entry", regex_entry),
    ("matcher", matcher),
    ("checker", checker),
    ("validator", validator),
    ("resolver", resolver),
    ("source", source),
]
