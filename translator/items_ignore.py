"""Generated layer for the suppression / ignore-directive machinery (C04).

Everything the ignore model depends on that is a literal in the source is read here: marker needles,
regex pattern texts and flags (checked against the two templates the hand-written matchers in
Model/PyStr.v implement), comparison operators and offsets of the line arithmetic, the header window,
the alias table, the registry of rule ids, and which linter packages reference the shared parser.
The *shape* of each small hand-modelled function (its AST with literals and ordering comparisons
abstracted) is compared with the shape the model was written for: a structural edit fails closed.
"""
import ast
import copy
import re

from translator.lib import (CMP, Unsupported, REPO, coq_str_list, coq_string, defn, dict_str_str, find_assign, find_class,
                            find_func, parse)

GEN_FILE = "IgnoreGen"
HEADER = "From TL Require Import Lib.Base Lib.GenTypes."
SERVES = ["C04"]
IGN = "src/linter_config/ignore.py"
MRK = "src/linter_config/directive_markers.py"
RM = "src/linter_config/rule_matcher.py"
FINGERPRINTS = [
    (IGN, ["should_ignore_violation", "_is_ignored_at_file_level", "has_file_ignore", "_read_file_first_lines", "_check_line_for_ignore",
           "_check_specific_rule_ignore", "_check_specific_rule_in_line", "_has_file_ignore_in_content", "_is_ignored_in_content",
           "_check_block_ignore", "_BlockState", "_is_valid_line_range", "_process_block_line", "_handle_block_end",
           "_parse_ignore_start_rules", "_check_prev_line_ignore", "_get_prev_line", "_matches_ignore_next_line_rules",
           "_check_current_line_ignore"]),
    (MRK, ["has_ignore_directive_marker", "has_line_ignore_marker", "has_ignore_next_line_marker", "has_ignore_start_marker",
           "has_ignore_end_marker", "check_general_ignore"]),
    (RM, ["rule_matches", "_matches_pattern_directly", "_matches_via_alias", "_pattern_matches_deprecated_id", "check_bracket_rules",
          "check_space_separated_rules", "rules_match_violation"]),
    ("src/core/violation_utils.py", ["get_violation_line", "has_python_noqa", "has_typescript_noqa"]),
    ("src/linters/magic_numbers/linter.py", ["_should_ignore", "_check_generic_ignore", "_has_generic_ignore_directive", "_has_generic_thailint_ignore", "_should_ignore_typescript"]),
    ("src/linters/magic_numbers/typescript_ignore_checker.py", ["TypeScriptIgnoreChecker"]),
    ("src/linters/print_statements/linter.py", ["_should_ignore", "_check_generic_ignore", "_has_generic_ignore_directive", "_has_generic_thailint_ignore",
                                                "_should_ignore_typescript", "_check_typescript_ignore", "_has_typescript_ignore_directive"]),
    ("src/linters/method_property/linter.py", ["_should_ignore", "_has_inline_ignore"]),
    ("src/linters/collection_pipeline/linter.py", ["check", "_should_ignore_violation", "_get_line_text", "_rule_matches"]),
    ("src/linters/stateless_class/linter.py", ["check", "_should_ignore_violation", "_get_line_text", "_rule_matches"]),
    ("src/linters/file_header/linter.py", ["check", "_check_language_header", "_check_header_with_parser", "_check_markdown_header", "_has_file_ignore",
                                           "_has_standard_ignore", "_line_has_matching_ignore", "_has_custom_ignore_syntax", "_is_ignore_line",
                                           "_build_missing_header_violations", "_filter_ignored_violations", "_has_line_level_ignore"]),
    ("src/linters/dry/violation_generator.py", ["generate_violations", "_filter_shared_ignored"]),
    ("src/linters/dry/linter.py", ["_filter_ignored_violations"]),
    ("src/linters/stringly_typed/ignore_checker.py", ["IgnoreChecker"]),
]


# ---------------------------------------------------------------- shapes
class _Abstract(ast.NodeTransformer):
    """replace literals and ordering comparisons by placeholders, collecting them in source order"""

    def __init__(self):
        self.strs, self.ints, self.cmps = [], [], []

    def visit_Constant(self, node):
        if isinstance(node.value, str):
            self.strs.append(node.value)
            return ast.copy_location(ast.Constant(value="S"), node)
        if isinstance(node.value, bool) or node.value is None:
            return node
        if isinstance(node.value, int):
            self.ints.append(node.value)
            return ast.copy_location(ast.Constant(value=0), node)
        return node

    def visit_Compare(self, node):
        self.generic_visit(node)
        ops = []
        for op in node.ops:
            if type(op) in (ast.Lt, ast.LtE, ast.Gt, ast.GtE):
                self.cmps.append(CMP[type(op)])
                ops.append(ast.Lt())
            else:
                ops.append(op)
        node.ops = ops
        return node


def shape(fn: ast.AST):
    """(normalised source text, string literals, int literals, ordering comparisons) of a function, docstring dropped"""
    fn = copy.deepcopy(fn)
    b = fn.body
    if b and isinstance(b[0], ast.Expr) and isinstance(b[0].value, ast.Constant) and isinstance(b[0].value.value, str):
        fn.body = b[1:] or [ast.Pass()]
    fn.returns = None
    for a in fn.args.args + fn.args.kwonlyargs:
        a.annotation = None
    fn.decorator_list = []
    tr = _Abstract()
    fn = tr.visit(fn)
    ast.fix_missing_locations(fn)
    return ast.unparse(fn), tr.strs, tr.ints, tr.cmps


def _norm(template: str) -> str:
    """templates are written as source text; normalise them with the running interpreter's unparser"""
    return ast.unparse(ast.parse(template))


def _fn(rel, name, cls=None):
    mod = parse(rel)
    return find_func(find_class(mod, cls) if cls else mod, name)


def expect_shape(rel, name, expected, cls=None):
    text, strs, ints, cmps = shape(_fn(rel, name, cls))
    if text != _norm(expected):
        raise Unsupported(f"{rel}::{name} no longer has the shape the model was written for:\n{text}")
    return strs, ints, cmps


# ---------------------------------------------------------------- markers
SH_MARK_LOWER2 = "def {n}(line):\n    line_lower = line.lower()\n    return 'S' in line_lower or 'S' in line_lower"
SH_MARK_LOWER4 = ("def has_line_ignore_marker(code):\n    code_lower = code.lower()\n    return 'S' in code_lower or 'S' in code_lower "
                  "or 'S' in code_lower or ('S' in code_lower)")
SH_MARK_RAW2 = "def {n}(line):\n    return 'S' in line or 'S' in line"
SH_BLOCK = ("def {n}(line):\n    stripped = line.strip().lower()\n    if not (stripped.startswith('S') or stripped.startswith('S')):\n"
            "        return False\n    return 'S' in stripped and ('S' in stripped or 'S' in stripped)")


def _marker_item(fname, coqname):
    """needles + whether they are sought in the lowered line; accepts the lowered and the raw variant with 2..4 needles"""
    f = _fn(MRK, fname)
    text, strs, _, _ = shape(f)
    arg = f.args.args[0].arg
    m = re.fullmatch(r"def \w+\(" + arg + r"\):\n(?:    (\w+) = " + arg + r"\.lower\(\)\n)?    return (.*)", text)
    if not m:
        raise Unsupported(f"{fname}: unexpected shape\n{text}")
    var = m.group(1) or arg
    terms = [t.strip().strip("()") for t in m.group(2).split(" or ")]
    if not terms or any(t != f"'S' in {var}" for t in terms) or len(terms) != len(strs):
        raise Unsupported(f"{fname}: unexpected disjunction {m.group(2)}")
    return (defn(coqname + "_needles", "list string", coq_str_list(strs))
            + defn(coqname + "_lowered", "bool", "true" if m.group(1) else "false"))


def file_markers():
    return _marker_item("has_ignore_directive_marker", "file_marker")


def line_markers():
    return _marker_item("has_line_ignore_marker", "line_marker")


def next_markers():
    return _marker_item("has_ignore_next_line_marker", "next_marker")


def _block_item(fname, coqname):
    strs, _, _ = expect_shape(MRK, fname, SH_BLOCK.format(n=fname))
    return (defn(coqname + "_comment_prefixes", "list string", coq_str_list(strs[0:2]))
            + defn(coqname + "_keyword", "string", coq_string(strs[2]))
            + defn(coqname + "_tags", "list string", coq_str_list(strs[3:5])))


def start_marker():
    return _block_item("has_ignore_start_marker", "start_marker")


def end_marker():
    return _block_item("has_ignore_end_marker", "end_marker")


def general_ignore():
    strs, _, _ = expect_shape(MRK, "check_general_ignore", "def check_general_ignore(line):\n    return 'S' not in line")
    return defn("general_ignore_needle", "string", coq_string(strs[0]))


# ---------------------------------------------------------------- regexes
LIT = r"[A-Za-z][A-Za-z-]*"
BRACKET_TAIL = r"\[([^\]]+)\]"
SPACE_TAIL = r"\s+([^\s#]+(?:\s+[^\s#]+)*)"


def _regex_sites(fname):
    """[(kind, literal, ignorecase)] for every re.search in the function, in source order"""
    out = []
    f = _fn(IGN, fname)
    calls = [n for n in ast.walk(f) if isinstance(n, ast.Call) and isinstance(n.func, ast.Attribute)
             and isinstance(n.func.value, ast.Name) and n.func.value.id == "re" and n.func.attr == "search"]
    calls.sort(key=lambda n: (n.lineno, n.col_offset))
    for c in calls:
        if not (2 <= len(c.args) <= 3) or c.keywords or not isinstance(c.args[0], ast.Constant) or not isinstance(c.args[0].value, str):
            raise Unsupported(f"{fname}: re.search call of unexpected form {ast.unparse(c)}")
        pat = c.args[0].value
        ci = False
        if len(c.args) == 3:
            if ast.unparse(c.args[2]) != "re.IGNORECASE":
                raise Unsupported(f"{fname}: regex flags {ast.unparse(c.args[2])}")
            ci = True
        if pat.endswith(BRACKET_TAIL) and re.fullmatch(LIT, pat[:-len(BRACKET_TAIL)]):
            out.append(("bracket", pat[:-len(BRACKET_TAIL)], ci))
        elif pat.endswith(SPACE_TAIL) and re.fullmatch(LIT, pat[:-len(SPACE_TAIL)]):
            out.append(("space", pat[:-len(SPACE_TAIL)], ci))
        else:
            raise Unsupported(f"{fname}: regex {pat!r} is outside the two templates the matchers implement")
    return out


def _re_def(name, site, kind):
    if site[0] != kind:
        raise Unsupported(f"{name}: expected a {kind} regex, found {site}")
    return defn(name, "string * bool", f"({coq_string(site[1])}, {'true' if site[2] else 'false'})")


SH_SPECIFIC_FILE = ("def _check_specific_rule_ignore(line, rule_id):\n    bracket_match = re.search('S', line, re.IGNORECASE)\n    if bracket_match:\n"
                    "        return check_bracket_rules(bracket_match.group(0), rule_id)\n    space_match = re.search('S', line, re.IGNORECASE)\n"
                    "    if space_match:\n        return check_space_separated_rules(space_match.group(0), rule_id)\n    return False")
SH_SPECIFIC_LINE = ("def _check_specific_rule_in_line(code, rule_id):\n    bracket_match = re.search('S', code, re.IGNORECASE)\n    if bracket_match:\n"
                    "        return check_bracket_rules(bracket_match.group(0), rule_id)\n    space_match = re.search('S', code, re.IGNORECASE)\n"
                    "    if space_match:\n        return check_space_separated_rules(space_match.group(0), rule_id)\n    return 'S' in code.lower()")
SH_START_RULES = ("def _parse_ignore_start_rules(line):\n    match = re.search('S', line)\n    if match:\n        rules_text = match.group(0).strip()\n"
                  "        rules = [r.strip() for r in re.split('S', rules_text) if r.strip()]\n        return set(rules)\n    return {'S'}")
SH_NEXT_RULES = ("def _matches_ignore_next_line_rules(prev_line, rule_id):\n    match = re.search('S', prev_line)\n    if match:\n"
                 "        return check_bracket_rules(match.group(0), rule_id)\n    return True")
SPLIT_RE = r"[,\s]+"


def _shape_mod_flags(fname):
    """shape with the optional `, re.IGNORECASE` argument abstracted away (the flag is emitted as data)"""
    text, strs, ints, cmps = shape(_fn(IGN, fname))
    return text.replace(", re.IGNORECASE)", ")"), strs, ints


def regex_file():
    """two known shapes of the fallback when no rule list follows: `return False` (bare ignore-file does nothing) and
    `return check_general_ignore(line)` (the repaired code); emitted as file_bare_general"""
    text, strs, ints = _shape_mod_flags("_check_specific_rule_ignore")
    old = _norm(SH_SPECIFIC_FILE).replace(", re.IGNORECASE)", ")")
    new = old.replace("    return False", "    return check_general_ignore(line)")
    if text not in (old, new) or old == new or ints != [1, 1]:
        raise Unsupported(f"_check_specific_rule_ignore: unexpected shape\n{text}")
    s = _regex_sites("_check_specific_rule_ignore")
    return (_re_def("re_file_bracket", s[0], "bracket") + _re_def("re_file_space", s[1], "space")
            + defn("file_bare_general", "bool", "true" if text == new else "false"))


SH_LINE_TAIL_NEW = ("    code_lower = code.rstrip().lower()\n    return 'S' in code_lower or code_lower.endswith(('S', 'S'))")


def regex_line():
    """two known shapes of the fallback when no rule list follows: only the `ignore-all` test, or (repaired code) also
    `the right-stripped lowered line ends with one of <suffixes>`; emitted as line_bare_suffixes ([] for the first shape)"""
    text, strs, ints = _shape_mod_flags("_check_specific_rule_in_line")
    old = _norm(SH_SPECIFIC_LINE).replace(", re.IGNORECASE)", ")")
    head = old[: old.index("    return 'S' in code.lower()")]
    new = head + SH_LINE_TAIL_NEW
    if text not in (old, new) or ints != [1, 1]:
        raise Unsupported(f"_check_specific_rule_in_line: unexpected shape\n{text}")
    s = _regex_sites("_check_specific_rule_in_line")
    return (_re_def("re_line_bracket", s[0], "bracket") + _re_def("re_line_space", s[1], "space")
            + defn("ignore_all_needle", "string", coq_string(strs[2]))
            + defn("line_bare_suffixes", "list string", coq_str_list(strs[3:] if text == new else [])))


def regex_start():
    text, strs, ints = _shape_mod_flags("_parse_ignore_start_rules")
    if text != _norm(SH_START_RULES) or ints != [1]:
        raise Unsupported(f"_parse_ignore_start_rules: unexpected shape\n{text}")
    if strs[1] != SPLIT_RE:
        raise Unsupported(f"_parse_ignore_start_rules: split regex {strs[1]!r}")
    s = _regex_sites("_parse_ignore_start_rules")
    return _re_def("re_start_space", s[0], "space") + defn("start_default_rules", "list string", coq_str_list([strs[2]]))


def regex_next():
    text, strs, ints = _shape_mod_flags("_matches_ignore_next_line_rules")
    if text != _norm(SH_NEXT_RULES) or ints != [1]:
        raise Unsupported(f"_matches_ignore_next_line_rules: unexpected shape\n{text}")
    s = _regex_sites("_matches_ignore_next_line_rules")
    return _re_def("re_next_bracket", s[0], "bracket")


# ---------------------------------------------------------------- line arithmetic and control structure
def header_window():
    v = find_assign(parse("src/core/constants.py"), "HEADER_SCAN_LINES")
    if not isinstance(v, ast.Constant) or not isinstance(v.value, int) or isinstance(v.value, bool) or v.value < 0:
        raise Unsupported("HEADER_SCAN_LINES is not a natural-number literal")
    expect_shape(IGN, "_has_file_ignore_in_content",
                 "def _has_file_ignore_in_content(file_content, rule_id):\n    lines = file_content.splitlines()[:HEADER_SCAN_LINES]\n"
                 "    return any((_check_line_for_ignore(line, rule_id) for line in lines))")
    expect_shape(IGN, "_check_line_for_ignore",
                 "def _check_line_for_ignore(line, rule_id):\n    if not has_ignore_directive_marker(line):\n        return False\n    if rule_id:\n"
                 "        return _check_specific_rule_ignore(line, rule_id)\n    return check_general_ignore(line)")
    return defn("header_scan_lines", "nat", str(v.value))


def _cmp_pair(cmps, n, what):
    if len(cmps) != n:
        raise Unsupported(f"{what}: {len(cmps)} ordering comparisons")
    return cmps


def line_arith():
    _, ints, cmps = expect_shape(IGN, "_is_valid_line_range", "def _is_valid_line_range(line, max_lines):\n    return 0 < line < max_lines")
    _cmp_pair(cmps, 2, "_is_valid_line_range")
    out = defn("valid_lo", "nat", str(ints[0])) + defn("valid_lo_cmp", "cmp", cmps[0]) + defn("valid_hi_cmp", "cmp", cmps[1])
    _, ints, cmps = expect_shape(IGN, "_get_prev_line",
                                 "def _get_prev_line(lines, violation_line):\n    if violation_line < 0:\n        return None\n    prev_idx = violation_line - 0\n"
                                 "    if prev_idx < 0 or prev_idx < len(lines):\n        return None\n    return lines[prev_idx]")
    _cmp_pair(cmps, 3, "_get_prev_line")
    if cmps[1:] != ["CLt", "CGe"] or ints[2] != 0 or any(i < 0 for i in ints):
        raise Unsupported(f"_get_prev_line: bounds test {cmps[1:]} {ints}")
    out += defn("prev_min", "nat", str(ints[0])) + defn("prev_min_cmp", "cmp", cmps[0]) + defn("prev_offset", "nat", str(ints[1]))
    _, ints, cmps = expect_shape(IGN, "_check_current_line_ignore",
                                 "def _check_current_line_ignore(lines, violation):\n    if violation.line < 0 or violation.line < len(lines):\n        return False\n"
                                 "    current_line = lines[violation.line - 0]\n    if not has_line_ignore_marker(current_line):\n        return False\n"
                                 "    return _check_specific_rule_in_line(current_line, violation.rule_id) if violation.rule_id else True")
    _cmp_pair(cmps, 2, "_check_current_line_ignore")
    out += (defn("cur_lo", "nat", str(ints[0])) + defn("cur_lo_cmp", "cmp", cmps[0]) + defn("cur_hi_cmp", "cmp", cmps[1])
            + defn("cur_offset", "nat", str(ints[1])))
    return out


def block_structure():
    # two known shapes: the end marker only closes the block (repaired code), or it first suppresses a matching violation
    # located above it (the defect recorded as q_block_end_before); emitted as block_end_cmp : option cmp
    text, _, _, cmps = shape(_fn(IGN, "_handle_block_end"))
    sh_new = _norm("def _handle_block_end(line_num, violation, state):\n    state.in_block = False\n    state.rules = set()\n    return None")
    sh_old = _norm("def _handle_block_end(line_num, violation, state):\n    if state.in_block and line_num < violation.line:\n"
                   "        if rules_match_violation(state.rules, violation.rule_id):\n            return True\n"
                   "    state.in_block = False\n    state.rules = set()\n    return None")
    if text == sh_new and not cmps:
        end_cmp = "None"
    elif text == sh_old and len(cmps) == 1:
        end_cmp = f"(Some {cmps[0]})"
    else:
        raise Unsupported(f"_handle_block_end no longer has a shape the model was written for:\n{text}")
    expect_shape(IGN, "_process_block_line",
                 "def _process_block_line(line, line_num, violation, state):\n    if has_ignore_start_marker(line):\n"
                 "        state.rules = _parse_ignore_start_rules(line)\n        state.in_block = True\n        return None\n"
                 "    if has_ignore_end_marker(line):\n        return _handle_block_end(line_num, violation, state)\n"
                 "    if line_num == violation.line and state.in_block:\n        return rules_match_violation(state.rules, violation.rule_id)\n    return None")
    _, ints, _ = expect_shape(IGN, "_check_block_ignore",
                              "def _check_block_ignore(lines, violation):\n    if not _is_valid_line_range(violation.line, len(lines)):\n        return False\n"
                              "    state = _BlockState()\n    for (i, line) in enumerate(lines, 0):\n        result = _process_block_line(line, i, violation, state)\n"
                              "        if result is not None:\n            return result\n    return False")
    expect_shape(IGN, "_is_ignored_in_content",
                 "def _is_ignored_in_content(file_content, violation):\n    lines = file_content.splitlines()\n    if _check_block_ignore(lines, violation):\n"
                 "        return True\n    if _check_prev_line_ignore(lines, violation):\n        return True\n    return _check_current_line_ignore(lines, violation)")
    expect_shape(IGN, "_check_prev_line_ignore",
                 "def _check_prev_line_ignore(lines, violation):\n    prev_line = _get_prev_line(lines, violation.line)\n    if prev_line is None:\n        return False\n"
                 "    if not has_ignore_next_line_marker(prev_line):\n        return False\n    return _matches_ignore_next_line_rules(prev_line, violation.rule_id)")
    expect_shape(IGN, "should_ignore_violation",
                 "def should_ignore_violation(self, violation, file_content):\n    file_path = Path(violation.file_path)\n"
                 "    if self._is_ignored_at_file_level(file_path, violation.rule_id, file_content):\n        return True\n"
                 "    return _is_ignored_in_content(file_content, violation)", cls="IgnoreDirectiveParser")
    expect_shape(IGN, "_is_ignored_at_file_level",
                 "def _is_ignored_at_file_level(self, file_path, rule_id, file_content):\n    if self.is_ignored(file_path):\n        return True\n"
                 "    if _has_file_ignore_in_content(file_content, rule_id):\n        return True\n    return self.has_file_ignore(file_path, rule_id)",
                 cls="IgnoreDirectiveParser")
    return defn("block_end_cmp", "option cmp", end_cmp) + defn("block_first_line", "nat", str(ints[0]))


# ---------------------------------------------------------------- rule matcher
def rule_matcher():
    s1, i1, _ = expect_shape(RM, "_matches_pattern_directly",
                             "def _matches_pattern_directly(rule_id, pattern):\n    rule_id_lower = rule_id.lower()\n    pattern_lower = pattern.lower()\n"
                             "    if pattern_lower.endswith('S'):\n        prefix = pattern_lower[:-0]\n        return rule_id_lower.startswith(prefix)\n"
                             "    if rule_id_lower == pattern_lower:\n        return True\n    if rule_id_lower.startswith(pattern_lower + 'S'):\n        return True\n    return False")
    if i1 != [1] or len(s1[0]) != 1:
        raise Unsupported("_matches_pattern_directly: wildcard slice")
    s2, i2, _ = expect_shape(RM, "_pattern_matches_deprecated_id",
                             "def _pattern_matches_deprecated_id(pattern_lower, deprecated_id):\n    deprecated_id_lower = deprecated_id.lower()\n"
                             "    if pattern_lower == deprecated_id_lower:\n        return True\n    deprecated_category = deprecated_id.split('S', maxsplit=0)[0].lower()\n"
                             "    if pattern_lower == deprecated_category:\n        return True\n    if pattern_lower == deprecated_category + 'S':\n        return True\n    return False")
    if i2 != [1, 0]:
        raise Unsupported("_pattern_matches_deprecated_id: split arguments")
    expect_shape(RM, "_matches_via_alias",
                 "def _matches_via_alias(rule_id, pattern):\n    pattern_lower = pattern.lower()\n    rule_id_lower = rule_id.lower()\n"
                 "    return any((_pattern_matches_deprecated_id(pattern_lower, deprecated_id) for (deprecated_id, canonical_id) in RULE_ID_ALIASES.items() "
                 "if canonical_id.lower() == rule_id_lower))")
    expect_shape(RM, "rule_matches",
                 "def rule_matches(rule_id, pattern):\n    if _matches_pattern_directly(rule_id, pattern):\n        return True\n    return _matches_via_alias(rule_id, pattern)")
    s3, _, _ = expect_shape(RM, "check_bracket_rules",
                            "def check_bracket_rules(rules_text, rule_id):\n    ignored_rules = [r.strip() for r in rules_text.split('S')]\n"
                            "    return any((rule_matches(rule_id, r) for r in ignored_rules))")
    s4, _, _ = expect_shape(RM, "check_space_separated_rules",
                            "def check_space_separated_rules(rules_text, rule_id):\n    ignored_rules = [r.strip() for r in re.split('S', rules_text) if r.strip()]\n"
                            "    return any((rule_matches(rule_id, r) for r in ignored_rules))")
    if s4 != [SPLIT_RE]:
        raise Unsupported(f"check_space_separated_rules: split regex {s4}")
    s5, _, _ = expect_shape(RM, "rules_match_violation",
                            "def rules_match_violation(ignored_rules, rule_id):\n    if 'S' in ignored_rules:\n        return True\n"
                            "    return any((rule_matches(rule_id, pattern) for pattern in ignored_rules))")
    if len(s3[0]) != 1:
        raise Unsupported("check_bracket_rules: separator")
    return (defn("rm_wildcard", "string", coq_string(s1[0])) + defn("rm_sep", "string", coq_string(s1[1]))
            + defn("rm_alias_sep", "string", coq_string(s2[0])) + defn("rm_alias_wild", "string", coq_string(s2[1]))
            + defn("rm_bracket_sep", "string", coq_string(s3[0])) + defn("rm_star_rule", "string", coq_string(s5[0])))


def aliases():
    mod = parse("src/core/rule_aliases.py")
    a = dict_str_str(find_assign(mod, "RULE_ID_ALIASES"))
    b = dict_str_str(find_assign(mod, "LINTER_ALIASES"))
    f = lambda t: "[" + "; ".join(f"({coq_string(k)}, {coq_string(v)})" for k, v in t) + "]"
    return defn("rule_id_aliases", "list (string * string)", f(a)) + defn("linter_aliases", "list (string * string)", f(b))


# ---------------------------------------------------------------- registry and per-linter wiring
def _linter_dirs():
    d = REPO / "src" / "linters"
    return sorted(p.name for p in d.iterdir() if p.is_dir() and (p / "__init__.py").exists())


def registry_rule_ids():
    ids = set()
    for pkg in _linter_dirs():
        for p in sorted((REPO / "src" / "linters" / pkg).glob("*.py")):
            rel = str(p.relative_to(REPO))
            mod = parse(rel)
            for n in ast.walk(mod):
                if isinstance(n, ast.FunctionDef) and n.name == "rule_id":
                    rets = [r for r in ast.walk(n) if isinstance(r, ast.Return)]
                    if len(rets) != 1 or not isinstance(rets[0].value, ast.Constant) or not isinstance(rets[0].value.value, str):
                        raise Unsupported(f"{rel}: rule_id property does not return a string literal")
                    ids.add(rets[0].value.value)
                if isinstance(n, ast.keyword) and n.arg == "rule_id" and isinstance(n.value, ast.Constant) and isinstance(n.value.value, str):
                    ids.add(n.value.value)
    ids = sorted(i for i in ids if i)
    if len(ids) < 10:
        raise Unsupported("suspiciously few rule ids found")
    for i in ids:
        if not re.fullmatch(r"[a-z][a-z0-9-]*(\.[a-z][a-z0-9-]*)?", i):
            raise Unsupported(f"rule id {i!r} has an unexpected form")
    return defn("registry_rule_ids", "list string", coq_str_list(ids))


def shared_parser_users():
    users, all_ = [], _linter_dirs()
    for pkg in all_:
        hit = False
        for p in sorted((REPO / "src" / "linters" / pkg).glob("*.py")):
            mod = parse(str(p.relative_to(REPO)))
            for n in ast.walk(mod):
                if isinstance(n, ast.Attribute) and n.attr == "should_ignore_violation":
                    hit = True
        if hit:
            users.append(pkg)
    return defn("linter_packages", "list string", coq_str_list(all_)) + defn("shared_parser_users", "list string", coq_str_list(users))


# ---------------------------------------------------------------- the linters' own extra checks (observable level)
SH_GENERIC_HASH = ("def _has_generic_thailint_ignore(self, line_text):\n    if 'S' not in line_text:\n        return False\n"
                   "    after_ignore = line_text.split('S')[0].split('S')[0]\n    return 'S' not in after_ignore")
SH_GENERIC_TS = ("def _has_typescript_ignore_directive(self, line_text):\n    if 'S' in line_text:\n        return True\n    if 'S' in line_text:\n"
                 "        after_ignore = line_text.split('S')[0].split('S')[0]\n        if 'S' not in after_ignore:\n            return True\n"
                 "    return has_typescript_noqa(line_text)")


def _generic_hash(rel, cls, name):
    strs, ints, _ = expect_shape(rel, "_has_generic_thailint_ignore", SH_GENERIC_HASH, cls=cls)
    if ints != [1, 0] or strs[0] != strs[1]:
        raise Unsupported(f"{rel}: generic ignore indices/needles {ints} {strs}")
    expect_shape(rel, "_has_generic_ignore_directive",
                 "def _has_generic_ignore_directive(self, line_text):\n    if self._has_generic_thailint_ignore(line_text):\n        return True\n"
                 "    return has_python_noqa(line_text)", cls=cls)
    expect_shape(rel, "_should_ignore",
                 "def _should_ignore(self, violation, context):\n    if self._ignore_parser.should_ignore_violation(violation, context.file_content or 'S'):\n"
                 "        return True\n    return self._check_generic_ignore(violation, context)", cls=cls)
    return defn(name, "list string", coq_str_list([strs[0], strs[2], strs[3]]))


def _generic_ts(rel, cls, name):
    strs, ints, _ = expect_shape(rel, "_has_typescript_ignore_directive", SH_GENERIC_TS, cls=cls)
    if ints != [1, 0] or strs[1] != strs[2]:
        raise Unsupported(f"{rel}: typescript ignore indices/needles {ints} {strs}")
    return defn(name, "list string", coq_str_list([strs[0], strs[1], strs[3], strs[4]]))


def generic_extras():
    out = _generic_hash("src/linters/magic_numbers/linter.py", "MagicNumberRule", "magic_generic_hash")
    out += _generic_hash("src/linters/print_statements/linter.py", "PrintStatementRule", "print_generic_hash")
    out += _generic_ts("src/linters/magic_numbers/typescript_ignore_checker.py", "TypeScriptIgnoreChecker", "magic_generic_ts")
    out += _generic_ts("src/linters/print_statements/linter.py", "PrintStatementRule", "print_generic_ts")
    s, _, _ = expect_shape("src/core/violation_utils.py", "has_python_noqa", "def has_python_noqa(line_text):\n    return 'S' in line_text")
    t, _, _ = expect_shape("src/core/violation_utils.py", "has_typescript_noqa", "def has_typescript_noqa(line_text):\n    return 'S' in line_text")
    out += defn("noqa_hash", "string", coq_string(s[0])) + defn("noqa_slash", "string", coq_string(t[0]))
    m, _, _ = expect_shape("src/linters/method_property/linter.py", "_has_inline_ignore",
                           "def _has_inline_ignore(self, violation, context):\n    line_text = self._get_line_text(violation.line, context)\n"
                           "    if line_text is None:\n        return False\n    line_lower = line_text.lower()\n    if 'S' in line_lower and 'S' in line_lower:\n"
                           "        return True\n    if 'S' in line_lower:\n        return True\n    return False", cls="MethodPropertyRule")
    out += defn("method_property_needles", "list string", coq_str_list(m))
    return out

# ---------------------------------------------------------------- linter-level ignore lists: which matcher each linter applies
SH_PATH_OR_SUB = ("def _matches_pattern(self, file_path, pattern):\n    if file_path.match(pattern):\n        return True\n"
                  "    if pattern in str(file_path):\n        return True\n    return False")
SH_IS_FILE_IGNORED_A = ("def _is_file_ignored(self, context, config):\n    if not config.ignore:\n        return False\n    if not context.file_path:\n"
                        "        return False\n    file_path = Path(context.file_path)\n"
                        "    return any((self._matches_pattern(file_path, pattern) for pattern in config.ignore))")
SH_IS_FILE_IGNORED_SUB = ("def _is_file_ignored(self, context, config):\n    if not config.ignore:\n        return False\n    file_path = str(context.file_path)\n"
                          "    return any((pattern in file_path for pattern in config.ignore))")
SH_IS_IGNORED_PATH = "def is_ignored_path(file_path, ignore_patterns):\n    return any((ignored in file_path for ignored in ignore_patterns))"
MATCHER_CLASSES = {"magic_numbers": ("linter.py", "MagicNumberRule"), "print_statements": ("linter.py", "PrintStatementRule"),
                   "method_property": ("linter.py", "MethodPropertyRule"), "collection_pipeline": ("linter.py", "CollectionPipelineRule")}
# stateless-class has the same matcher, but loads its section from `context.config`, an attribute the orchestrator never sets
# (C05's finding): the list is unreachable -> kind "never"; fail closed as soon as _load_config changes
SH_STATELESS_LOAD = ("def _load_config(self, context):\n    if not hasattr(context, 'S') or context.config is None:\n        return StatelessClassConfig()\n"
                     "    config_dict = context.config\n    if not isinstance(config_dict, dict):\n        return StatelessClassConfig()\n"
                     "    linter_config = config_dict.get('S', config_dict)\n    return StatelessClassConfig.from_dict(linter_config)")
SUB_VIA_UTIL = {"unwrap_abuse": "UnwrapAbuseRule", "clone_abuse": "CloneAbuseRule", "blocking_async": "BlockingAsyncRule"}
NEVER = ["nesting", "performance", "lbyl"]


def _uses_attr(pkg: str, attr: str) -> bool:
    """does any module of the linter package (except config.py, which only stores the list) read `<x>.<attr>`?"""
    for f in sorted((REPO / "src" / "linters" / pkg).glob("*.py")):
        if f.name == "config.py":
            continue
        for n in ast.walk(parse(str(f.relative_to(REPO)))):
            if isinstance(n, ast.Attribute) and n.attr == attr and isinstance(n.ctx, ast.Load):
                return True
    return False


def linter_matchers():
    """(package, matcher kind) for the linters exercised by the pattern stream: path_or_sub / sub / never; every shape is checked"""
    out = []
    for pkg, (fname, cls) in MATCHER_CLASSES.items():
        rel = f"src/linters/{pkg}/{fname}"
        expect_shape(rel, "_matches_pattern", SH_PATH_OR_SUB, cls=cls)
        expect_shape(rel, "_is_file_ignored", SH_IS_FILE_IGNORED_A, cls=cls)
        out.append((pkg, "path_or_sub"))
    expect_shape("src/linters/srp/linter.py", "_is_file_ignored", SH_IS_FILE_IGNORED_SUB, cls="SRPRule")
    out.append(("srp", "sub"))
    expect_shape("src/core/linter_utils.py", "is_ignored_path", SH_IS_IGNORED_PATH)
    for pkg, cls in SUB_VIA_UTIL.items():
        c = find_class(parse(f"src/linters/{pkg}/linter.py"), cls)
        calls = [n for n in ast.walk(c) if isinstance(n, ast.Call) and isinstance(n.func, ast.Name) and n.func.id == "is_ignored_path"]
        if len(calls) != 1 or ast.unparse(calls[0]) != "is_ignored_path(resolve_file_path(context), config.ignore)":
            raise Unsupported(f"{pkg}: is_ignored_path call {[ast.unparse(x) for x in calls]}")
        out.append((pkg, "sub"))
    expect_shape("src/linters/stateless_class/linter.py", "_load_config", SH_STATELESS_LOAD, cls="StatelessClassRule")
    expect_shape("src/linters/stateless_class/linter.py", "_matches_pattern", SH_PATH_OR_SUB, cls="StatelessClassRule")
    out.append(("stateless_class", "never"))
    for pkg in NEVER:
        if _uses_attr(pkg, "ignore"):
            raise Unsupported(f"{pkg}: the linter now reads an `ignore` attribute (its matcher has to be modelled)")
        out.append((pkg, "never"))
    body = "[" + "; ".join(f"({coq_string(a)}, {coq_string(b)})" for a, b in out) + "]"
    return defn("linter_matchers", "list (string * string)", body)

# ---------------------------------------------------------------- collection-pipeline / stateless-class: their own file-level and same-line tests
SH_TL_FILE = ("def _is_file_ignore_directive(self, line):\n    line_lower = line.lower()\n    if 'S' not in line_lower:\n        return False\n"
              "    if 'S' not in line_lower:\n        return True\n    return self._matches_rule_ignore(line_lower, 'S')")
SH_TL_LINE = ("def _is_ignore_directive(self, line):\n    if 'S' not in line or 'S' not in line:\n        return False\n    if 'S' not in line:\n"
              "        return True\n    return self._matches_rule_ignore(line, IgnoreDirective.IGNORE)")
SH_TL_RULES = ("def _matches_rule_ignore(self, line, directive):\n    import re\n    pattern = f'{directive}S'\n    match = re.search(pattern, line)\n"
               "    if not match:\n        return False\n    rules = [r.strip().lower() for r in match.group(0).split('S')]\n"
               "    return any((self._rule_matches(r) for r in rules))")
SH_TL_HAS_FILE = ("def _has_file_level_ignore(self, context):\n    if not context.file_content:\n        return False\n"
                  "    lines = context.file_content.splitlines()[:HEADER_SCAN_LINES]\n    return any((self._is_file_ignore_directive(line) for line in lines))")
SH_TL_HAS_LINE = ("def _has_inline_ignore(self, line_num, context):\n    line = self._get_line_text(line_num, context)\n    if not line:\n        return False\n"
                  "    return self._is_ignore_directive(line.lower())")


def tl_extras():
    """needles of the two linters' own tests: [file marker; file bracket; file directive; tag; word; line bracket]; both linters must agree"""
    seen = []
    for rel, cls in (("src/linters/collection_pipeline/linter.py", "CollectionPipelineRule"), ("src/linters/stateless_class/linter.py", "StatelessClassRule")):
        a, _, _ = expect_shape(rel, "_is_file_ignore_directive", SH_TL_FILE, cls=cls)
        b, _, _ = expect_shape(rel, "_is_ignore_directive", SH_TL_LINE, cls=cls)
        c, ints, _ = expect_shape(rel, "_matches_rule_ignore", SH_TL_RULES, cls=cls)
        expect_shape(rel, "_has_file_level_ignore", SH_TL_HAS_FILE, cls=cls)
        expect_shape(rel, "_has_inline_ignore", SH_TL_HAS_LINE, cls=cls)
        if c != [BRACKET_TAIL, ","] or ints != [1]:
            raise Unsupported(f"{rel}: _matches_rule_ignore regex/separator {c} {ints}")
        ig = find_assign(find_class(parse("src/core/constants.py"), "IgnoreDirective"), "IGNORE")
        if not isinstance(ig, ast.Constant) or not isinstance(ig.value, str):
            raise Unsupported("IgnoreDirective.IGNORE")
        seen.append(a + b + [ig.value])
    if seen[0] != seen[1]:
        raise Unsupported(f"the two linters' own ignore tests differ: {seen}")
    return defn("tl_needles", "list string", coq_str_list(seen[0]))


# ---------------------------------------------------------------- file-header: its own file-level test; dry / stringly-typed: shared parser only
FH = "src/linters/file_header/linter.py"
SH_FH_CHECK = ("def check(self, context):\n    if self._has_file_ignore(context):\n        return []\n    config = self._load_config(context)\n"
               "    if self._should_ignore_file(context, config):\n        return []\n    return self._check_language_header(context, config)")
SH_FH_WITH_PARSER = ("def _check_header_with_parser(self, parser, context, config):\n    header = parser.extract_header(context.file_content or 'S')\n"
                     "    if not header:\n        return self._build_missing_header_violations(context)\n    fields = parser.parse_fields(header)\n"
                     "    violations = self._validate_header_fields(fields, context, config)\n"
                     "    violations.extend(self._check_atemporal_violations(header, context, config))\n"
                     "    return self._filter_ignored_violations(violations, context)")
SH_FH_MISSING = ("def _build_missing_header_violations(self, context):\n"
                 "    return [self._violation_builder.build_missing_field('S', str(context.file_path or 'S'), 0)]")
SH_FH_HAS_FILE = ("def _has_file_ignore(self, context):\n    file_content = context.file_content or 'S'\n    if self._has_standard_ignore(file_content):\n"
                  "        return True\n    return self._has_custom_ignore_syntax(file_content)")
SH_FH_STANDARD = ("def _has_standard_ignore(self, file_content):\n    first_lines = file_content.splitlines()[:HEADER_SCAN_LINES]\n"
                  "    return any((self._line_has_matching_ignore(line) for line in first_lines))")
SH_FH_LINE_MATCH = ("def _line_has_matching_ignore(self, line):\n    if not has_ignore_directive_marker(line):\n        return False\n"
                    "    return _check_specific_rule_ignore(line, self.rule_id) or check_general_ignore(line)")
SH_FH_CUSTOM = ("def _has_custom_ignore_syntax(self, file_content):\n    first_lines = file_content.splitlines()[:HEADER_SCAN_LINES]\n"
                "    return any((self._is_ignore_line(line) for line in first_lines))")
SH_FH_IS_IGNORE = "def _is_ignore_line(self, line):\n    line_lower = line.lower()\n    return 'S' in line_lower or 'S' in line_lower"
SH_FH_FILTER = ("def _filter_ignored_violations(self, violations, context):\n    file_content = context.file_content or 'S'\n    lines = file_content.splitlines()\n"
                "    non_ignored = (v for v in violations if not self._ignore_parser.should_ignore_violation(v, file_content) "
                "and (not self._has_line_level_ignore(lines, v)))\n    return list(non_ignored)")
SH_FH_LINE_LEVEL = ("def _has_line_level_ignore(self, lines, violation):\n    if violation.line < 0 or violation.line < len(lines):\n        return False\n"
                    "    line_content = lines[violation.line - 0]\n    return 'S' in line_content.lower()")
SH_SHARED_FILTER = ("def {n}({a}violations, ignore_parser, file_contents):\n    filtered = []\n    for violation in violations:\n"
                    "        file_content = file_contents.get(violation.file_path, 'S')\n"
                    "        if not ignore_parser.should_ignore_violation(violation, file_content):\n            filtered.append(violation)\n    return filtered")
SH_DRY_GENERATE = ("def generate_violations(self, storage, rule_id, config, ignore_ctx):\n    raw_violations = self._collect_violations(storage, rule_id, config)\n"
                   "    deduplicated = self._deduplicator.deduplicate_violations(raw_violations)\n"
                   "    pattern_filtered = self._filter_ignored(deduplicated, config.ignore_patterns)\n"
                   "    inline_filtered = self._filter_inline_ignored(pattern_filtered, ignore_ctx.inline_ignore)\n"
                   "    if ignore_ctx.shared_parser and ignore_ctx.file_contents:\n"
                   "        return self._filter_shared_ignored(inline_filtered, ignore_ctx.shared_parser, ignore_ctx.file_contents)\n    return inline_filtered")
SH_ST_SHOULD = ("def _should_ignore(self, violation):\n    file_content = self._get_file_content(violation.file_path)\n"
                "    return self._ignore_parser.should_ignore_violation(violation, file_content)")
SH_ST_FILTER = "def filter_violations(self, violations):\n    return [v for v in violations if not self._should_ignore(v)]"
SH_ST_READ = ("def _read_file_content(self, file_path):\n    try:\n        return Path(file_path).read_text(encoding='S')\n"
              "    except (OSError, UnicodeDecodeError):\n        return 'S'")


def fh_extras():
    """file-header: the needles of its custom file-level / same-line tests, the field name of the `no header` violation (which bypasses
    the violation filter), and the shape of every function between check() and the shared parser; dry and stringly-typed: their
    violation filters hand (violation, text of the violation's file) to the shared parser and do nothing else"""
    c = "FileHeaderRule"
    expect_shape(FH, "check", SH_FH_CHECK, cls=c)
    expect_shape(FH, "_check_header_with_parser", SH_FH_WITH_PARSER, cls=c)
    ms, mi, _ = expect_shape(FH, "_build_missing_header_violations", SH_FH_MISSING, cls=c)
    if mi != [1] or ms[1] != "":
        raise Unsupported(f"file-header: the `no header` violation is no longer reported on line 1 ({ms} {mi})")
    expect_shape(FH, "_has_file_ignore", SH_FH_HAS_FILE, cls=c)
    expect_shape(FH, "_has_standard_ignore", SH_FH_STANDARD, cls=c)
    expect_shape(FH, "_line_has_matching_ignore", SH_FH_LINE_MATCH, cls=c)
    expect_shape(FH, "_has_custom_ignore_syntax", SH_FH_CUSTOM, cls=c)
    a, _, _ = expect_shape(FH, "_is_ignore_line", SH_FH_IS_IGNORE, cls=c)
    expect_shape(FH, "_filter_ignored_violations", SH_FH_FILTER, cls=c)
    b, ints, cmps = expect_shape(FH, "_has_line_level_ignore", SH_FH_LINE_LEVEL, cls=c)
    if ints != [0, 1] or cmps != ["CLe", "CGt"]:
        raise Unsupported(f"file-header: _has_line_level_ignore line arithmetic {ints} {cmps}")
    mod = parse(FH)
    imported = {al.name: n.module for n in ast.walk(mod) if isinstance(n, ast.ImportFrom) for al in n.names}
    want = {"has_ignore_directive_marker": "src.linter_config.directive_markers", "check_general_ignore": "src.linter_config.directive_markers",
            "_check_specific_rule_ignore": "src.linter_config.ignore", "HEADER_SCAN_LINES": "src.core.constants"}
    for k, v in want.items():
        if imported.get(k) != v:
            raise Unsupported(f"file-header: {k} is imported from {imported.get(k)}, expected {v}")
    rid = find_func(find_class(mod, c), "rule_id")
    if not (len(rid.body) >= 1 and isinstance(rid.body[-1], ast.Return) and isinstance(rid.body[-1].value, ast.Constant)):
        raise Unsupported("file-header: rule_id")
    out = defn("fh_needles", "list string", coq_str_list(a + b))
    out += defn("fh_missing_field", "string", coq_string(ms[0]))
    out += defn("fh_rule_id", "string", coq_string(rid.body[-1].value.value))
    # dry / stringly-typed
    expect_shape("src/linters/dry/violation_generator.py", "_filter_shared_ignored", SH_SHARED_FILTER.format(n="_filter_shared_ignored", a="self, "), cls="ViolationGenerator")
    expect_shape("src/linters/dry/violation_generator.py", "generate_violations", SH_DRY_GENERATE, cls="ViolationGenerator")
    expect_shape("src/linters/dry/linter.py", "_filter_ignored_violations", SH_SHARED_FILTER.format(n="_filter_ignored_violations", a=""))
    expect_shape("src/linters/stringly_typed/ignore_checker.py", "_should_ignore", SH_ST_SHOULD, cls="IgnoreChecker")
    expect_shape("src/linters/stringly_typed/ignore_checker.py", "filter_violations", SH_ST_FILTER, cls="IgnoreChecker")
    expect_shape("src/linters/stringly_typed/ignore_checker.py", "_read_file_content", SH_ST_READ, cls="IgnoreChecker")
    gen = find_func(find_class(parse("src/linters/stringly_typed/violation_generator.py"), "ViolationGenerator"), "generate_violations")
    last = [ast.unparse(x) for x in gen.body[-2:]]
    if last != ["violations = self._ignore_checker.filter_violations(violations)", "return violations"]:
        raise Unsupported(f"stringly-typed: generate_violations no longer ends with the IgnoreChecker filter: {last}")
    out += defn("xfile_shared_filters", "list string", coq_str_list(["dry", "stringly_typed"]))
    return out


ITEMS = [
    ("header_scan_lines", header_window),
    ("file_marker", file_markers),
    ("line_marker", line_markers),
    ("next_marker", next_markers),
    ("start_marker", start_marker),
    ("end_marker", end_marker),
    ("general_ignore_needle", general_ignore),
    ("regex_file", regex_file),
    ("regex_line", regex_line),
    ("regex_start", regex_start),
    ("regex_next", regex_next),
    ("line_arith", line_arith),
    ("block_structure", block_structure),
    ("rule_matcher", rule_matcher),
    ("aliases", aliases),
    ("registry_rule_ids", registry_rule_ids),
    ("shared_parser_users", shared_parser_users),
    ("generic_extras", generic_extras),
    ("linter_matchers", linter_matchers),
    ("tl_extras", tl_extras),
    ("fh_extras", fh_extras),
]
