"""Generated layer for C19 (documented examples honoured wherever embedded): the literals of the two modelled
detectors - print_statements (print calls outside `if __name__ == "__main__"`) and the string-concatenation-in-loop
analyzer of src/linters/performance.

Every modelled helper function is matched, docstring stripped, against a *template* of its whole body in which
only the literals (class names, strings, numbers) are holes; a changed operator, a dropped branch or a reordered
test makes the item fail closed, the literals themselves flow into Gen/EmbedGen.v and from there into the model."""
import ast
import re

from translator.lib import (Unsupported, coq_list, coq_str_list, coq_string, const_value, defn, find_assign, find_class,
                            find_func, fstring_parts, parse, str_elems)

GEN_FILE = "EmbedGen"
HEADER = "From TL Require Import Lib.Base Lib.GenTypes."
SERVES = ["C19"]
P = "src/linters/print_statements/"
F = "src/linters/performance/"
SLF = "src/linters/stateless_class/"
FINGERPRINTS = [
    (P + "python_analyzer.py", ["PythonPrintStatementAnalyzer", "is_print_call", "is_main_if_block"]),
    (P + "linter.py", ["_check_python", "_collect_python_violations", "_try_create_python_violation", "_should_ignore"]),
    (F + "python_analyzer.py", ["PythonStringConcatAnalyzer"]),
    (F + "linter.py", ["StringConcatLoopRule"]),
    ("src/analyzers/ast_utils.py", ["build_parent_map", "_build_parent_map_recursive"]),
    (SLF + "python_analyzer.py", ["analyze_code", "_find_stateless_classes", "_is_stateless", "_should_skip_class", "is_test_class", "is_mixin_class"]),
    (SLF + "linter.py", ["StatelessClassRule"]),
    ("src/linters/method_property/python_analyzer.py", ["PythonMethodAnalyzer"]),
]


def _body(fn) -> str:
    b = fn.body
    if b and isinstance(b[0], ast.Expr) and isinstance(b[0].value, ast.Constant) and isinstance(b[0].value.value, str):
        b = b[1:]
    return "\n".join(ast.unparse(s) for s in b)


def _match(rel: str, scope: str | None, name: str, template: str) -> dict:
    """the body of `name` must be exactly `template`; holes: <S:x> string literal, <C:x> ast class, <N:x> number"""
    mod = parse(rel)
    fn = find_func(find_class(mod, scope) if scope else mod, name)
    src = _body(fn)
    rx = re.escape(template.strip("\n"))
    rx = re.sub(r"<S:(\w+)>", lambda m: r"'(?P<%s>[^'\\]*)'" % m.group(1), rx)
    rx = re.sub(r"<C:(\w+)>", lambda m: r"ast\.(?P<%s>\w+)" % m.group(1), rx)
    rx = re.sub(r"<N:(\w+)>", lambda m: r"(?P<%s>\d+)" % m.group(1), rx)
    m = re.fullmatch(rx, src)
    if not m:
        raise Unsupported(f"{rel}::{name} no longer has the modelled shape; body is now: {src[:300]!r}")
    return m.groupdict()


def _s(name, v):
    return defn(name, "string", coq_string(v))


# ------------------------------------------------------------------ print statements
def print_call():
    a = _match(P + "python_analyzer.py", None, "is_print_call", "return _is_simple_print(node) or _is_builtins_print(node)")
    assert a == {}
    b = _match(P + "python_analyzer.py", None, "_is_simple_print", "return isinstance(node.func, <C:c>) and node.func.id == <S:s>")
    c = _match(P + "python_analyzer.py", None, "_is_builtins_print", """
if not isinstance(node.func, <C:ac>):
    return False
if node.func.attr != <S:attr>:
    return False
return isinstance(node.func.value, <C:bc>) and node.func.value.id == <S:base>""")
    d = _match(P + "python_analyzer.py", "PythonPrintStatementAnalyzer", "_collect_print_calls", """
for node in ast.walk(tree):
    if isinstance(node, <C:call>) and is_print_call(node):
        parent = self.parent_map.get(node)
        line_number = node.lineno if hasattr(node, 'lineno') else 0
        self.print_calls.append((node, parent, line_number))""")
    return (_s("pr_call_cls", d["call"]) + _s("pr_simple_cls", b["c"]) + _s("pr_simple_id", b["s"]) + _s("pr_attr_cls", c["ac"])
            + _s("pr_attr_name", c["attr"]) + _s("pr_base_cls", c["bc"]) + _s("pr_base_id", c["base"]))


def main_block():
    a = _match(P + "python_analyzer.py", None, "is_main_if_block", """
if not isinstance(node, <C:ifc>):
    return False
if not isinstance(node.test, <C:cmp>):
    return False
return _is_main_comparison(node.test)""")
    _match(P + "python_analyzer.py", None, "_is_main_comparison", """
if not _is_name_identifier(test.left):
    return False
if not _has_single_eq_operator(test):
    return False
return _compares_to_main(test)""")
    b = _match(P + "python_analyzer.py", None, "_is_name_identifier", "return isinstance(node, <C:c>) and node.id == <S:s>")
    c = _match(P + "python_analyzer.py", None, "_has_single_eq_operator", "return len(test.ops) == <N:n> and isinstance(test.ops[0], <C:op>)")
    d = _match(P + "python_analyzer.py", None, "_compares_to_main", """
if len(test.comparators) != <N:n>:
    return False
comparator = test.comparators[0]
return isinstance(comparator, <C:c>) and comparator.value == <S:s>""")
    _match(P + "python_analyzer.py", "PythonPrintStatementAnalyzer", "is_in_main_block", """
current = node
while current in self.parent_map:
    parent = self.parent_map[current]
    if is_main_if_block(parent):
        return True
    current = parent
return False""")
    _match("src/analyzers/ast_utils.py", None, "_build_parent_map_recursive", """
if parent is not None:
    parent_map[node] = parent
for child in ast.iter_child_nodes(node):
    _build_parent_map_recursive(child, node, parent_map)""")
    return (_s("main_if_cls", a["ifc"]) + _s("main_test_cls", a["cmp"]) + _s("main_left_cls", b["c"]) + _s("main_left_id", b["s"])
            + defn("main_ops_len", "nat", c["n"]) + _s("main_op_cls", c["op"]) + defn("main_cmps_len", "nat", d["n"])
            + _s("main_cmp_cls", d["c"]) + _s("main_cmp_value", d["s"]))


def print_rule():
    cls = find_class(parse(P + "linter.py"), "PrintStatementRule")
    rid = _match(P + "linter.py", "PrintStatementRule", "rule_id", "return <S:r>")["r"]
    _match(P + "linter.py", "PrintStatementRule", "_try_create_python_violation", """
if config.allow_in_scripts and analyzer.is_in_main_block(node):
    return None
violation = self._violation_builder.create_python_violation(node, line_number, context.file_path)
if self._should_ignore(violation, context):
    return None
return violation""")
    _match(P + "linter.py", "PrintStatementRule", "_collect_python_violations", """
violations = []
for node, _parent, line_number in print_calls:
    violation = self._try_create_python_violation(node, line_number, context, config, analyzer)
    if violation is not None:
        violations.append(violation)
return violations""")
    vb = _match(P + "violation_builder.py", "ViolationBuilder", "create_python_violation", """
message = <S:msg>
suggestion = <S:sug>
return Violation(rule_id=self.rule_id, file_path=str(file_path) if file_path else '', line=line, column=node.col_offset if hasattr(node, 'col_offset') else 0, message=message, suggestion=suggestion)""")
    # default of allow_in_scripts: dataclass default and both from_dict fallbacks must agree
    cfg = find_class(parse(P + "config.py"), "PrintStatementConfig")
    dflt = None
    for st in cfg.body:
        if isinstance(st, ast.AnnAssign) and isinstance(st.target, ast.Name) and st.target.id == "allow_in_scripts":
            dflt = const_value(st.value)
    fb = [const_value(n.args[1]) for n in ast.walk(find_func(cfg, "from_dict"))
          if isinstance(n, ast.Call) and isinstance(n.func, ast.Attribute) and n.func.attr == "get" and n.args
          and isinstance(n.args[0], ast.Constant) and n.args[0].value == "allow_in_scripts" and len(n.args) == 2 and isinstance(n.args[1], ast.Constant)]
    if not isinstance(dflt, bool) or not fb or any(x is not dflt for x in fb):
        raise Unsupported(f"allow_in_scripts defaults disagree: dataclass {dflt}, from_dict {fb}")
    del cls
    return (_s("pr_rule_id", rid) + _s("pr_message", vb["msg"]) + defn("pr_allow_in_scripts_default", "bool", "true" if dflt else "false"))


# ------------------------------------------------------------------ string concatenation in loops
A = "PythonStringConcatAnalyzer"


def concat_tables():
    pats = sorted(str_elems(find_assign(parse(F + "constants.py"), "STRING_VARIABLE_PATTERNS")))
    lt = _match(F + "python_analyzer.py", A, "_get_loop_type", """
if isinstance(node, <C:c1>):
    return <S:t1>
if isinstance(node, <C:c2>):
    return <S:t2>
return None""")
    sv = _match(F + "python_analyzer.py", A, "_is_string_value", """
if isinstance(node, <C:c>) and isinstance(node.value, str):
    return True
if isinstance(node, <C:f>):
    return True
return False""")
    ns = _match(F + "python_analyzer.py", A, "_is_non_string_value", """
if isinstance(node, (<C:a>, <C:b>, <C:c>)):
    return True
return isinstance(node, <C:k>) and isinstance(node.value, (int, float))""")
    kn = _match(F + "python_analyzer.py", A, "_is_known_string_var",
                "return var_name in self._string_variables or var_name.lower() in STRING_VARIABLE_PATTERNS")
    assert kn == {}
    return (defn("sc_patterns", "list string", coq_str_list(pats))
            + defn("sc_loop_types", "list (string * string)", coq_list([f"({coq_string(lt['c1'])}, {coq_string(lt['t1'])})", f"({coq_string(lt['c2'])}, {coq_string(lt['t2'])})"]))
            + _s("sc_str_const_cls", sv["c"]) + _s("sc_fstring_cls", sv["f"])
            + defn("sc_nonstring_classes", "list string", coq_str_list([ns["a"], ns["b"], ns["c"]])) + _s("sc_num_const_cls", ns["k"])
            + defn("sc_num_kinds", "list string", coq_str_list(["int", "float", "bool"])))   # isinstance(v, (int, float)); bool is a subclass of int


def concat_classify():
    _match(F + "python_analyzer.py", A, "find_violations", """
violations: list[StringConcatViolation] = []
self._string_variables = set()
self._non_string_variables = set()
self._identify_string_variables(tree)
self._find_concat_in_loops(tree, violations)
return violations""")
    _match(F + "python_analyzer.py", A, "_identify_string_variables", """
for node in ast.walk(tree):
    self._process_assignment_node(node)""")
    a = _match(F + "python_analyzer.py", A, "_process_assignment_node", """
if isinstance(node, <C:asg>):
    self._process_simple_assign(node)
elif isinstance(node, <C:ann>):
    self._process_annotated_assign(node)""")
    b = _match(F + "python_analyzer.py", A, "_process_simple_assign", """
for target in node.targets:
    if isinstance(target, <C:n>):
        self._classify_variable(target.id, node.value)""")
    c = _match(F + "python_analyzer.py", A, "_process_annotated_assign", """
if node.value and isinstance(node.target, <C:n>):
    self._classify_variable(node.target.id, node.value)""")
    _match(F + "python_analyzer.py", A, "_classify_variable", """
if self._is_string_value(value):
    self._string_variables.add(var_name)
elif self._is_non_string_value(value):
    self._non_string_variables.add(var_name)""")
    if b["n"] != c["n"]:
        raise Unsupported("assignment target classes differ")
    return _s("sc_assign_cls", a["asg"]) + _s("sc_annassign_cls", a["ann"]) + _s("sc_target_cls", b["n"])


def concat_walk():
    _match(F + "python_analyzer.py", A, "_find_concat_in_loops", """
if reset_vars is None:
    reset_vars = set()
loop_type = self._get_loop_type(node)
current_loop: str | None
current_reset_vars: set[str]
if loop_type:
    loop_reset_vars = self._find_vars_reset_in_loop(node)
    current_loop = loop_type
    current_reset_vars = loop_reset_vars
else:
    current_loop = in_loop
    current_reset_vars = reset_vars
self._check_for_string_concat(node, violations, current_loop, current_reset_vars)
for child in ast.iter_child_nodes(node):
    self._find_concat_in_loops(child, violations, current_loop, current_reset_vars)""")
    r = _match(F + "python_analyzer.py", A, "_find_vars_reset_in_loop", """
reset_vars: set[str] = set()
if isinstance(loop_node, (<C:a>, <C:b>)):
    body = loop_node.body
else:
    return reset_vars
for stmt in body:
    self._collect_string_assigns(stmt, reset_vars)
return reset_vars""")
    _match(F + "python_analyzer.py", A, "_collect_string_assigns", """
self._check_simple_assign(node, reset_vars)
self._check_annotated_assign(node, reset_vars)
self._recurse_control_flow(node, reset_vars)""")
    s1 = _match(F + "python_analyzer.py", A, "_check_simple_assign", """
if not isinstance(node, <C:asg>):
    return
for target in node.targets:
    if isinstance(target, <C:n>) and self._is_string_value(node.value):
        reset_vars.add(target.id)""")
    s2 = _match(F + "python_analyzer.py", A, "_check_annotated_assign", """
if not isinstance(node, <C:ann>):
    return
if node.value and isinstance(node.target, <C:n>) and self._is_string_value(node.value):
    reset_vars.add(node.target.id)""")
    cf = _match(F + "python_analyzer.py", A, "_recurse_control_flow", """
if isinstance(node, <C:i>):
    self._recurse_if_node(node, reset_vars)
elif isinstance(node, <C:t>):
    self._recurse_try_node(node, reset_vars)""")
    _match(F + "python_analyzer.py", A, "_recurse_if_node", """
for stmt in node.body + node.orelse:
    self._collect_string_assigns(stmt, reset_vars)""")
    _match(F + "python_analyzer.py", A, "_recurse_try_node", """
for stmt in node.body + node.orelse + node.finalbody:
    self._collect_string_assigns(stmt, reset_vars)
for handler in node.handlers:
    for stmt in handler.body:
        self._collect_string_assigns(stmt, reset_vars)""")
    if {r["a"], r["b"]} != {"For", "While"}:
        raise Unsupported("loop classes of _find_vars_reset_in_loop")
    return (defn("sc_reset_loop_classes", "list string", coq_str_list([r["a"], r["b"]])) + _s("sc_reset_assign_cls", s1["asg"])
            + _s("sc_reset_annassign_cls", s2["ann"]) + _s("sc_reset_target_cls", s1["n"]) + _s("sc_reset_ann_target_cls", s2["n"])
            + _s("sc_if_cls", cf["i"]) + defn("sc_if_fields", "list string", coq_str_list(["body", "orelse"]))
            + _s("sc_try_cls", cf["t"]) + defn("sc_try_fields", "list string", coq_str_list(["body", "orelse", "finalbody"]))
            + _s("sc_try_handlers_field", "handlers") + _s("sc_handler_body_field", "body"))


def concat_emit():
    _match(F + "python_analyzer.py", A, "_check_for_string_concat", """
if not self._is_add_aug_assign_in_loop(node, loop_type):
    return
self._process_aug_assign(node, violations, loop_type or '', reset_vars)""")
    a = _match(F + "python_analyzer.py", A, "_is_add_aug_assign_in_loop", """
if not loop_type or not isinstance(node, <C:aug>):
    return False
return isinstance(node.op, <C:op>) and isinstance(node.target, <C:n>)""")
    b = _match(F + "python_analyzer.py", A, "_process_aug_assign", """
if not isinstance(node, <C:aug>) or not isinstance(node.target, <C:n>):
    return
var_name = node.target.id
if self._should_skip_reset_var(var_name, reset_vars):
    return
self._add_string_concat_violation(node, var_name, loop_type, violations)""")
    _match(F + "python_analyzer.py", A, "_should_skip_reset_var", "return reset_vars is not None and var_name in reset_vars")
    _match(F + "python_analyzer.py", A, "_add_string_concat_violation", """
if not self._is_likely_string_variable(var_name, node.value):
    return
violations.append(StringConcatViolation(variable_name=var_name, line_number=node.lineno, column=node.col_offset, loop_type=loop_type))""")
    _match(F + "python_analyzer.py", A, "_is_likely_string_variable", """
if var_name in self._non_string_variables:
    return False
return self._is_known_string_var(var_name) or self._is_string_value(value) or self._is_str_call(value) or self._is_string_binop(value)""")
    c = _match(F + "python_analyzer.py", A, "_is_str_call", """
if not isinstance(value, <C:call>):
    return False
return isinstance(value.func, <C:n>) and value.func.id == <S:s>""")
    d = _match(F + "python_analyzer.py", A, "_is_string_binop", """
if not isinstance(value, <C:b>) or not isinstance(value.op, <C:op>):
    return False
return self._is_string_value(value.left) or self._is_string_value(value.right)""")
    if (a["aug"], a["n"]) != (b["aug"], b["n"]):
        raise Unsupported("AugAssign tests disagree")
    return (_s("sc_aug_cls", a["aug"]) + _s("sc_aug_op_cls", a["op"]) + _s("sc_aug_target_cls", a["n"]) + _s("sc_call_cls", c["call"])
            + _s("sc_call_func_cls", c["n"]) + _s("sc_str_func", c["s"]) + _s("sc_binop_cls", d["b"]) + _s("sc_binop_op_cls", d["op"]))


def concat_report():
    _match(F + "python_analyzer.py", A, "deduplicate_violations", """
seen: set[str] = set()
result: list[StringConcatViolation] = []
for v in violations:
    if v.variable_name not in seen:
        seen.add(v.variable_name)
        result.append(v)
return result""")
    _match(F + "linter.py", "StringConcatLoopRule", "_analyze_python_string_concat", """
violations_raw = self._python_analyzer.find_violations(tree)
violations_deduped = self._python_analyzer.deduplicate_violations(violations_raw)
return self._build_violations(violations_deduped, context)""")
    _match(F + "linter.py", "StringConcatLoopRule", "_build_violations", """
violations = []
for v in raw_violations:
    violation = self._violation_builder.create_string_concat_violation(variable_name=v.variable_name, line_number=v.line_number, column=v.column, loop_type=v.loop_type, context=context)
    if not self._should_ignore(violation, context):
        violations.append(violation)
return violations""")
    rid = _match(F + "linter.py", "StringConcatLoopRule", "rule_id", "return <S:r>")["r"]
    fn = find_func(find_class(parse(F + "violation_builder.py"), "PerformanceViolationBuilder"), "create_string_concat_violation")
    kws = [k for n in ast.walk(fn) if isinstance(n, ast.Call) for k in n.keywords if k.arg == "message"]
    pos = [k for n in ast.walk(fn) if isinstance(n, ast.Call) for k in n.keywords if k.arg in ("line", "column")]
    if len(kws) != 1 or sorted(ast.unparse(k.value) for k in pos) != ["column", "line_number"]:
        raise Unsupported("create_string_concat_violation: message/line/column keywords")
    parts = []
    for kind, v in fstring_parts(kws[0].value):
        if kind == "lit":
            parts.append(f'("lit", {coq_string(v)})')
        elif v in ("loop_type", "variable_name"):
            parts.append(f'("var", {coq_string(v)})')
        else:
            raise Unsupported(f"unknown message variable {v}")
    return _s("sc_rule_id", rid) + defn("sc_message", "list (string * string)", coq_list(parts))


def concat_doc_names():
    """docs/performance-linter.md documents which variable NAMES make a `+=` count as string concatenation
    (`- Variables named: result, output, ...`); the specification side of the name table"""
    from translator.lib import source
    text = source("docs/performance-linter.md")
    hits = re.findall(r"^- Variables named:\s*(.+)$", text, re.M)
    if len(hits) != 1:
        raise Unsupported(f"docs/performance-linter.md: {len(hits)} `Variables named:` lines")
    names = [x.strip().strip("`") for x in hits[0].split(",")]
    if not names or not all(re.fullmatch(r"[a-z_][a-z0-9_]*", x) for x in names):
        raise Unsupported(f"documented variable names not understood: {hits[0]!r}")
    return defn("sc_doc_patterns", "list string", coq_str_list(names))


# ------------------------------------------------------------------ stateless classes
SL = "src/linters/stateless_class/"


def stateless_class():
    a = _match(SL + "python_analyzer.py", None, "_find_stateless_classes", """
results = []
for node in ast.walk(tree):
    if isinstance(node, <C:cls>) and _is_stateless(node, min_methods):
        results.append(ClassInfo(node.name, node.lineno, node.col_offset))
return results""")
    _match(SL + "python_analyzer.py", None, "_is_stateless", """
if _should_skip_class(class_node):
    return False
return _count_methods(class_node) >= min_methods""")
    _match(SL + "python_analyzer.py", None, "_should_skip_class",
           "return _has_constructor(class_node) or _is_exception_case(class_node) or _has_class_attributes(class_node) or _has_instance_attributes(class_node) or _has_base_classes(class_node)")
    b = _match(SL + "python_analyzer.py", None, "_has_base_classes", """
if not class_node.bases:
    return False
for base in class_node.bases:
    base_name = _get_base_name(base)
    if base_name and base_name not in (<S:obj>,):
        return True
return False""")
    c = _match(SL + "python_analyzer.py", None, "_count_methods", "return sum((1 for item in class_node.body if isinstance(item, <C:fn>)))")
    d = _match(SL + "python_analyzer.py", None, "_has_constructor", """
constructor_names = (<S:a>, <S:b>)
return any((isinstance(item, <C:fn>) and item.name in constructor_names for item in class_node.body))""")
    _match(SL + "python_analyzer.py", None, "_is_exception_case", """
if class_node.decorator_list:
    return True
return _inherits_from_abc_or_protocol(class_node)""")
    e = _match(SL + "python_analyzer.py", None, "_inherits_from_abc_or_protocol",
               "return any((_get_base_name(base) in (<S:a>, <S:b>) for base in class_node.bases))")
    f = _match(SL + "python_analyzer.py", None, "_get_base_name", """
if isinstance(base, <C:n>):
    return base.id
if isinstance(base, <C:a>):
    return base.attr
return ''""")
    g = _match(SL + "python_analyzer.py", None, "_has_class_attributes",
               "return any((isinstance(item, (<C:a>, <C:b>)) for item in class_node.body))")
    h = _match(SL + "python_analyzer.py", None, "_has_instance_attributes",
               "return any((isinstance(item, <C:fn>) and _method_has_self_assignment(item) for item in class_node.body))")
    _match(SL + "python_analyzer.py", None, "_method_has_self_assignment",
           "return any((_is_self_attribute_assignment(node) for node in ast.walk(method)))")
    i = _match(SL + "python_analyzer.py", None, "_is_self_attribute_assignment", """
if not isinstance(node, <C:asg>):
    return False
return any((_is_self_attribute(t) for t in node.targets))""")
    j = _match(SL + "python_analyzer.py", None, "_is_self_attribute", """
if not isinstance(node, <C:a>):
    return False
if not isinstance(node.value, <C:n>):
    return False
return node.value.id == <S:self>""")
    if len({c["fn"], d["fn"], h["fn"]}) != 1:
        raise Unsupported("method class tests disagree")
    return (_s("sl_class_cls", a["cls"]) + _s("sl_object_name", b["obj"]) + _s("sl_method_cls", c["fn"])
            + defn("sl_constructor_names", "list string", coq_str_list([d["a"], d["b"]]))
            + defn("sl_abc_names", "list string", coq_str_list([e["a"], e["b"]]))
            + _s("sl_base_name_cls", f["n"]) + _s("sl_base_attr_cls", f["a"])
            + defn("sl_class_attr_classes", "list string", coq_str_list([g["a"], g["b"]]))
            + _s("sl_assign_cls", i["asg"]) + _s("sl_self_attr_cls", j["a"]) + _s("sl_self_name_cls", j["n"]) + _s("sl_self_name", j["self"]))


def stateless_exemptions():
    a = _match(SL + "python_analyzer.py", None, "is_test_class", """
if class_node.name.startswith(<S:pfx>):
    return True
for base in class_node.bases:
    base_name = _get_base_name(base)
    if base_name in (<S:a>, <S:b>):
        return True
return False""")
    b = _match(SL + "python_analyzer.py", None, "is_mixin_class", "return <S:m> in class_node.name.lower()")
    _match(SL + "linter.py", "StatelessClassRule", "_find_stateless_classes", """
assert context.file_content is not None
analyzer = StatelessClassAnalyzer(min_methods=config.min_methods)
classes = analyzer.analyze(context.file_content)
if config.exempt_test_classes:
    classes = self._filter_test_classes(classes, context)
if config.exempt_mixins:
    classes = self._filter_mixin_classes(classes, context)
return classes""")
    c = _match(SL + "linter.py", "StatelessClassRule", "_parse_class_nodes", """
if not context.file_content:
    return None
try:
    tree = ast.parse(context.file_content)
except SyntaxError:
    return None
return {node.name: node for node in ast.walk(tree) if isinstance(node, <C:cls>)}""")
    _match(SL + "linter.py", "StatelessClassRule", "_filter_test_classes", """
if is_test_file(str(context.file_path) if context.file_path else None):
    return []
class_nodes = self._parse_class_nodes(context)
if class_nodes is None:
    return classes
return self._filter_by_predicate(classes, class_nodes, is_test_class)""")
    _match(SL + "linter.py", "StatelessClassRule", "_filter_by_predicate",
           "return [info for info in classes if info.name not in class_nodes or not predicate(class_nodes[info.name])]")
    _match(SL + "linter.py", "StatelessClassRule", "_filter_mixin_classes", """
class_nodes = self._parse_class_nodes(context)
if class_nodes is None:
    return classes
return self._filter_by_predicate(classes, class_nodes, is_mixin_class)""")
    if c["cls"] != "ClassDef":
        raise Unsupported("_parse_class_nodes class")
    return (_s("sl_test_prefix", a["pfx"]) + defn("sl_test_base_names", "list string", coq_str_list([a["a"], a["b"]])) + _s("sl_mixin_word", b["m"]))


def stateless_rule():
    rid = _match(SL + "linter.py", "StatelessClassRule", "rule_id", "return <S:r>")["r"]
    fn = find_func(find_class(parse(SL + "linter.py"), "StatelessClassRule"), "_create_violation")
    msg = [st.value for st in fn.body if isinstance(st, ast.Assign) and ast.unparse(st.targets[0]) == "message"]
    kws = sorted(ast.unparse(k.value) for n in ast.walk(fn) if isinstance(n, ast.Call) for k in n.keywords if k.arg in ("line", "column", "message"))
    if len(msg) != 1 or kws != ["info.column", "info.line", "message"]:
        raise Unsupported("_create_violation shape")
    parts = []
    for kind, v in fstring_parts(msg[0]):
        if kind == "lit":
            parts.append(f'("lit", {coq_string(v)})')
        elif v == "info.name":
            parts.append('("var", "name")')
        else:
            raise Unsupported(f"unknown message variable {v}")
    cfg = find_class(parse(SL + "config.py"), "StatelessClassConfig")
    d = {}
    for st in cfg.body:
        if isinstance(st, ast.AnnAssign) and isinstance(st.target, ast.Name) and st.value is not None and isinstance(st.value, ast.Constant):
            d[st.target.id] = st.value.value
    fb = {n.args[0].value: const_value(n.args[1]) for n in ast.walk(find_func(cfg, "from_dict"))
          if isinstance(n, ast.Call) and isinstance(n.func, ast.Attribute) and n.func.attr == "get" and len(n.args) == 2
          and isinstance(n.args[0], ast.Constant) and isinstance(n.args[1], ast.Constant)}
    for k in ("min_methods", "exempt_test_classes", "exempt_mixins"):
        if k not in d or fb.get(k) != d[k]:
            raise Unsupported(f"default of {k}: dataclass {d.get(k)}, from_dict {fb.get(k)}")
    if not isinstance(d["min_methods"], int) or d["min_methods"] < 0:
        raise Unsupported("min_methods default")
    return (_s("sl_rule_id", rid) + defn("sl_message", "list (string * string)", coq_list(parts))
            + defn("sl_min_methods_default", "nat", str(d["min_methods"]))
            + defn("sl_exempt_test_default", "bool", "true" if d["exempt_test_classes"] else "false")
            + defn("sl_exempt_mixins_default", "bool", "true" if d["exempt_mixins"] else "false"))


# ------------------------------------------------------------------ method-property
MP = "src/linters/method_property/"
MA = "PythonMethodAnalyzer"


def method_property_walk():
    a = _match(MP + "python_analyzer.py", MA, "_visit_node", """
if isinstance(node, <C:cls>):
    class_id = id(node)
    if class_id not in self._visited_classes:
        self._visited_classes.add(class_id)
        self._analyze_class(node)
else:
    for child in ast.iter_child_nodes(node):
        self._visit_node(child)""")
    _match(MP + "python_analyzer.py", MA, "_analyze_class", """
for item in class_node.body:
    self._process_class_item(item, class_node.name)""")
    b = _match(MP + "python_analyzer.py", MA, "_process_class_item", """
if isinstance(item, <C:fn>):
    self._check_method(item, class_name)
elif isinstance(item, <C:cls>):
    self._process_nested_class(item)""")
    _match(MP + "python_analyzer.py", MA, "_process_nested_class", """
class_id = id(class_node)
if class_id in self._visited_classes:
    return
self._visited_classes.add(class_id)
self._analyze_class(class_node)""")
    _match(MP + "python_analyzer.py", MA, "_check_method", """
if not self._is_property_candidate(method):
    return
is_get_prefix = method.name.startswith('get_') and len(method.name) > 4
candidate = PropertyCandidate(method_name=method.name, class_name=class_name, line=method.lineno, column=method.col_offset, is_get_prefix=is_get_prefix)
self.candidates.append(candidate)""")
    _match(MP + "python_analyzer.py", MA, "_is_property_candidate", """
checks = [not self._is_dunder_method(method), not self._is_action_verb_method(method), not self._has_decorators(method), self._takes_only_self(method), self._has_simple_body(method), self._returns_value(method), not self._has_side_effects(method), not self._has_control_flow(method), not self._has_external_calls(method)]
return all(checks)""")
    if a["cls"] != b["cls"]:
        raise Unsupported("class tests disagree")
    return _s("mp_class_cls", a["cls"]) + _s("mp_method_cls", b["fn"])


def method_property_names():
    a = _match(MP + "python_analyzer.py", MA, "_is_dunder_method", """
name = method.name
return name.startswith(<S:a>) and name.endswith(<S:b>)""")
    _match(MP + "python_analyzer.py", MA, "_is_action_verb_method", """
name = method.name
stripped_name = name.lstrip('_')
for prefix in self.exclude_prefixes:
    if stripped_name.startswith(prefix) and len(stripped_name) > len(prefix):
        return True
return name in self.exclude_names or stripped_name in self.exclude_names""")
    cfg = parse(MP + "config.py")
    prefixes = str_elems(find_assign(cfg, "DEFAULT_EXCLUDE_PREFIXES"))
    names = sorted(str_elems(find_assign(cfg, "DEFAULT_EXCLUDE_NAMES")))
    c = find_class(cfg, "MethodPropertyConfig")
    d = {}
    for st in c.body:
        if isinstance(st, ast.AnnAssign) and isinstance(st.target, ast.Name) and st.value is not None:
            d[st.target.id] = ast.unparse(st.value)
    if d.get("exclude_prefixes") != "DEFAULT_EXCLUDE_PREFIXES" or d.get("exclude_names") != "DEFAULT_EXCLUDE_NAMES" or d.get("max_body_statements") != "3":
        raise Unsupported(f"MethodPropertyConfig defaults: {d}")
    init = find_func(find_class(parse(MP + "python_analyzer.py"), MA), "__init__")
    if ast.unparse(init.args.defaults[0]) != d["max_body_statements"]:
        raise Unsupported("max_body_statements defaults disagree")
    # the documented lists (docs/method-property-linter.md, "Default Exclusions")
    from translator.lib import source
    t = source("docs/method-property-linter.md")
    mp = re.search(r"\*\*Default Prefixes\*\*[^\n]*\n- (.+)", t)
    mn = re.search(r"\*\*Default Names\*\*[^\n]*\n- (.+)", t)
    if not mp or not mn:
        raise Unsupported("documented default exclusions not found")
    doc_p = [x.rstrip("*") for x in re.findall(r"`([a-z_]+\*?)`", mp.group(1))]
    doc_n = sorted(re.findall(r"`([a-z_]+)`", mn.group(1)))
    return (_s("mp_dunder_prefix", a["a"]) + _s("mp_dunder_suffix", a["b"])
            + defn("mp_exclude_prefixes", "list string", coq_str_list(prefixes)) + defn("mp_exclude_names", "list string", coq_str_list(names))
            + defn("mp_doc_exclude_prefixes", "list string", coq_str_list(doc_p)) + defn("mp_doc_exclude_names", "list string", coq_str_list(doc_n))
            + defn("mp_max_body_statements", "nat", d["max_body_statements"]))


def method_property_shape():
    _match(MP + "python_analyzer.py", MA, "_has_decorators", "return len(method.decorator_list) > 0")
    _match(MP + "python_analyzer.py", MA, "_takes_only_self", """
args = method.args
has_only_self_arg = len(args.args) == 1
has_extra_args = self._has_extra_args(args)
return has_only_self_arg and (not has_extra_args)""")
    _match(MP + "python_analyzer.py", MA, "_has_extra_args", """
has_positional_only = bool(args.posonlyargs)
has_vararg = args.vararg is not None
has_keyword_only = bool(args.kwonlyargs)
has_kwarg = args.kwarg is not None
has_defaults = bool(args.defaults)
has_kw_defaults = args.kw_defaults and any((d is not None for d in args.kw_defaults))
return any([has_positional_only, has_vararg, has_keyword_only, has_kwarg, has_defaults, has_kw_defaults])""")
    _match(MP + "python_analyzer.py", MA, "_has_simple_body", """
body = self._get_non_docstring_body(method)
if len(body) > self.max_body_statements:
    return False
if len(body) == 0:
    return False
return True""")
    a = _match(MP + "python_analyzer.py", MA, "_get_non_docstring_body", """
body = method.body
if not body:
    return []
first = body[0]
if isinstance(first, <C:e>) and isinstance(first.value, <C:c>):
    if isinstance(first.value.value, str):
        return body[1:]
return body""")
    _match(MP + "python_analyzer.py", MA, "_returns_value", """
body = self._get_non_docstring_body(method)
if not body:
    return False
last = body[-1]
return self._is_value_return(last)""")
    b = _match(MP + "python_analyzer.py", MA, "_is_value_return", """
if not isinstance(node, <C:r>):
    return False
if node.value is None:
    return False
if isinstance(node.value, <C:c>) and node.value.value is None:
    return False
return True""")
    return _s("mp_expr_cls", a["e"]) + _s("mp_const_cls", a["c"]) + _s("mp_return_cls", b["r"]) + _s("mp_return_const_cls", b["c"])


def method_property_effects():
    _match(MP + "python_analyzer.py", MA, "_has_side_effects", "return any((self._is_side_effect_node(node) for node in ast.walk(method)))")
    _match(MP + "python_analyzer.py", MA, "_is_side_effect_node",
           "return self._is_self_assign(node) or self._is_self_aug_assign(node) or self._is_self_ann_assign(node) or self._is_self_delete(node)")
    a = _match(MP + "python_analyzer.py", MA, "_is_self_assign", "return isinstance(node, <C:c>) and self._assigns_to_self(node.targets)")
    b = _match(MP + "python_analyzer.py", MA, "_is_self_aug_assign", "return isinstance(node, <C:c>) and self._is_self_target(node.target)")
    c = _match(MP + "python_analyzer.py", MA, "_is_self_ann_assign", """
if not isinstance(node, <C:c>):
    return False
return node.value is not None and self._is_self_target(node.target)""")
    d = _match(MP + "python_analyzer.py", MA, "_is_self_delete", "return isinstance(node, <C:c>) and self._assigns_to_self(node.targets)")
    _match(MP + "python_analyzer.py", MA, "_assigns_to_self", "return any((self._is_self_target(target) for target in targets))")
    e = _match(MP + "python_analyzer.py", MA, "_is_self_target", """
if isinstance(target, <C:a>):
    if isinstance(target.value, <C:n>) and target.value.id == <S:self>:
        return True
return False""")
    _match(MP + "python_analyzer.py", MA, "_has_control_flow", "return any((isinstance(node, self._CONTROL_FLOW_TYPES) for node in ast.walk(method)))")
    cf = attr_elems_of(find_assign(find_class(parse(MP + "python_analyzer.py"), MA), "_CONTROL_FLOW_TYPES"))
    g = _match(MP + "python_analyzer.py", MA, "_has_external_calls", """
call_nodes = (node for node in ast.walk(method) if isinstance(node, <C:call>))
return any((self._is_external_function_call(node) for node in call_nodes))""")
    f = _match(MP + "python_analyzer.py", MA, "_is_external_function_call", """
func = call.func
if isinstance(func, <C:n>):
    return True
if isinstance(func, <C:a>):
    return False
return False""")
    rid = _match(MP + "linter.py", "MethodPropertyRule", "rule_id", "return <S:r>")["r"]
    return (_s("mp_assign_cls", a["c"]) + _s("mp_augassign_cls", b["c"]) + _s("mp_annassign_cls", c["c"]) + _s("mp_delete_cls", d["c"])
            + _s("mp_self_attr_cls", e["a"]) + _s("mp_self_name_cls", e["n"]) + _s("mp_self_name", e["self"])
            + defn("mp_control_flow", "list string", coq_str_list(cf)) + _s("mp_call_cls", g["call"]) + _s("mp_call_name_cls", f["n"]) + _s("mp_rule_id", rid))


def attr_elems_of(e):
    from translator.lib import attr_elems
    return attr_elems(e, "ast")


ITEMS = [
    ("print_call", print_call),
    ("main_block", main_block),
    ("print_rule", print_rule),
    ("concat_tables", concat_tables),
    ("concat_classify", concat_classify),
    ("concat_walk", concat_walk),
    ("concat_emit", concat_emit),
    ("concat_report", concat_report),
    ("concat_doc_names", concat_doc_names),
    ("stateless_class", stateless_class),
    ("stateless_exemptions", stateless_exemptions),
    ("stateless_rule", stateless_rule),
    ("method_property_walk", method_property_walk),
    ("method_property_names", method_property_names),
    ("method_property_shape", method_property_shape),
    ("method_property_effects", method_property_effects),
]
