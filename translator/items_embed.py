"""Generated layer for C19 (documented examples honoured wherever embedded): the literals of the two modelled
detectors - print_statements (print calls outside `if __name__ == "__main__"`) and the string-concatenation-in-loop
analyzer of src/linters/performance.

Every modelled helper function is matched, docstring stripped, against a *template* of its whole body in which
only the literals (class names, strings, numbers) are holes; a changed operator, a dropped branch or a reordered
test makes the item fail closed, the literals themselves flow into Gen/EmbedGen.v and from there into the model."""
import ast
import re

from translator.lib import (Unsupported, coq_list, coq_str_list, coq_string, const_value, defn, find_assign, find_class,
                            find_func, fstring_parts, parse, str_elems)

GEN_FILE = "EmbedGen"
HEADER = "From TL Require Import Lib.Base Lib.GenTypes."
SERVES = ["C19"]
P = "src/linters/print_statements/"
F = "src/linters/performance/"
FINGERPRINTS = [
    (P + "python_analyzer.py", ["PythonPrintStatementAnalyzer", "is_print_call", "is_main_if_block"]),
    (P + "linter.py", ["_check_python", "_collect_python_violations", "_try_create_python_violation", "_should_ignore"]),
    (F + "python_analyzer.py", ["PythonStringConcatAnalyzer"]),
    (F + "linter.py", ["StringConcatLoopRule"]),
    ("src/analyzers/ast_utils.py", ["build_parent_map", "_build_parent_map_recursive"]),
]


def _body(fn) -> str:
    b = fn.body
    if b and isinstance(b[0], ast.Expr) and isinstance(b[0].value, ast.Constant) and isinstance(b[0].value.value, str):
        b = b[1:]
    return "\n".join(ast.unparse(s) for s in b)


def _match(rel: str, scope: str | None, name: str, template: str) -> dict:
    """the body of `name` must be exactly `template`; holes: <S:x> string literal, <C:x> ast class, <N:x> number"""
    mod = parse(rel)
    fn = find_func(find_class(mod, scope) if scope else mod, name)
    src = _body(fn)
    rx = re.escape(template.strip("\n"))
    rx = re.sub(r"<S:(\w+)>", lambda m: r"'(?P<%s>[^'\\]*)'" % m.group(1), rx)
    rx = re.sub(r"<C:(\w+)>", lambda m: r"ast\.(?P<%s>\w+)" % m.group(1), rx)
    rx = re.sub(r"<N:(\w+)>", lambda m: r"(?P<%s>\d+)" % m.group(1), rx)
    m = re.fullmatch(rx, src)
    if not m:
        raise Unsupported(f"{rel}::{name} no longer has the modelled shape; body is now: {src[:300]!r}")
    return m.groupdict()


def _s(name, v):
    return defn(name, "string", coq_string(v))


# ------------------------------------------------------------------ print statements
def print_call():
    a = _match(P + "python_analyzer.py", None, "is_print_call", "return _is_simple_print(node) or _is_builtins_print(node)")
    assert a == {}
    b = _match(P + "python_analyzer.py", None, "_is_simple_print", "return isinstance(node.func, <C:c>) and node.func.id == <S:s>")
    c = _match(P + "python_analyzer.py", None, "_is_builtins_print", """
if not isinstance(node.func, <C:ac>):
    return False
if node.func.attr != <S:attr>:
    return False
return isinstance(node.func.value, <C:bc>) and node.func.value.id == <S:base>""")
    d = _match(P + "python_analyzer.py", "PythonPrintStatementAnalyzer", "_collect_print_calls", """
for node in ast.walk(tree):
    if isinstance(node, <C:call>) and is_print_call(node):
        parent = self.parent_map.get(node)
        line_number = node.lineno if hasattr(node, 'lineno') else 0
        self.print_calls.append((node, parent, line_number))""")
    return (_s("pr_call_cls", d["call"]) + _s("pr_simple_cls", b["c"]) + _s("pr_simple_id", b["s"]) + _s("pr_attr_cls", c["ac"])
            + _s("pr_attr_name", c["attr"]) + _s("pr_base_cls", c["bc"]) + _s("pr_base_id", c["base"]))


def main_block():
    a = _match(P + "python_analyzer.py", None, "is_main_if_block", """
if not isinstance(node, <C:ifc>):
    return False
if not isinstance(node.test, <C:cmp>):
    return False
return _is_main_comparison(node.test)""")
    _match(P + "python_analyzer.py", None, "_is_main_comparison", """
if not _is_name_identifier(test.left):
    return False
if not _has_single_eq_operator(test):
    return False
return _compares_to_main(test)""")
    b = _match(P + "python_analyzer.py", None, "_is_name_identifier", "return isinstance(node, <C:c>) and node.id == <S:s>")
    c = _match(P + "python_analyzer.py", None, "_has_single_eq_operator", "return len(test.ops) == <N:n> and isinstance(test.ops[0], <C:op>)")
    d = _match(P + "python_analyzer.py", None, "_compares_to_main", """
if len(test.comparators) != <N:n>:
    return False
comparator = test.comparators[0]
return isinstance(comparator, <C:c>) and comparator.value == <S:s>""")
    _match(P + "python_analyzer.py", "PythonPrintStatementAnalyzer", "is_in_main_block", """
current = node
while current in self.parent_map:
    parent = self.parent_map[current]
    if is_main_if_block(parent):
        return True
    current = parent
return False""")
    _match("src/analyzers/ast_utils.py", None, "_build_parent_map_recursive", """
if parent is not None:
    parent_map[node] = parent
for child in ast.iter_child_nodes(node):
    _build_parent_map_recursive(child, node, parent_map)""")
    return (_s("main_if_cls", a["ifc"]) + _s("main_test_cls", a["cmp"]) + _s("main_left_cls", b["c"]) + _s("main_left_id", b["s"])
            + defn("main_ops_len", "nat", c["n"]) + _s("main_op_cls", c["op"]) + defn("main_cmps_len", "nat", d["n"])
            + _s("main_cmp_cls", d["c"]) + _s("main_cmp_value", d["s"]))


def print_rule():
    cls = find_class(parse(P + "linter.py"), "PrintStatementRule")
    rid = _match(P + "linter.py", "PrintStatementRule", "rule_id", "return <S:r>")["r"]
    _match(P + "linter.py", "PrintStatementRule", "_try_create_python_violation", """
if config.allow_in_scripts and analyzer.is_in_main_block(node):
    return None
violation = self._violation_builder.create_python_violation(node, line_number, context.file_path)
if self._should_ignore(violation, context):
    return None
return violation""")
    _match(P + "linter.py", "PrintStatementRule", "_collect_python_violations", """
violations = []
for node, _parent, line_number in print_calls:
    violation = self._try_create_python_violation(node, line_number, context, config, analyzer)
    if violation is not None:
        violations.append(violation)
return violations""")
    vb = _match(P + "violation_builder.py", "ViolationBuilder", "create_python_violation", """
message = <S:msg>
suggestion = <S:sug>
return Violation(rule_id=self.rule_id, file_path=str(file_path) if file_path else '', line=line, column=node.col_offset if hasattr(node, 'col_offset') else 0, message=message, suggestion=suggestion)""")
    # default of allow_in_scripts: dataclass default and both from_dict fallbacks must agree
    cfg = find_class(parse(P + "config.py"), "PrintStatementConfig")
    dflt = None
    for st in cfg.body:
        if isinstance(st, ast.AnnAssign) and isinstance(st.target, ast.Name) and st.target.id == "allow_in_scripts":
            dflt = const_value(st.value)
    fb = [const_value(n.args[1]) for n in ast.walk(find_func(cfg, "from_dict"))
          if isinstance(n, ast.Call) and isinstance(n.func, ast.Attribute) and n.func.attr == "get" and n.args
          and isinstance(n.args[0], ast.Constant) and n.args[0].value == "allow_in_scripts" and len(n.args) == 2 and isinstance(n.args[1], ast.Constant)]
    if not isinstance(dflt, bool) or not fb or any(x is not dflt for x in fb):
        raise Unsupported(f"allow_in_scripts defaults disagree: dataclass {dflt}, from_dict {fb}")
    del cls
    return (_s("pr_rule_id", rid) + _s("pr_message", vb["msg"]) + defn("pr_allow_in_scripts_default", "bool", "true" if dflt else "false"))


# ------------------------------------------------------------------ string concatenation in loops
A = "PythonStringConcatAnalyzer"


def concat_tables():
    pats = sorted(str_elems(find_assign(parse(F + "constants.py"), "STRING_VARIABLE_PATTERNS")))
    lt = _match(F + "python_analyzer.py", A, "_get_loop_type", """
if isinstance(node, <C:c1>):
    return <S:t1>
if isinstance(node, <C:c2>):
    return <S:t2>
return None""")
    sv = _match(F + "python_analyzer.py", A, "_is_string_value", """
if isinstance(node, <C:c>) and isinstance(node.value, str):
    return True
if isinstance(node, <C:f>):
    return True
return False""")
    ns = _match(F + "python_analyzer.py", A, "_is_non_string_value", """
if isinstance(node, (<C:a>, <C:b>, <C:c>)):
    return True
return isinstance(node, <C:k>) and isinstance(node.value, (int, float))""")
    kn = _match(F + "python_analyzer.py", A, "_is_known_string_var",
                "return var_name in self._string_variables or var_name.lower() in STRING_VARIABLE_PATTERNS")
    assert kn == {}
    return (defn("sc_patterns", "list string", coq_str_list(pats))
            + defn("sc_loop_types", "list (string * string)", coq_list([f"({coq_string(lt['c1'])}, {coq_string(lt['t1'])})", f"({coq_string(lt['c2'])}, {coq_string(lt['t2'])})"]))
            + _s("sc_str_const_cls", sv["c"]) + _s("sc_fstring_cls", sv["f"])
            + defn("sc_nonstring_classes", "list string", coq_str_list([ns["a"], ns["b"], ns["c"]])) + _s("sc_num_const_cls", ns["k"])
            + defn("sc_num_kinds", "list string", coq_str_list(["int", "float", "bool"])))   # isinstance(v, (int, float)); bool is a subclass of int


def concat_classify():
    _match(F + "python_analyzer.py", A, "find_violations", """
violations: list[StringConcatViolation] = []
self._string_variables = set()
self._non_string_variables = set()
self._identify_string_variables(tree)
self._find_concat_in_loops(tree, violations)
return violations""")
    _match(F + "python_analyzer.py", A, "_identify_string_variables", """
for node in ast.walk(tree):
    self._process_assignment_node(node)""")
    a = _match(F + "python_analyzer.py", A, "_process_assignment_node", """
if isinstance(node, <C:asg>):
    self._process_simple_assign(node)
elif isinstance(node, <C:ann>):
    self._process_annotated_assign(node)""")
    b = _match(F + "python_analyzer.py", A, "_process_simple_assign", """
for target in node.targets:
    if isinstance(target, <C:n>):
        self._classify_variable(target.id, node.value)""")
    c = _match(F + "python_analyzer.py", A, "_process_annotated_assign", """
if node.value and isinstance(node.target, <C:n>):
    self._classify_variable(node.target.id, node.value)""")
    _match(F + "python_analyzer.py", A, "_classify_variable", """
if self._is_string_value(value):
    self._string_variables.add(var_name)
elif self._is_non_string_value(value):
    self._non_string_variables.add(var_name)""")
    if b["n"] != c["n"]:
        raise Unsupported("assignment target classes differ")
    return _s("sc_assign_cls", a["asg"]) + _s("sc_annassign_cls", a["ann"]) + _s("sc_target_cls", b["n"])


def concat_walk():
    _match(F + "python_analyzer.py", A, "_find_concat_in_loops", """
if reset_vars is None:
    reset_vars = set()
loop_type = self._get_loop_type(node)
current_loop: str | None
current_reset_vars: set[str]
if loop_type:
    loop_reset_vars = self._find_vars_reset_in_loop(node)
    current_loop = loop_type
    current_reset_vars = loop_reset_vars
else:
    current_loop = in_loop
    current_reset_vars = reset_vars
self._check_for_string_concat(node, violations, current_loop, current_reset_vars)
for child in ast.iter_child_nodes(node):
    self._find_concat_in_loops(child, violations, current_loop, current_reset_vars)""")
    r = _match(F + "python_analyzer.py", A, "_find_vars_reset_in_loop", """
reset_vars: set[str] = set()
if isinstance(loop_node, (<C:a>, <C:b>)):
    body = loop_node.body
else:
    return reset_vars
for stmt in body:
    self._collect_string_assigns(stmt, reset_vars)
return reset_vars""")
    _match(F + "python_analyzer.py", A, "_collect_string_assigns", """
self._check_simple_assign(node, reset_vars)
self._check_annotated_assign(node, reset_vars)
self._recurse_control_flow(node, reset_vars)""")
    s1 = _match(F + "python_analyzer.py", A, "_check_simple_assign", """
if not isinstance(node, <C:asg>):
    return
for target in node.targets:
    if isinstance(target, <C:n>) and self._is_string_value(node.value):
        reset_vars.add(target.id)""")
    s2 = _match(F + "python_analyzer.py", A, "_check_annotated_assign", """
if not isinstance(node, <C:ann>):
    return
if node.value and isinstance(node.target, <C:n>) and self._is_string_value(node.value):
    reset_vars.add(node.target.id)""")
    cf = _match(F + "python_analyzer.py", A, "_recurse_control_flow", """
if isinstance(node, <C:i>):
    self._recurse_if_node(node, reset_vars)
elif isinstance(node, <C:t>):
    self._recurse_try_node(node, reset_vars)""")
    _match(F + "python_analyzer.py", A, "_recurse_if_node", """
for stmt in node.body + node.orelse:
    self._collect_string_assigns(stmt, reset_vars)""")
    _match(F + "python_analyzer.py", A, "_recurse_try_node", """
for stmt in node.body + node.orelse + node.finalbody:
    self._collect_string_assigns(stmt, reset_vars)
for handler in node.handlers:
    for stmt in handler.body:
        self._collect_string_assigns(stmt, reset_vars)""")
    if {r["a"], r["b"]} != {"For", "While"}:
        raise Unsupported("loop classes of _find_vars_reset_in_loop")
    return (defn("sc_reset_loop_classes", "list string", coq_str_list([r["a"], r["b"]])) + _s("sc_reset_assign_cls", s1["asg"])
            + _s("sc_reset_annassign_cls", s2["ann"]) + _s("sc_reset_target_cls", s1["n"]) + _s("sc_reset_ann_target_cls", s2["n"])
            + _s("sc_if_cls", cf["i"]) + defn("sc_if_fields", "list string", coq_str_list(["body", "orelse"]))
            + _s("sc_try_cls", cf["t"]) + defn("sc_try_fields", "list string", coq_str_list(["body", "orelse", "finalbody"]))
            + _s("sc_try_handlers_field", "handlers") + _s("sc_handler_body_field", "body"))


def concat_emit():
    _match(F + "python_analyzer.py", A, "_check_for_string_concat", """
if not self._is_add_aug_assign_in_loop(node, loop_type):
    return
self._process_aug_assign(node, violations, loop_type or '', reset_vars)""")
    a = _match(F + "python_analyzer.py", A, "_is_add_aug_assign_in_loop", """
if not loop_type or not isinstance(node, <C:aug>):
    return False
return isinstance(node.op, <C:op>) and isinstance(node.target, <C:n>)""")
    b = _match(F + "python_analyzer.py", A, "_process_aug_assign", """
if not isinstance(node, <C:aug>) or not isinstance(node.target, <C:n>):
    return
var_name = node.target.id
if self._should_skip_reset_var(var_name, reset_vars):
    return
self._add_string_concat_violation(node, var_name, loop_type, violations)""")
    _match(F + "python_analyzer.py", A, "_should_skip_reset_var", "return reset_vars is not None and var_name in reset_vars")
    _match(F + "python_analyzer.py", A, "_add_string_concat_violation", """
if not self._is_likely_string_variable(var_name, node.value):
    return
violations.append(StringConcatViolation(variable_name=var_name, line_number=node.lineno, column=node.col_offset, loop_type=loop_type))""")
    _match(F + "python_analyzer.py", A, "_is_likely_string_variable", """
if var_name in self._non_string_variables:
    return False
return self._is_known_string_var(var_name) or self._is_string_value(value) or self._is_str_call(value) or self._is_string_binop(value)""")
    c = _match(F + "python_analyzer.py", A, "_is_str_call", """
if not isinstance(value, <C:call>):
    return False
return isinstance(value.func, <C:n>) and value.func.id == <S:s>""")
    d = _match(F + "python_analyzer.py", A, "_is_string_binop", """
if not isinstance(value, <C:b>) or not isinstance(value.op, <C:op>):
    return False
return self._is_string_value(value.left) or self._is_string_value(value.right)""")
    if (a["aug"], a["n"]) != (b["aug"], b["n"]):
        raise Unsupported("AugAssign tests disagree")
    return (_s("sc_aug_cls", a["aug"]) + _s("sc_aug_op_cls", a["op"]) + _s("sc_aug_target_cls", a["n"]) + _s("sc_call_cls", c["call"])
            + _s("sc_call_func_cls", c["n"]) + _s("sc_str_func", c["s"]) + _s("sc_binop_cls", d["b"]) + _s("sc_binop_op_cls", d["op"]))


def concat_report():
    _match(F + "python_analyzer.py", A, "deduplicate_violations", """
seen: set[str] = set()
result: list[StringConcatViolation] = []
for v in violations:
    if v.variable_name not in seen:
        seen.add(v.variable_name)
        result.append(v)
return result""")
    _match(F + "linter.py", "StringConcatLoopRule", "_analyze_python_string_concat", """
violations_raw = self._python_analyzer.find_violations(tree)
violations_deduped = self._python_analyzer.deduplicate_violations(violations_raw)
return self._build_violations(violations_deduped, context)""")
    _match(F + "linter.py", "StringConcatLoopRule", "_build_violations", """
violations = []
for v in raw_violations:
    violation = self._violation_builder.create_string_concat_violation(variable_name=v.variable_name, line_number=v.line_number, column=v.column, loop_type=v.loop_type, context=context)
    if not self._should_ignore(violation, context):
        violations.append(violation)
return violations""")
    rid = _match(F + "linter.py", "StringConcatLoopRule", "rule_id", "return <S:r>")["r"]
    fn = find_func(find_class(parse(F + "violation_builder.py"), "PerformanceViolationBuilder"), "create_string_concat_violation")
    kws = [k for n in ast.walk(fn) if isinstance(n, ast.Call) for k in n.keywords if k.arg == "message"]
    pos = [k for n in ast.walk(fn) if isinstance(n, ast.Call) for k in n.keywords if k.arg in ("line", "column")]
    if len(kws) != 1 or sorted(ast.unparse(k.value) for k in pos) != ["column", "line_number"]:
        raise Unsupported("create_string_concat_violation: message/line/column keywords")
    parts = []
    for kind, v in fstring_parts(kws[0].value):
        if kind == "lit":
            parts.append(f'("lit", {coq_string(v)})')
        elif v in ("loop_type", "variable_name"):
            parts.append(f'("var", {coq_string(v)})')
        else:
            raise Unsupported(f"unknown message variable {v}")
    return _s("sc_rule_id", rid) + defn("sc_message", "list (string * string)", coq_list(parts))


def concat_doc_names():
    """docs/performance-linter.md documents which variable NAMES make a `+=` count as string concatenation
    (`- Variables named: result, output, ...`); the specification side of the name table"""
    from translator.lib import source
    text = source("docs/performance-linter.md")
    hits = re.findall(r"^- Variables named:\s*(.+)$", text, re.M)
    if len(hits) != 1:
        raise Unsupported(f"docs/performance-linter.md: {len(hits)} `Variables named:` lines")
    names = [x.strip().strip("`") for x in hits[0].split(",")]
    if not names or not all(re.fullmatch(r"[a-z_][a-z0-9_]*", x) for x in names):
        raise Unsupported(f"documented variable names not understood: {hits[0]!r}")
    return defn("sc_doc_patterns", "list string", coq_str_list(names))


ITEMS = [
    ("print_call", print_call),
    ("main_block", main_block),
    ("print_rule", print_rule),
    ("concat_tables", concat_tables),
    ("concat_classify", concat_classify),
    ("concat_walk", concat_walk),
    ("concat_emit", concat_emit),
    ("concat_report", concat_report),
    ("concat_doc_names", concat_doc_names),
]
