"""Generated layer for C19, second part: the literals and helper-function shapes of the conditional-verbose rule of
src/linters/print_statements (logger calls guarded by `if verbose:`) and of the regex-in-loop analyzer of
src/linters/performance.

As in items_embed.py every modelled function is matched, docstring stripped, against a template of its whole body in
which only literals are holes; a changed operator, a dropped branch or a reordered test makes the item fail closed."""
import ast
import re

from translator.items_embed import _match, _s
from translator.lib import Unsupported, coq_list, coq_str_list, coq_string, defn, find_assign, find_class, find_func, fstring_parts, parse, source, str_elems

GEN_FILE = "Embed2Gen"
HEADER = "From TL Require Import Lib.Base Lib.GenTypes."
SERVES = ["C19"]
P = "src/linters/print_statements/"
F = "src/linters/performance/"
CV = P + "conditional_verbose_analyzer.py"
RX = F + "regex_analyzer.py"
FINGERPRINTS = [
    (CV, ["is_verbose_condition", "is_logger_call", "ConditionalVerboseAnalyzer"]),
    (P + "conditional_verbose_rule.py", ["ConditionalVerboseRule"]),
    (RX, ["PythonRegexInLoopAnalyzer"]),
    (F + "regex_linter.py", ["RegexInLoopRule"]),
]


# ------------------------------------------------------------------ conditional verbose
def cv_condition():
    names = sorted(str_elems(find_assign(parse(CV), "VERBOSE_NAMES")))
    _match(CV, None, "is_verbose_condition",
           "return _is_simple_verbose_name(test) or _is_verbose_attribute(test) or _is_verbose_subscript(test) or _is_verbose_dict_get(test)")
    a = _match(CV, None, "_is_simple_verbose_name", "return isinstance(test, <C:c>) and test.id.lower() in VERBOSE_NAMES")
    b = _match(CV, None, "_is_verbose_attribute", """
if not isinstance(test, <C:c>):
    return False
return test.attr.lower() in VERBOSE_NAMES""")
    c = _match(CV, None, "_is_verbose_subscript", """
if not isinstance(test, <C:s>):
    return False
if not isinstance(test.slice, <C:k>):
    return False
value = test.slice.value
return isinstance(value, str) and value.lower() in VERBOSE_NAMES""")
    d = _match(CV, None, "_is_verbose_dict_get", """
if not isinstance(test, <C:c>):
    return False
if not _is_dict_get_call_with_args(test):
    return False
return _first_arg_is_verbose_string(test.args[0])""")
    e = _match(CV, None, "_is_dict_get_call_with_args", """
if not isinstance(call.func, <C:a>):
    return False
if call.func.attr != <S:get>:
    return False
return bool(call.args)""")
    f = _match(CV, None, "_first_arg_is_verbose_string", """
if not isinstance(arg, <C:k>):
    return False
value = arg.value
return isinstance(value, str) and value.lower() in VERBOSE_NAMES""")
    return (defn("cv_verbose_names", "list string", coq_str_list(names)) + _s("cv_name_cls", a["c"]) + _s("cv_attr_cls", b["c"])
            + _s("cv_sub_cls", c["s"]) + _s("cv_slice_cls", c["k"]) + _s("cv_get_call_cls", d["c"]) + _s("cv_get_attr_cls", e["a"])
            + _s("cv_get_name", e["get"]) + _s("cv_arg_cls", f["k"]))


def cv_walk():
    methods = sorted(str_elems(find_assign(parse(CV), "LOGGER_METHODS")))
    a = _match(CV, None, "is_logger_call", """
if not isinstance(node.func, <C:a>):
    return False
return node.func.attr in LOGGER_METHODS""")
    b = _match(CV, None, "_extract_logger_method", """
if isinstance(node.func, <C:a>):
    return node.func.attr
return <S:none>""")
    A = "ConditionalVerboseAnalyzer"
    c = _match(CV, A, "find_conditional_verbose_calls", """
verbose_if_nodes = (node for node in ast.walk(tree) if isinstance(node, <C:i>) and is_verbose_condition(node.test))
results: list[tuple[ast.If, ast.Call, str, int]] = []
for if_node in verbose_if_nodes:
    results.extend(self._extract_logger_call_results(if_node))
return results""")
    _match(CV, A, "_extract_logger_call_results", """
logger_calls = self._find_logger_calls_in_body(if_node.body)
return [(if_node, call_node, _extract_logger_method(call_node), call_node.lineno if hasattr(call_node, 'lineno') else if_node.lineno) for call_node in logger_calls]""")
    d = _match(CV, A, "_find_logger_calls_in_body", """
logger_calls: list[ast.Call] = []
for stmt in body:
    for node in ast.walk(stmt):
        if isinstance(node, <C:c>) and is_logger_call(node):
            logger_calls.append(node)
return logger_calls""")
    if a["a"] != b["a"] or b["none"] != "":
        raise Unsupported("logger call tests disagree")
    return (defn("cv_logger_methods", "list string", coq_str_list(methods)) + _s("cv_logger_attr_cls", a["a"]) + _s("cv_if_cls", c["i"])
            + _s("cv_call_cls", d["c"]) + _s("cv_body_field", "body"))


def cv_rule():
    R = "ConditionalVerboseRule"
    rel = P + "conditional_verbose_rule.py"
    rid = _match(rel, R, "rule_id", "return <S:r>")["r"]
    _match(rel, R, "check", """
if not self._should_analyze(context):
    return []
tree = self._parse_python_code(context.file_content)
if tree is None:
    return []
analyzer = ConditionalVerboseAnalyzer()
conditional_calls = analyzer.find_conditional_verbose_calls(tree)
return self._collect_violations(conditional_calls, context)""")
    _match(rel, R, "_collect_violations", """
violations = []
for _if_node, _call_node, method_name, line_number in conditional_calls:
    violation = self._create_violation(method_name, line_number, context)
    if not self._should_ignore(violation, context):
        violations.append(violation)
return violations""")
    fn = find_func(find_class(parse(rel), R), "_create_violation")
    msg = [st.value for st in fn.body if isinstance(st, ast.Assign) and ast.unparse(st.targets[0]) == "message"]
    kws = {k.arg: ast.unparse(k.value) for n in ast.walk(fn) if isinstance(n, ast.Call) for k in n.keywords if k.arg in ("line", "column", "message", "rule_id")}
    if len(msg) != 1 or kws.get("line") != "line" or kws.get("message") != "message" or kws.get("rule_id") != "self.rule_id" or not re.fullmatch(r"\d+", kws.get("column", "")):
        raise Unsupported(f"_create_violation shape: {kws}")
    parts = []
    for kind, v in fstring_parts(msg[0]):
        if kind == "lit":
            parts.append(f'("lit", {coq_string(v)})')
        elif v == "method_name":
            parts.append('("var", "method_name")')
        else:
            raise Unsupported(f"unknown message variable {v}")
    cfg = find_class(parse(P + "config.py"), "PrintStatementConfig")
    en = [ast.unparse(st.value) for st in cfg.body if isinstance(st, ast.AnnAssign) and isinstance(st.target, ast.Name) and st.target.id == "enabled"]
    if en != ["True"]:
        raise Unsupported(f"PrintStatementConfig.enabled default: {en}")
    return _s("cv_rule_id", rid) + defn("cv_message", "list (string * string)", coq_list(parts)) + defn("cv_column", "nat", kws["column"])


def cv_doc_names():
    """docs/improper-logging-linter.md lists the verbose-like condition names; the specification side of cv_verbose_names"""
    from translator import docs2cases
    ns = docs2cases.name_spec()
    spec = ns["spec"].get("improper-logging", {})
    names = None
    for k, v in spec.items():
        if isinstance(v, (list, tuple, set)) and "verbose" in v:
            names = sorted(v)
    if names is None:
        raise Unsupported(f"documented verbose-like condition names not found in name_spec: {spec}")
    return defn("cv_doc_verbose_names", "list string", coq_str_list(names))


# ------------------------------------------------------------------ regex in loop
A = "PythonRegexInLoopAnalyzer"


def rx_globals():
    fns = sorted(str_elems(find_assign(parse(RX), "RE_FUNCTIONS")))
    _match(RX, A, "find_violations", """
violations: list[RegexInLoopViolation] = []
self._compiled_patterns = set()
self._re_aliases = {<S:re>}
self._direct_imports = set()
self._identify_imports(tree)
self._identify_compiled_patterns(tree)
self._find_regex_in_loops(tree, violations)
return violations""")
    _match(RX, A, "_identify_imports", """
for node in ast.walk(tree):
    self._process_import_node(node)""")
    a = _match(RX, A, "_process_import_node", """
if isinstance(node, <C:imp>):
    self._process_regular_import(node)
elif isinstance(node, <C:frm>):
    self._process_from_import(node)""")
    b = _match(RX, A, "_process_regular_import", """
for alias in node.names:
    if alias.name == <S:re>:
        self._re_aliases.add(alias.asname or <S:re2>)""")
    c = _match(RX, A, "_process_from_import", """
if node.module != <S:re>:
    return
for alias in node.names:
    self._add_direct_import_if_re_function(alias)""")
    _match(RX, A, "_add_direct_import_if_re_function", """
if alias.name not in RE_FUNCTIONS:
    return
imported_name = alias.asname or alias.name
self._direct_imports.add(imported_name)""")
    _match(RX, A, "_identify_compiled_patterns", """
for node in ast.walk(tree):
    self._check_for_compile_assignment(node)""")
    d = _match(RX, A, "_check_for_compile_assignment", """
if isinstance(node, <C:asg>):
    self._process_compile_assign(node)
elif isinstance(node, <C:ann>):
    self._process_compile_ann_assign(node)""")
    _match(RX, A, "_process_compile_assign", """
if not self._is_re_compile_call(node.value):
    return
for target in node.targets:
    self._add_compiled_pattern_if_name(target)""")
    e = _match(RX, A, "_add_compiled_pattern_if_name", """
if isinstance(target, <C:n>):
    self._compiled_patterns.add(target.id)""")
    f = _match(RX, A, "_process_compile_ann_assign", """
if node.value and self._is_re_compile_call(node.value):
    if isinstance(node.target, <C:n>):
        self._compiled_patterns.add(node.target.id)""")
    g = _match(RX, A, "_is_re_compile_call", """
if not isinstance(node, <C:call>):
    return False
func = node.func
if isinstance(func, <C:attr>):
    return self._is_module_compile(func)
return False""")
    h = _match(RX, A, "_is_module_compile", """
if func.attr != <S:compile>:
    return False
if isinstance(func.value, <C:n>):
    return func.value.id in self._re_aliases
return False""")
    if len({b["re"], b["re2"], c["re"]}) != 1 or e["n"] != f["n"]:
        raise Unsupported("module names / target classes disagree")
    return (defn("rx_functions", "list string", coq_str_list(fns)) + _s("rx_module", b["re"]) + _s("rx_import_cls", a["imp"]) + _s("rx_importfrom_cls", a["frm"])
            + _s("rx_assign_cls", d["asg"]) + _s("rx_annassign_cls", d["ann"]) + _s("rx_target_cls", e["n"]) + _s("rx_compile_call_cls", g["call"])
            + _s("rx_compile_attr_cls", g["attr"]) + _s("rx_compile_name", h["compile"]) + _s("rx_compile_base_cls", h["n"])
            + _s("rx_default_alias", _match(RX, A, "find_violations", """
violations: list[RegexInLoopViolation] = []
self._compiled_patterns = set()
self._re_aliases = {<S:re>}
self._direct_imports = set()
self._identify_imports(tree)
self._identify_compiled_patterns(tree)
self._find_regex_in_loops(tree, violations)
return violations""")["re"]))


def rx_walk():
    _match(RX, A, "_find_regex_in_loops", """
current_loop = self._get_loop_type(node) or in_loop
self._check_for_regex_call(node, violations, current_loop)
for child in ast.iter_child_nodes(node):
    self._find_regex_in_loops(child, violations, current_loop)""")
    lt = _match(RX, A, "_get_loop_type", """
if isinstance(node, <C:c1>):
    return <S:t1>
if isinstance(node, <C:c2>):
    return <S:t2>
return None""")
    a = _match(RX, A, "_check_for_regex_call", """
if not loop_type or not isinstance(node, <C:call>):
    return
violation = self._create_violation_if_regex_call(node, loop_type)
if violation:
    violations.append(violation)""")
    _match(RX, A, "_create_violation_if_regex_call", """
method_name = self._get_regex_method_name(node)
if method_name:
    return RegexInLoopViolation(method_name=method_name, line_number=node.lineno, column=node.col_offset, loop_type=loop_type)
return None""")
    b = _match(RX, A, "_get_regex_method_name", """
func = node.func
if isinstance(func, <C:attr>):
    return self._check_module_regex_call(func)
if isinstance(func, <C:n>):
    return self._check_direct_import_call(func)
return None""")
    fn = find_func(find_class(parse(RX), A), "_check_module_regex_call")
    body = "\n".join(ast.unparse(s) for s in fn.body[1:] if True) if (fn.body and isinstance(fn.body[0], ast.Expr)) else "\n".join(ast.unparse(s) for s in fn.body)
    m = re.fullmatch(re.escape("""method = func.attr
if method not in RE_FUNCTIONS:
    return None
if isinstance(func.value, ast.NAME):
    caller = func.value.id
    if caller in self._compiled_patterns:
        return None
    if caller in self._re_aliases:
        return f'PREFIX{method}'
return None""").replace("NAME", r"(?P<n>\w+)").replace("PREFIX", r"(?P<p>[^'{}\\]*)"), body)
    if not m:
        raise Unsupported(f"{RX}::_check_module_regex_call no longer has the modelled shape; body is now: {body[:300]!r}")
    _match(RX, A, "_check_direct_import_call", """
if func.id in self._direct_imports:
    return func.id
return None""")
    return (defn("rx_loop_types", "list (string * string)", coq_list([f"({coq_string(lt['c1'])}, {coq_string(lt['t1'])})", f"({coq_string(lt['c2'])}, {coq_string(lt['t2'])})"]))
            + _s("rx_call_cls", a["call"]) + _s("rx_func_attr_cls", b["attr"]) + _s("rx_func_name_cls", b["n"]) + _s("rx_caller_cls", m.group("n"))
            + _s("rx_method_prefix", m.group("p")))


def rx_rule():
    rel = F + "regex_linter.py"
    R = "RegexInLoopRule"
    rid = _match(rel, R, "rule_id", "return <S:r>")["r"]
    _match(rel, R, "_analyze_python_regex", """
violations_raw = self._python_analyzer.find_violations(tree)
return self._build_violations(violations_raw, context)""")
    _match(rel, R, "_build_violations", """
violations = []
for v in raw_violations:
    violation = self._violation_builder.create_regex_in_loop_violation(method_name=v.method_name, line_number=v.line_number, column=v.column, loop_type=v.loop_type, context=context)
    if not self._should_ignore(violation, context):
        violations.append(violation)
return violations""")
    fn = find_func(find_class(parse(F + "violation_builder.py"), "PerformanceViolationBuilder"), "create_regex_in_loop_violation")
    kws = [k for n in ast.walk(fn) if isinstance(n, ast.Call) for k in n.keywords if k.arg == "message"]
    pos = [k for n in ast.walk(fn) if isinstance(n, ast.Call) for k in n.keywords if k.arg in ("line", "column")]
    if len(kws) != 1 or sorted(ast.unparse(k.value) for k in pos) != ["column", "line_number"]:
        raise Unsupported("create_regex_in_loop_violation: message/line/column keywords")
    parts = []
    for kind, v in fstring_parts(kws[0].value):
        if kind == "lit":
            parts.append(f'("lit", {coq_string(v)})')
        elif v in ("loop_type", "method_name"):
            parts.append(f'("var", {coq_string(v)})')
        else:
            raise Unsupported(f"unknown message variable {v}")
    return _s("rx_rule_id", rid) + defn("rx_message", "list (string * string)", coq_list(parts))


ITEMS = [
    ("cv_condition", cv_condition),
    ("cv_walk", cv_walk),
    ("cv_rule", cv_rule),
    ("cv_doc_names", cv_doc_names),
    ("rx_globals", rx_globals),
    ("rx_walk", rx_walk),
    ("rx_rule", rx_rule),
]
