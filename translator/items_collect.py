"""Generated layer for file collection and repository-level ignores (C14).

Tables and the small pure functions of src/orchestrator/core.py, src/linter_config/ignore.py,
src/linter_config/pattern_utils.py and src/cli/utils.py are translated from their `ast` into Gallina
over the primitives of Model/CollectStr.v (fail-closed: anything outside the subset aborts the item).
"""
import ast

from translator.lib import Unsupported, coq_str_list, coq_string, const_value, defn, find_assign, find_class, find_func, parse, str_elems

GEN_FILE = "CollectGen"
HEADER = "From TL Require Import Lib.Base Lib.GenTypes Model.CollectStr."
SERVES = ["C14"]
CORE = "src/orchestrator/core.py"
IGN = "src/linter_config/ignore.py"
PU = "src/linter_config/pattern_utils.py"
CLI = "src/cli/utils.py"
FINGERPRINTS = [
    (CORE, ["_collect_files_fast", "_collect_files_from_walk", "lint_file", "lint_files", "lint_directory"]),
    (CORE, ["lint_directory_parallel", "lint_files_parallel", "_execute_parallel_linting", "_lint_file_worker"]),
    (IGN, ["is_ignored", "_load_repo_ignores", "_parse_thailintignore_file", "_parse_config_file", "_extract_ignore_patterns"]),
    (PU, ["matches_pattern", "_matches_directory_pattern", "extract_patterns_from_content"]),
    (CLI, ["separate_files_and_dirs", "execute_linting_on_paths"]),
]


# ------------------------------------------------------------------ expression translator
class Tr:
    """vars: python name -> (coq term, kind) with kind in str|bool|strlist|path (a Path given by its parts)|fn"""

    def __init__(self, vars_):
        self.vars = dict(vars_)

    def kind(self, e):
        if isinstance(e, ast.Name) and e.id in self.vars:
            return self.vars[e.id][1]
        if isinstance(e, ast.Constant) and isinstance(e.value, str):
            return "str"
        return "?"

    def cond(self, e) -> str:
        """e in a boolean context"""
        if isinstance(e, ast.Name) and self.kind(e) == "str":
            return f"(nonempty {self.expr(e)})"
        if isinstance(e, ast.BoolOp):
            op = " && " if isinstance(e.op, ast.And) else " || "
            return "(" + op.join(self.cond(v) for v in e.values) + ")"
        if isinstance(e, ast.UnaryOp) and isinstance(e.op, ast.Not):
            return f"(negb {self.cond(e.operand)})"
        return self.expr(e)

    def expr(self, e) -> str:
        if isinstance(e, ast.Name):
            if e.id not in self.vars:
                raise Unsupported(f"unknown name {e.id}")
            return self.vars[e.id][0]
        if isinstance(e, ast.Constant):
            if isinstance(e.value, bool):
                return "true" if e.value else "false"
            if isinstance(e.value, str):
                return coq_string(e.value)
            raise Unsupported(f"constant {e.value!r}")
        if isinstance(e, (ast.BoolOp,)) or (isinstance(e, ast.UnaryOp) and isinstance(e.op, ast.Not)):
            return self.cond(e)
        if isinstance(e, ast.Compare) and len(e.ops) == 1:
            a, b = self.expr(e.left), self.expr(e.comparators[0])
            if isinstance(e.ops[0], ast.In):
                return f"(smem {a} {b})"
            if isinstance(e.ops[0], ast.NotIn):
                return f"(negb (smem {a} {b}))"
            if isinstance(e.ops[0], ast.Eq):
                return f"(String.eqb {a} {b})"
            if isinstance(e.ops[0], ast.NotEq):
                return f"(negb (String.eqb {a} {b}))"
            raise Unsupported(f"comparison {ast.unparse(e)}")
        if isinstance(e, ast.BinOp) and isinstance(e.op, ast.Add):
            return f"({self.expr(e.left)} ++ {self.expr(e.right)})%string"
        if isinstance(e, ast.Attribute):
            # file_path.suffix / file_path.parts on a Path-kinded variable; Path(x).suffix / Path(x).parts
            if isinstance(e.value, ast.Name) and self.kind(e.value) == "path":
                if e.attr == "suffix":
                    return f"(parts_suffix {self.expr(e.value)})"
                if e.attr == "parts":
                    return self.expr(e.value)
            if self._is_path_call(e.value):
                arg = self.expr(e.value.args[0])
                if e.attr == "suffix":
                    return f"(name_suffix {arg})"
                if e.attr == "parts":
                    return f"(path_parts {arg})"
            raise Unsupported(f"attribute {ast.unparse(e)}")
        if isinstance(e, ast.Subscript) and isinstance(e.slice, ast.Slice) and e.slice.step is None:
            lo, hi = e.slice.lower, e.slice.upper
            if lo is None and hi is not None and ast.unparse(hi) == "-1":          # xs[:-1]
                return f"(removelast {self.expr(e.value)})"
            if hi is None and isinstance(lo, ast.Constant) and isinstance(lo.value, int) and lo.value >= 0:   # s[k:]
                return f"(sdrop {lo.value} {self.expr(e.value)})"
            raise Unsupported(f"slice {ast.unparse(e)}")
        if isinstance(e, ast.Call):
            return self.call(e)
        if isinstance(e, ast.ListComp):
            return self.listcomp(e)
        raise Unsupported(f"expression {ast.unparse(e)[:60]}")

    @staticmethod
    def _is_path_call(e):
        return isinstance(e, ast.Call) and isinstance(e.func, ast.Name) and e.func.id == "Path" and len(e.args) == 1 and not e.keywords

    def call(self, e: ast.Call) -> str:
        if e.keywords:
            raise Unsupported("keyword arguments")
        f = e.func
        if isinstance(f, ast.Attribute) and isinstance(f.value, ast.Name) and f.value.id == "fnmatch" and f.attr == "fnmatch" and len(e.args) == 2:
            return f"(fnmatch {self.expr(e.args[0])} {self.expr(e.args[1])})"
        if isinstance(f, ast.Attribute):
            recv = self.expr(f.value)
            args = [self.expr(a) for a in e.args]
            table = {("endswith", 1): "ends_with", ("startswith", 1): "starts_with", ("rstrip", 1): "rstrip_chars", ("strip", 0): "strip_ws"}
            if (f.attr, len(args)) in table:
                return "(" + " ".join([table[(f.attr, len(args))], recv, *args]) + ")"
            raise Unsupported(f"method {f.attr}/{len(args)}")
        if isinstance(f, ast.Name):
            if f.id == "str" and len(e.args) == 1 and self._is_path_call(e.args[0]):
                return f"(path_norm {self.expr(e.args[0].args[0])})"
            if f.id in ("any", "all") and len(e.args) == 1 and isinstance(e.args[0], ast.GeneratorExp):
                g = e.args[0]
                if len(g.generators) != 1 or g.generators[0].ifs or not isinstance(g.generators[0].target, ast.Name):
                    raise Unsupported("generator shape")
                v = g.generators[0].target.id
                inner = Tr({**self.vars, v: (v, "str")})
                return f"({'existsb' if f.id == 'any' else 'forallb'} (fun {v} => {inner.cond(g.elt)}) {self.expr(g.generators[0].iter)})"
            if f.id in self.vars and self.vars[f.id][1] == "fn":
                return "(" + " ".join([self.vars[f.id][0], *[self.expr(a) for a in e.args]]) + ")"
            raise Unsupported(f"call {f.id}")
        raise Unsupported(f"call {ast.unparse(e)[:60]}")

    def listcomp(self, e: ast.ListComp) -> str:
        if len(e.generators) != 1 or not isinstance(e.generators[0].target, ast.Name):
            raise Unsupported("comprehension shape")
        g = e.generators[0]
        v = g.target.id
        inner = Tr({**self.vars, v: (v, "str")})
        src = self.expr(g.iter)
        for c in g.ifs:
            src = f"(filter (fun {v} => {inner.cond(c)}) {src})"
        if isinstance(e.elt, ast.Name) and e.elt.id == v:
            return src
        return f"(map (fun {v} => {inner.expr(e.elt)}) {src})"


def _body(f):
    b = list(f.body)
    if b and isinstance(b[0], ast.Expr) and isinstance(b[0].value, ast.Constant) and isinstance(b[0].value.value, str):
        b = b[1:]
    return b


def stmts(tr: Tr, body, kinds=None) -> str:
    """a straight-line body of  x = e | if c: return e | for v in e: (if c: return True)+ | return e"""
    kinds = kinds or {}
    if not body:
        raise Unsupported("function falls off its end")
    st, rest = body[0], body[1:]
    if isinstance(st, ast.Return):
        if rest or st.value is None:
            raise Unsupported("statements after return / bare return")
        return tr.cond(st.value) if _boolish(st.value) else tr.expr(st.value)
    if isinstance(st, ast.Assign) and len(st.targets) == 1 and isinstance(st.targets[0], ast.Name):
        n = st.targets[0].id
        k = kinds.get(n, "str")
        inner = Tr({**tr.vars, n: (n, k)})
        return f"(let {n} := {tr.expr(st.value)} in {stmts(inner, rest, kinds)})"
    if isinstance(st, ast.If) and not st.orelse and len(st.body) == 1 and isinstance(st.body[0], ast.Return) and st.body[0].value is not None:
        v = st.body[0].value
        return f"(if {tr.cond(st.test)} then {tr.cond(v) if _boolish(v) else tr.expr(v)} else {stmts(tr, rest, kinds)})"
    if isinstance(st, ast.For) and isinstance(st.target, ast.Name) and not st.orelse:
        return f"(if {for_any(tr, st)} then true else {stmts(tr, rest, kinds)})"
    raise Unsupported(f"statement {ast.unparse(st)[:60]}")


def _boolish(e):
    return isinstance(e, (ast.BoolOp, ast.Compare)) or (isinstance(e, ast.UnaryOp) and isinstance(e.op, ast.Not)) \
        or (isinstance(e, ast.Constant) and isinstance(e.value, bool))


def for_conds(tr: Tr, st: ast.For):
    v = st.target.id
    inner = Tr({**tr.vars, v: (v, "str")})
    conds = []
    for s in st.body:
        if isinstance(s, ast.If) and not s.orelse and len(s.body) == 1 and isinstance(s.body[0], ast.Return) \
                and isinstance(s.body[0].value, ast.Constant) and s.body[0].value.value is True:
            conds.append(inner.cond(s.test))
        else:
            raise Unsupported(f"loop body {ast.unparse(s)[:60]}")
    if not conds:
        raise Unsupported("empty loop")
    return v, conds


def for_any(tr: Tr, st: ast.For) -> str:
    v, conds = for_conds(tr, st)
    return f"(existsb (fun {v} => {' || '.join(conds)}) {tr.expr(st.iter)})"


TABLES = {"_HARDCODED_EXCLUDE_DIRS": ("excluded_dirs", "strlist"), "_HARDCODED_EXCLUDE_EXTENSIONS": ("excluded_exts", "strlist")}


# ------------------------------------------------------------------ items
def excluded_dirs():
    return defn("excluded_dirs", "list string", coq_str_list(str_elems(find_assign(parse(CORE), "_HARDCODED_EXCLUDE_DIRS"))))


def excluded_exts():
    return defn("excluded_exts", "list string", coq_str_list(str_elems(find_assign(parse(CORE), "_HARDCODED_EXCLUDE_EXTENSIONS"))))


def _params(f, expected):
    got = [a.arg for a in f.args.args]
    if got != expected or f.args.vararg or f.args.kwarg or f.args.kwonlyargs:
        raise Unsupported(f"{f.name}: parameters {got}")


def should_include_dir():
    f = find_func(parse(CORE), "_should_include_dir")
    _params(f, ["dirname"])
    tr = Tr({**TABLES, "dirname": ("dirname", "str")})
    return defn("should_include_dir (dirname : string)", "bool", stmts(tr, _body(f)))


def is_hardcoded_excluded():
    f = find_func(parse(CORE), "_is_hardcoded_excluded")
    _params(f, ["file_path"])
    tr = Tr({**TABLES, "file_path": ("file_path", "path")})
    body = _body(f)
    out = defn("is_hardcoded_excluded (file_path : list string)", "bool", stmts(tr, body))
    # the two ingredients, separately: the suffix test and the per-component test
    if len(body) != 3 or not isinstance(body[0], ast.If) or not isinstance(body[1], ast.For) or not isinstance(body[2], ast.Return):
        raise Unsupported("_is_hardcoded_excluded: expected `if suffix-test: return True; for part in parts: ...; return False`")
    if ast.unparse(body[1].iter) not in ("file_path.parts", "file_path.parts[:-1]"):
        raise Unsupported("_is_hardcoded_excluded: loop does not range over file_path.parts")
    v, conds = for_conds(tr, body[1])
    out += defn("hx_suffix_cond (file_path : list string)", "bool", tr.cond(body[0].test))
    out += defn(f"hx_part_cond ({v} : string)", "bool", " || ".join(conds))
    return out


def walk_items():
    mod = parse(CORE)
    f = find_func(mod, "_collect_files_from_walk")
    _params(f, ["root", "filenames"])
    rets = [n for n in ast.walk(f) if isinstance(n, ast.Return)]
    if len(rets) != 1 or not isinstance(rets[0].value, ast.ListComp):
        raise Unsupported("_collect_files_from_walk: return shape")
    lc = rets[0].value
    g = lc.generators[0]
    if ast.unparse(lc.elt) != "root_path / f" or ast.unparse(g.iter) != "filenames" or ast.unparse(g.target) != "f" or len(lc.generators) != 1:
        raise Unsupported("_collect_files_from_walk: comprehension shape")
    tr = Tr({**TABLES, "f": ("f", "str")})
    keep = " && ".join(tr.cond(c) for c in g.ifs) if g.ifs else "true"
    out = defn("walk_keeps_file (f : string)", "bool", keep)

    f = find_func(mod, "_collect_files_fast")
    _params(f, ["dir_path", "recursive"])
    body = _body(f)
    if len(body) != 3 or not isinstance(body[1], ast.For) or ast.unparse(body[1].iter) != "os.walk(dir_path)" \
            or ast.unparse(body[1].target) != "(root, dirs, filenames)" or ast.unparse(body[2]) != "return files":
        raise Unsupported("_collect_files_fast: loop shape")
    loop = body[1].body
    if len(loop) != 3:
        raise Unsupported("_collect_files_fast: loop body")
    prune, ext, brk = loop
    if not (isinstance(prune, ast.Assign) and ast.unparse(prune.targets[0]) == "dirs[:]" and isinstance(prune.value, ast.ListComp)):
        raise Unsupported("_collect_files_fast: pruning statement")
    pg = prune.value.generators[0]
    if ast.unparse(prune.value.elt) != "d" or ast.unparse(pg.iter) != "dirs" or ast.unparse(pg.target) != "d" or len(pg.ifs) != 1:
        raise Unsupported("_collect_files_fast: pruning comprehension")
    trd = Tr({**TABLES, "d": ("d", "str"), "_should_include_dir": ("should_include_dir", "fn")})
    out += defn("walk_prune_cond (d : string)", "bool", trd.cond(pg.ifs[0]))
    if ast.unparse(ext) != "files.extend(_collect_files_from_walk(root, filenames))":
        raise Unsupported("_collect_files_fast: extend statement")
    if not (isinstance(brk, ast.If) and not brk.orelse and len(brk.body) == 1 and isinstance(brk.body[0], ast.Break)):
        raise Unsupported("_collect_files_fast: break statement")
    trb = Tr({"recursive": ("recursive", "bool")})
    out += defn("walk_breaks (recursive : bool)", "bool", trb.cond(brk.test))
    return out


def lint_gates():
    cls = find_class(parse(CORE), "Orchestrator")
    f = find_func(cls, "lint_file")
    gates = []
    for st in _body(f):
        if isinstance(st, ast.If) and not st.orelse and len(st.body) == 1 and ast.unparse(st.body[0]) == "return []":
            t = ast.unparse(st.test)
            gates.append(GATE_EXPRS.get(t, "GOther"))
        else:
            break
    rest = [ast.unparse(s) for s in _body(f)[len(gates):]]
    expected_tail = ["language = detect_language(file_path)", "rules = self._get_rules_for_file(file_path, language)",
                     "metadata = {**self.config, '_project_root': self.project_root}",
                     "context = FileLintContext(file_path, language, metadata=metadata)", "return self._execute_rules(rules, context)"]
    if rest != expected_tail:
        raise Unsupported("lint_file: body after the gates changed")
    if "GHard" in gates:
        got = [ast.unparse(x) for x in _body(find_func(cls, "_path_inside_project"))]
        want = ["try:\n    return file_path.resolve().relative_to(self.project_root.resolve())\nexcept (ValueError, OSError):\n    return file_path"]
        if got != want:
            raise Unsupported("_path_inside_project: body changed")
    return defn("lint_gates", "list gate", "[" + "; ".join(gates) + "]")


def is_ignored():
    cls = find_class(parse(IGN), "IgnoreDirectiveParser")
    f = find_func(cls, "is_ignored")
    hits = [n for n in ast.walk(f) if isinstance(n, ast.Assign) and ast.unparse(n.targets[0]) == "result"]
    if len(hits) != 1:
        raise Unsupported("is_ignored: result assignment")
    tr = Tr({"check_path": ("check_path", "str"), "matches_pattern": ("matches_pattern", "fn")})
    val = hits[0].value
    # self.repo_patterns -> repo_patterns
    src = ast.unparse(val).replace("self.repo_patterns", "repo_patterns")
    tr.vars["repo_patterns"] = ("repo_patterns", "strlist")
    val2 = ast.parse(src, mode="eval").body
    uses = ast.unparse(f)
    if "check_path = str(file_path.relative_to(self.project_root))" not in uses:
        raise Unsupported("is_ignored: check_path computation changed")
    if "check_path = path_str" in uses:
        rerooted = "false"          # a path that is not below the (absolute) project root is matched as it was given
    elif "check_path = self._reroot(file_path, path_str)" in uses:
        got = [ast.unparse(x) for x in _body(find_func(cls, "_reroot"))]
        want = ["try:\n    return str(file_path.resolve().relative_to(self.project_root.resolve()))\nexcept (ValueError, OSError):\n    return path_str"]
        if got != want:
            raise Unsupported("_reroot: body changed")
        rerooted = "true"           # proposed_fixes/C14-ignore-reroot.diff: resolved and re-rooted at the project first
    else:
        raise Unsupported("is_ignored: check_path computation changed")
    return defn("ignore_rerooted", "bool", rerooted) + defn("is_ignored_core (matches_pattern : string -> string -> bool) (check_path : string) (repo_patterns : list string)", "bool", tr.cond(val2))


def matches_pattern():
    mod = parse(PU)
    f = find_func(mod, "matches_pattern")
    _params(f, ["path", "pattern"])
    # a recursive call is a call of the parameter `self_call` (the model ties the knot with fuel = length of the pattern)
    tr = Tr({"path": ("path", "str"), "pattern": ("pattern", "str"), "_matches_directory_pattern": ("matches_directory_pattern", "fn"),
             "matches_pattern": ("self_call", "fn")})
    out = defn("matches_pattern_gen (self_call : string -> string -> bool) (fnmatch : string -> string -> bool) (matches_directory_pattern : string -> string -> bool) (path pattern : string)",
               "bool", stmts(tr, _body(f)))
    f = find_func(mod, "_matches_directory_pattern")
    _params(f, ["path", "pattern"])
    tr = Tr({"path": ("path", "str"), "pattern": ("pattern", "str")})
    out += defn("matches_directory_pattern_gen (fnmatch : string -> string -> bool) (path pattern : string)", "bool",
                stmts(tr, _body(f), kinds={"path_parts": "strlist", "dir_pattern": "str"}))
    return out


def extract_patterns():
    f = find_func(parse(PU), "extract_patterns_from_content")
    _params(f, ["content"])
    body = _body(f)
    if len(body) != 2 or not isinstance(body[0], ast.Assign):
        raise Unsupported("extract_patterns_from_content: shape")
    # content.splitlines() is the abstract input (the list of physical lines)
    src = ast.unparse(body[0].value)
    if "content.splitlines()" not in src:
        raise Unsupported("extract_patterns_from_content: does not iterate over content.splitlines()")
    val = ast.parse(src.replace("content.splitlines()", "content_lines"), mode="eval").body
    tr = Tr({"content_lines": ("content_lines", "strlist")})
    lines = tr.expr(val)
    tr2 = Tr({"lines": ("lines", "strlist")})
    return defn("extract_patterns_gen (content_lines : list string)", "list string", f"(let lines := {lines} in {stmts(tr2, body[1:])})")


def repo_ignore_sources():
    """_load_repo_ignores.  Repaired shape: the patterns of .thailintignore plus the `ignore` list of the first existing config file
    of a tuple of names.  Earlier shape: .thailintignore if it exists, else the list of .thailint.yaml, else nothing."""
    mod = parse(IGN)
    f = find_func(mod, "_load_repo_ignores")
    b = _body(f)
    got = [ast.unparse(x) for x in b]
    if (len(got) == 5 and got[0] == "patterns: list[str] = []" and got[1].startswith("thailintignore = project_root / ")
            and got[2] == "if thailintignore.exists():\n    patterns.extend(_parse_thailintignore_file(thailintignore))"
            and isinstance(b[3], ast.For) and ast.unparse(b[3].target) == "name" and not b[3].orelse
            and [ast.unparse(x) for x in b[3].body] == ["config_file = project_root / name",
                                                         "if config_file.exists():\n    patterns.extend(_parse_config_file(config_file))\n    break"]
            and got[4] == "return patterns"):
        n1 = const_value(b[1].value.right)
        names = str_elems(b[3].iter)
        combines = "true"
    elif (len(got) == 5 and got[0].startswith("thailintignore = project_root / ")
            and got[1] == "if thailintignore.exists():\n    return _parse_thailintignore_file(thailintignore)"
            and got[2].startswith("config_file = project_root / ") and got[3] == "if config_file.exists():\n    return _parse_config_file(config_file)"
            and got[4] == "return []"):
        n1 = const_value(b[0].value.right)
        names = [const_value(b[2].value.right)]
        combines = "false"
    else:
        raise Unsupported("_load_repo_ignores: structure changed")
    g = find_func(mod, "_extract_ignore_patterns")
    gets = [n for n in ast.walk(g) if isinstance(n, ast.Call) and isinstance(n.func, ast.Attribute) and n.func.attr == "get"]
    if len(gets) != 1 or ast.unparse(gets[0].args[1]) != "[]":
        raise Unsupported("_extract_ignore_patterns: key lookup")
    key = const_value(gets[0].args[0])
    p = find_func(mod, "_parse_thailintignore_file")
    if "return extract_patterns_from_content(content)" not in ast.unparse(p):
        raise Unsupported("_parse_thailintignore_file: does not use extract_patterns_from_content")
    pc = ast.unparse(find_func(mod, "_parse_config_file"))
    if "config = yaml.safe_load(config_file.read_text(encoding='utf-8'))" not in pc or "return _extract_ignore_patterns(config)" not in pc:
        raise Unsupported("_parse_config_file changed")
    return (defn("thailintignore_name", "string", coq_string(n1)) + defn("ignore_config_names", "list string", coq_str_list(names))
            + defn("load_combines_sources", "bool", combines) + defn("ignore_config_key", "string", coq_string(key)))


def cli_paths():
    """separate_files_and_dirs + execute_linting_on_paths: files through lint_files, every directory through lint_directory"""
    mod = parse(CLI)
    f = find_func(mod, "separate_files_and_dirs")
    got = [ast.unparse(s) for s in _body(f)]
    if got != ["files = [p for p in path_objs if p.is_file()]", "dirs = [p for p in path_objs if p.is_dir()]", "return (files, dirs)"]:
        raise Unsupported("separate_files_and_dirs changed")
    g = ast.unparse(find_func(mod, "execute_linting_on_paths"))
    for needle in ["files, dirs = separate_files_and_dirs(path_objs)", "violations.extend(orchestrator.lint_files(files))",
                   "for dir_path in dirs:", "violations.extend(orchestrator.lint_directory(dir_path, recursive=recursive))"]:
        if needle not in g:
            raise Unsupported(f"execute_linting_on_paths: missing `{needle}`")
    cls = find_class(parse(CORE), "Orchestrator")
    d = ast.unparse(find_func(cls, "lint_directory"))
    for needle in ["file_paths = _collect_files_fast(dir_path, recursive)", "for file_path in file_paths:\n        violations.extend(self.lint_file(file_path))"]:
        if needle not in d:
            raise Unsupported(f"lint_directory: missing `{needle}`")
    lf = ast.unparse(find_func(cls, "lint_files"))
    if "for file_path in file_paths:\n        violations.extend(self.lint_file(file_path))" not in lf:
        raise Unsupported("lint_files: does not call lint_file per path")
    return defn("cli_paths_shape_checked", "bool", "true")


def collect_call_args():
    """which `recursive` value lint_directory / lint_directory_parallel hand to _collect_files_fast (absent => the parameter's default),
    and that the parallel path runs lint_file per collected path (in the worker or in the sequential fallback)"""
    mod = parse(CORE)
    cls = find_class(mod, "Orchestrator")
    cf = find_func(mod, "_collect_files_fast")
    _params(cf, ["dir_path", "recursive"])
    if len(cf.args.defaults) != 1:
        raise Unsupported("_collect_files_fast: defaults changed")
    default = const_value(cf.args.defaults[0])
    if not isinstance(default, bool):
        raise Unsupported("_collect_files_fast: default of recursive is not a bool")
    out = ""
    for coq_name, fn in (("seq_collect_recursive", "lint_directory"), ("par_collect_recursive", "lint_directory_parallel")):
        f = find_func(cls, fn)
        if [a.arg for a in f.args.args][:3] != ["self", "dir_path", "recursive"]:
            raise Unsupported(f"{fn}: parameters changed")
        calls = [n for n in ast.walk(f) if isinstance(n, ast.Call) and isinstance(n.func, ast.Name) and n.func.id == "_collect_files_fast"]
        if len(calls) != 1 or not calls[0].args or ast.unparse(calls[0].args[0]) != "dir_path":
            raise Unsupported(f"{fn}: call of _collect_files_fast")
        c = calls[0]
        arg = c.args[1] if len(c.args) > 1 else next((k.value for k in c.keywords if k.arg == "recursive"), None)
        if len(c.args) > 2 or any(k.arg != "recursive" for k in c.keywords):
            raise Unsupported(f"{fn}: unexpected arguments to _collect_files_fast")
        tr = Tr({"recursive": ("recursive", "bool")})
        body = ("true" if default else "false") if arg is None else tr.cond(arg)
        out += defn(f"{coq_name} (recursive : bool)", "bool", body)
    par = ast.unparse(find_func(cls, "lint_directory_parallel"))
    if "return self.lint_files_parallel(file_paths, max_workers=max_workers)" not in par:
        raise Unsupported("lint_directory_parallel: does not hand the collected paths to lint_files_parallel")
    lfp = ast.unparse(find_func(cls, "lint_files_parallel"))
    for needle in ["return self.lint_files(file_paths)", "violations = self._execute_parallel_linting(file_paths, effective_workers)"]:
        if needle not in lfp:
            raise Unsupported(f"lint_files_parallel: missing `{needle}`")
    ex = ast.unparse(find_func(cls, "_execute_parallel_linting"))
    if "work_items = [(fp, self.project_root, self.config) for fp in file_paths]" not in ex or "executor.submit(_lint_file_worker, item)" not in ex:
        raise Unsupported("_execute_parallel_linting: work items changed")
    w = ast.unparse(find_func(mod, "_lint_file_worker"))
    if "orchestrator = Orchestrator(project_root=project_root, config=config)" not in w or "violations = orchestrator.lint_file(file_path)" not in w:
        raise Unsupported("_lint_file_worker: does not run lint_file")
    return out


GATE_EXPRS = {"_is_hardcoded_excluded(self._path_inside_project(file_path))": "GHard",      # decided on the project-relative path
              "_is_hardcoded_excluded(file_path)": "GHardAbs",                                 # decided on the path as given (absolute: parents included)
              "self.ignore_parser.is_ignored(file_path)": "GIgnored"}


def par_evidence_gates():
    """lint_files_parallel: after the workers, the parent feeds every collected file to the cross-file rules (those with their own
    finalize) -- except the files that these gates stop (`if <gate> or <gate>: continue`)"""
    cls = find_class(parse(CORE), "Orchestrator")
    lfp = [ast.unparse(x) for x in _body(find_func(cls, "lint_files_parallel"))]
    want_tail = ["violations = self._execute_parallel_linting(file_paths, effective_workers)", "self._collect_cross_file_evidence(file_paths)",
                 "violations.extend(self._finalize_rules())", "return violations"]
    if lfp[-4:] != want_tail:
        raise Unsupported("lint_files_parallel: tail changed")
    f = find_func(cls, "_collect_cross_file_evidence")
    _params(f, ["self", "file_paths"])
    loops = [st for st in _body(f) if isinstance(st, ast.For)]
    if len(loops) != 1 or ast.unparse(loops[0].target) != "file_path" or ast.unparse(loops[0].iter) != "file_paths" or loops[0].orelse:
        raise Unsupported("_collect_cross_file_evidence: loop")
    body = loops[0].body
    gates = []
    if body and isinstance(body[0], ast.If) and not body[0].orelse and [ast.unparse(x) for x in body[0].body] == ["continue"]:
        t = body[0].test
        parts = t.values if isinstance(t, ast.BoolOp) and isinstance(t.op, ast.Or) else [t]
        gates = [GATE_EXPRS.get(ast.unparse(x), "GOther") for x in parts]
        body = body[1:]
    rest = [ast.unparse(x) for x in body]
    if rest != ["metadata = {**self.config, '_project_root': self.project_root}",
                "context = FileLintContext(file_path, detect_language(file_path), metadata=metadata)", "self._execute_rules(rules, context)"]:
        raise Unsupported("_collect_cross_file_evidence: loop body changed")
    return defn("par_evidence_gates", "list gate", "[" + "; ".join(gates) + "]")


def ignore_cache():
    """the memo of IgnoreDirectiveParser.is_ignored (Model/CollectCache.v): created per parser instance in __init__, looked up and
    filled under the same key, the key is the string of the path object that is also the source of check_path"""
    cls = find_class(parse(IGN), "IgnoreDirectiveParser")
    for st in cls.body:
        names = [ast.unparse(t) for t in st.targets] if isinstance(st, ast.Assign) else [ast.unparse(st.target)] if isinstance(st, ast.AnnAssign) else []
        if "_ignore_cache" in names:
            raise Unsupported("IgnoreDirectiveParser._ignore_cache is a class attribute (shared by all parsers)")
    init = [ast.unparse(x) for x in _body(find_func(cls, "__init__"))]
    if init.count("self._ignore_cache: dict[str, bool] = {}") != 1:
        raise Unsupported("__init__: the memo is not created empty per instance")
    if [x for x in init if "repo_patterns" in x] != ["self.repo_patterns = _load_repo_ignores(self.project_root)"]:
        raise Unsupported("__init__: repo_patterns")
    f = find_func(cls, "is_ignored")
    _params(f, ["self", "file_path"])
    b = [ast.unparse(x) for x in _body(f)]
    if len(b) != 6 or b[0] != "path_str = str(file_path)" or b[1] != "with suppress(KeyError):\n    return self._ignore_cache[path_str]" \
            or not b[2].startswith("try:\n    check_path = str(file_path.relative_to(self.project_root))\nexcept ValueError:\n    check_path = ") \
            or not b[3].startswith("result = ") or b[4] != "self._ignore_cache[path_str] = result" or b[5] != "return result":
        raise Unsupported("is_ignored: memo handling changed")
    others = [n for n in ast.walk(parse(IGN)) if isinstance(n, ast.Attribute) and n.attr == "_ignore_cache"]
    if len(others) != 3:
        raise Unsupported("_ignore_cache is used outside __init__ / is_ignored")
    return defn("ignore_cache_per_instance", "bool", "true") + defn("ignore_cache_keyed_by_path_str", "bool", "true")


FNMATCH_TRANSLATE_SHA256 = "495fad79cb938c4aba4f4e8dd9f971ce69a602eb8c29097a31f4036dbf1a543a"     # CPython 3.12 fnmatch.translate (ast.dump)


def fnmatch_translate():
    """The interpreter's own fnmatch (library oracle; Model/Glob.v transcribes how fnmatch.translate cuts a bracket expression into
    chunks and removes empty ranges).  Fail closed when fnmatch.fnmatch no longer runs through the transcribed translate() or when
    that function is not the one that was transcribed; the offsets of the hyphen search are generated from its text."""
    import fnmatch
    import hashlib
    import inspect
    import textwrap

    def body_of(fn):
        t = ast.parse(textwrap.dedent(inspect.getsource(getattr(fn, "__wrapped__", fn)))).body[0]
        return t, [ast.unparse(x) for x in _body(t)]
    want = {"fnmatch": ["name = os.path.normcase(name)", "pat = os.path.normcase(pat)", "return fnmatchcase(name, pat)"],
            "fnmatchcase": ["match = _compile_pattern(pat)", "return match(name) is not None"]}
    for name, lines in want.items():
        if body_of(getattr(fnmatch, name))[1] != lines:
            raise Unsupported(f"fnmatch.{name}: body changed")
    cp = body_of(fnmatch._compile_pattern)[1]
    if len(cp) != 2 or not cp[0].endswith("else:\n    res = translate(pat)") or cp[1] != "return re.compile(res).match":
        raise Unsupported("fnmatch._compile_pattern: body changed")
    tr, _ = body_of(fnmatch.translate)
    if hashlib.sha256(ast.dump(tr).encode()).hexdigest() != FNMATCH_TRANSLATE_SHA256:
        raise Unsupported("fnmatch.translate is not the function transcribed in Model/Glob.v (re-validate the model against this Python version)")
    branch = [n for n in ast.walk(tr) if isinstance(n, ast.If) and ast.unparse(n.test) == "c == '['"]
    if len(branch) != 1:
        raise Unsupported("fnmatch.translate: bracket branch")
    assigns = [n for n in ast.walk(branch[0]) if isinstance(n, ast.Assign) and ast.unparse(n.targets[0]) in ("i", "k")]
    texts = [ast.unparse(n) for n in assigns]
    if texts != ["i = j + 1", "k = i + 2 if pat[i] == '!' else i + 1", "k = pat.find('-', k, j)", "i = k + 1", "k = k + 3"]:
        raise Unsupported("fnmatch.translate: hyphen search changed")
    first = assigns[1].value
    off_neg, off_pos = const_value(first.body.right), const_value(first.orelse.right)
    step_i, step_k = const_value(assigns[3].value.right), const_value(assigns[4].value.right)
    if not all(isinstance(x, int) for x in (off_neg, off_pos, step_i, step_k)) or step_k < step_i:
        raise Unsupported("fnmatch.translate: offsets")
    return (defn("fnm_first_off_negated", "nat", str(off_neg)) + defn("fnm_first_off", "nat", str(off_pos))
            + defn("fnm_next_off", "nat", str(step_k - step_i)))


ITEMS = [
    ("fnmatch_translate", fnmatch_translate),
    ("excluded_dirs", excluded_dirs),
    ("excluded_exts", excluded_exts),
    ("should_include_dir", should_include_dir),
    ("is_hardcoded_excluded", is_hardcoded_excluded),
    ("walk_items", walk_items),
    ("lint_gates", lint_gates),
    ("is_ignored_core", is_ignored),
    ("ignore_cache", ignore_cache),
    ("par_evidence_gates", par_evidence_gates),
    ("matches_pattern", matches_pattern),
    ("extract_patterns", extract_patterns),
    ("repo_ignore_sources", repo_ignore_sources),
    ("cli_paths", cli_paths),
    ("collect_call_args", collect_call_args),
]
