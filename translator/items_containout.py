"""Generated layer for the OUTPUT STAGE of a linter command (C11): what happens to the fields of a Violation between the end of
linting and the exit status.

The output stage (format_violations + sys.exit(1 if violations else 0)) runs inside run_linter_command's `try`, but OUTSIDE the
per-rule safety net (_safe_check_rule): an exception there is `Error during linting` / exit 2 and loses every result of the run.
Model/ContainOut.v models it from these items:

  output_uses          per --format, every use of a Violation field in the formatter functions, classified by its syntactic context:
                       passed on as a JSON value, formatted into text / tested for truth, str(x), _sanitize_string(x) (x.encode),
                       a string method, `.name` of the enum member, `x + <int>`; any other context fails closed
  output_dispatch      the shape of format_violations (which format name reaches which formatter; the fallback)
  output_exit_sites    every call of format_violations in src/cli/linters: is it directly followed by sys.exit(1 if <same list> else 0)?
  syntax_error_fields  every use of a position attribute (lineno, offset, end_lineno, end_offset) of a caught SyntaxError in the linters
                       (these are None for errors without a position, e.g. a source containing a NUL byte): defaulted with `or <int>`?
"""
import ast

from translator.lib import REPO, Unsupported, coq_list, coq_string, defn, find_class, find_func, parse

GEN_FILE = "ContainOutGen"
HEADER = "From TL Require Import Lib.Base Model.ContainTypes."
SERVES = ["C11"]
CLI = "src/core/cli_utils.py"
SARIF = "src/formatters/sarif.py"
FINGERPRINTS = [
    (CLI, ["format_violations", "_output_json", "_output_sarif", "_output_text", "_print_violation", "_sanitize_string"]),
    (SARIF, ["format", "_create_run", "_create_tool", "_create_rules", "_create_rule", "_create_result", "_create_location"]),
    ("src/core/types.py", ["Violation"]),
]
FIELDS = ["rule_id", "file_path", "line", "column", "message", "severity", "suggestion"]
VARS = {"v", "violation"}


def _parents(fn):
    par = {}
    for n in ast.walk(fn):
        for c in ast.iter_child_nodes(n):
            par[c] = n
    return par


def _classify(node, par) -> str:
    """node = Attribute(Name v, field); -> Coq term of type uop"""
    p = par.get(node)
    if isinstance(p, ast.Attribute) and p.value is node:
        gp = par.get(p)
        if isinstance(gp, ast.Call) and gp.func is p:
            return "UStrMethod" if p.attr in ("split", "encode", "startswith", "strip", "lower", "upper", "replace") else _bad(node, p)
        if p.attr == "name":
            return "UEnumName"
        return _bad(node, p)
    if isinstance(p, ast.Call) and node in p.args:
        f = ast.unparse(p.func)
        if f == "str" and len(p.args) == 1:
            return "UStr"
        if f == "_sanitize_string" and len(p.args) == 1:
            return "USanitize"
        if f.endswith(".add") and len(p.args) == 1:
            return "UAsIs"            # seen_rule_ids.add(x): hashing
        return _bad(node, p)
    if isinstance(p, ast.BinOp) and isinstance(p.op, ast.Add) and p.left is node and isinstance(p.right, ast.Constant) \
            and isinstance(p.right.value, int) and not isinstance(p.right.value, bool):
        return f"(UAddInt {p.right.value})" if p.right.value >= 0 else _bad(node, p)
    if isinstance(p, ast.Dict) and node in p.values:
        return "UJson"
    if isinstance(p, ast.FormattedValue) and p.value is node and p.format_spec is None and p.conversion == -1:
        return "UAsIs"
    if isinstance(p, (ast.If, ast.IfExp)) and p.test is node:
        return "UAsIs"
    if isinstance(p, ast.IfExp) and (p.body is node or p.orelse is node):
        # `t = a if c else x.f` where t is only ever a dictionary key (`d.get(t, ...)`): hashing
        gp = par.get(p)
        if isinstance(gp, ast.Assign) and len(gp.targets) == 1 and isinstance(gp.targets[0], ast.Name):
            t = gp.targets[0].id
            fn = gp
            while fn in par:
                fn = par[fn]
            loads = [n for n in ast.walk(fn) if isinstance(n, ast.Name) and n.id == t and isinstance(n.ctx, ast.Load)]
            if loads and all(isinstance(par.get(n), ast.Call) and par[n].args and par[n].args[0] is n and isinstance(par[n].func, ast.Attribute)
                             and par[n].func.attr == "get" for n in loads):
                return "UAsIs"
        return _bad(node, p)
    if isinstance(p, ast.Compare) and (p.left is node or node in p.comparators) and all(isinstance(o, (ast.In, ast.NotIn)) for o in p.ops):
        return "UAsIs"
    return _bad(node, p)


def _bad(node, p):
    raise Unsupported(f"use of {ast.unparse(node)} in an unclassified context: {ast.unparse(p)[:70]}")


def _uses(fns) -> list[str]:
    out = []
    for fn in fns:
        par = _parents(fn)
        hits = [n for n in ast.walk(fn) if isinstance(n, ast.Attribute) and isinstance(n.value, ast.Name) and n.value.id in VARS]
        for n in sorted(hits, key=lambda n: (n.lineno, n.col_offset)):
            if n.attr not in FIELDS:
                raise Unsupported(f"{fn.name}: unknown Violation attribute {n.attr}")
            out.append(f"({coq_string(n.attr)}, {_classify(n, par)})")
    return out


def _called_self_methods(cls, start: str) -> list[ast.FunctionDef]:
    """methods of the class reachable from `start` through self.<m>(...) calls"""
    seen, todo = [], [start]
    while todo:
        name = todo.pop(0)
        if name in seen:
            continue
        seen.append(name)
        fn = find_func(cls, name)
        for c in ast.walk(fn):
            if isinstance(c, ast.Call) and isinstance(c.func, ast.Attribute) and isinstance(c.func.value, ast.Name) and c.func.value.id == "self":
                todo.append(c.func.attr)
    return [find_func(cls, n) for n in seen]


def output_uses():
    mod = parse(CLI)
    js = find_func(mod, "_output_json")
    # the JSON document must go through json.dumps as a whole
    if not any(isinstance(c, ast.Call) and ast.unparse(c.func) == "json.dumps" for c in ast.walk(js)):
        raise Unsupported("_output_json: json.dumps")
    tx = find_func(mod, "_output_text")
    calls = [ast.unparse(c.func) for c in ast.walk(tx) if isinstance(c, ast.Call)]
    if "_print_violation" not in calls:
        raise Unsupported("_output_text no longer calls _print_violation")
    pv = find_func(mod, "_print_violation")
    sf = find_func(mod, "_output_sarif")
    src = [ast.unparse(s) for s in sf.body if not (isinstance(s, ast.Expr) and isinstance(s.value, ast.Constant))]
    if src != ["from src.formatters.sarif import SarifFormatter", "formatter = SarifFormatter()", "sarif_doc = formatter.format(violations)",
               "click.echo(json.dumps(sarif_doc, indent=2))"]:
        raise Unsupported("_output_sarif shape: " + " ; ".join(src)[:120])
    cls = find_class(parse(SARIF), "SarifFormatter")
    sar = _called_self_methods(cls, "format")
    # _sanitize_string is x.encode(...).decode(...): a str method on its argument
    san = find_func(mod, "_sanitize_string")
    body = [s for s in san.body if not (isinstance(s, ast.Expr) and isinstance(s.value, ast.Constant))]
    if len(body) != 1 or not isinstance(body[0], ast.Return) or not ast.unparse(body[0].value).startswith("text.encode("):
        raise Unsupported("_sanitize_string shape")
    rows = [("json", _uses([js])), ("sarif", _uses(sar)), ("text", _uses([tx, pv]))]
    return defn("output_uses", "list (string * list (string * uop))",
                coq_list([f"({coq_string(k)}, {coq_list(v)})" for k, v in rows]))


def output_dispatch():
    """if output_format == A: fa(violations) elif output_format == B: fb(violations) else: fc(violations)"""
    fn = find_func(parse(CLI), "format_violations")
    body = [s for s in fn.body if not (isinstance(s, ast.Expr) and isinstance(s.value, ast.Constant))]
    if len(body) != 1 or not isinstance(body[0], ast.If):
        raise Unsupported("shape")
    rows, node = [], body[0]
    while True:
        t = node.test
        if not (isinstance(t, ast.Compare) and len(t.ops) == 1 and isinstance(t.ops[0], ast.Eq) and ast.unparse(t.left) == "output_format"
                and isinstance(t.comparators[0], ast.Constant) and isinstance(t.comparators[0].value, str)):
            raise Unsupported("test shape: " + ast.unparse(t)[:60])
        if len(node.body) != 1 or not isinstance(node.body[0], ast.Expr) or not isinstance(node.body[0].value, ast.Call):
            raise Unsupported("branch shape")
        rows.append((t.comparators[0].value, ast.unparse(node.body[0].value)))
        if len(node.orelse) == 1 and isinstance(node.orelse[0], ast.If):
            node = node.orelse[0]
            continue
        if len(node.orelse) != 1 or not isinstance(node.orelse[0], ast.Expr):
            raise Unsupported("else shape")
        default = ast.unparse(node.orelse[0].value)
        break
    want = {"_output_json(violations)": "json", "_output_sarif(violations)": "sarif", "_output_text(violations)": "text"}
    if any(c not in want for _, c in rows) or default not in want:
        raise Unsupported("unknown formatter call")
    return (defn("output_dispatch", "list (string * string)", coq_list([f"({coq_string(k)}, {coq_string(want[c])})" for k, c in rows]))
            + defn("output_default", "string", coq_string(want[default])))


def output_exit_sites():
    rows = []
    files = sorted((REPO / "src" / "cli" / "linters").glob("*.py"))
    for p in files:
        rel = str(p.relative_to(REPO))
        for fn in [n for n in ast.walk(parse(rel)) if isinstance(n, (ast.FunctionDef, ast.AsyncFunctionDef))]:
            for blk in [n for n in ast.walk(fn) if hasattr(n, "body") and isinstance(getattr(n, "body"), list)]:
                stmts = blk.body
                for i, st in enumerate(stmts):
                    if isinstance(st, ast.Expr) and isinstance(st.value, ast.Call) and ast.unparse(st.value.func) == "format_violations":
                        if blk is not fn and not isinstance(blk, ast.FunctionDef):
                            raise Unsupported(f"{rel}:{fn.name}: format_violations inside a nested block")
                        arg = ast.unparse(st.value.args[0]) if st.value.args else "?"
                        nxt = ast.unparse(stmts[i + 1]) if i + 1 < len(stmts) else ""
                        rows.append((f"{p.stem}:{fn.name}", nxt == f"sys.exit(1 if {arg} else 0)"))
    if len(rows) < 15:
        raise Unsupported(f"only {len(rows)} format_violations call sites found")
    return defn("output_exit_sites", "list (string * bool)", coq_list([f"({coq_string(k)}, {'true' if ok else 'false'})" for k, ok in rows]))


POS_ATTRS = {"lineno", "offset", "end_lineno", "end_offset"}


def _syntax_error_names(fn):
    """names bound to a SyntaxError inside fn: `except SyntaxError as e` (also in a tuple) and parameters annotated SyntaxError"""
    names = set()
    for a in fn.args.args + fn.args.kwonlyargs + fn.args.posonlyargs:
        if a.annotation is not None and "SyntaxError" in ast.unparse(a.annotation):
            names.add(a.arg)
    for h in ast.walk(fn):
        if isinstance(h, ast.ExceptHandler) and h.name and h.type is not None and "SyntaxError" in ast.unparse(h.type):
            names.add(h.name)
    return names


def syntax_error_fields():
    rows = []
    src = REPO / "src"
    files = sorted(list((src / "linters").rglob("*.py")) + list((src / "analyzers").rglob("*.py")) + [src / "core" / "linter_utils.py"])
    if len(files) < 50:
        raise Unsupported(f"only {len(files)} source files found")
    for p in files:
        rel = str(p.relative_to(REPO))
        for fn in [n for n in ast.walk(parse(rel)) if isinstance(n, (ast.FunctionDef, ast.AsyncFunctionDef))]:
            names = _syntax_error_names(fn)
            if not names:
                continue
            par = _parents(fn)
            for n in ast.walk(fn):
                if isinstance(n, ast.Attribute) and isinstance(n.value, ast.Name) and n.value.id in names and n.attr in POS_ATTRS:
                    q = par.get(n)
                    ok = (isinstance(q, ast.BoolOp) and isinstance(q.op, ast.Or) and q.values[0] is n and len(q.values) == 2
                          and isinstance(q.values[1], ast.Constant) and isinstance(q.values[1].value, int) and not isinstance(q.values[1].value, bool))
                    # formatting it into a message is harmless
                    ok = ok or isinstance(q, ast.FormattedValue)
                    rows.append((f"{rel.removeprefix('src/')}:{fn.name}:{n.value.id}.{n.attr}", ok))
    if not rows:
        raise Unsupported("no use of a SyntaxError position attribute found (the census looks at the wrong places)")
    rows = sorted(set(rows))
    return defn("syntax_error_fields", "list (string * bool)", coq_list([f"({coq_string(k)}, {'true' if ok else 'false'})" for k, ok in rows]))


ITEMS = [
    ("output_uses", output_uses),
    ("output_dispatch", output_dispatch),
    ("output_exit_sites", output_exit_sites),
    ("syntax_error_fields", syntax_error_fields),
]
