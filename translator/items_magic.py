"""Generated layer for the magic-numbers linter (C02): every literal of the anchored sources the model reads."""
import ast
from decimal import Decimal

from translator.lib import (CMP, Unsupported, cmp_op, coq_list, coq_str_list, coq_string, const_value, defn, find_assign,
                            find_class, find_func, fstring_parts, parse, str_elems)

GEN_FILE = "MagicGen"
HEADER = "From Coq Require Import ZArith.\nFrom TL Require Import Lib.Base Lib.GenTypes."
SERVES = ["C02"]
D = "src/linters/magic_numbers/"
FINGERPRINTS = [
    (D + "linter.py", ["_check_python", "_check_typescript", "_check_rust", "_should_flag_number", "_try_create_violation",
                       "_should_flag_typescript_number", "_is_typescript_allowed_context", "_is_typescript_special_context",
                       "_is_test_file", "_try_create_rust_violation", "_load_config", "_try_load_production_config"]),
    (D + "python_analyzer.py", ["PythonMagicNumberAnalyzer"]),
    (D + "context_analyzer.py", ["is_acceptable_context", "_is_acceptable_usage_pattern", "is_test_file", "is_constant_definition",
                                 "_is_assignment_node", "_has_constant_target", "_is_constant_name", "is_small_integer_in_range",
                                 "is_small_integer_in_enumerate", "_is_in_range_call", "_is_in_enumerate_call",
                                 "is_string_repetition", "_has_string_operand", "_is_string_constant"]),
    (D + "typescript_analyzer.py", ["TypeScriptMagicNumberAnalyzer"]),
    (D + "rust_analyzer.py", ["RustMagicNumberAnalyzer"]),
    (D + "definition_detector.py", ["is_definition_file", "_matches_definition_filename", "_has_definition_content_patterns",
                                    "_count_uppercase_constants", "_count_numeric_constant_targets", "_is_numeric_constant",
                                    "_is_uppercase_name_target", "_is_constant_name", "_has_dict_with_int_keys",
                                    "_has_enough_int_keys", "_count_int_keys", "_is_int_key"]),
    (D + "config.py", ["MagicNumberConfig"]),
    (D + "violation_builder.py", ["ViolationBuilder"]),
    (D + "typescript_ignore_checker.py", ["TypeScriptIgnoreChecker"]),
    ("src/analyzers/rust_context.py", ["has_test_attribute", "has_cfg_test_attribute", "is_inside_test", "_is_test_context"]),
    ("src/analyzers/ast_utils.py", ["build_parent_map", "_build_parent_map_recursive"]),
]


def zlit(n: int) -> str:
    return f"({n})%Z"


def num_of(v) -> str:
    """exact decimal (mantissa, exponent) of an int / float constant of the source"""
    if isinstance(v, bool) or not isinstance(v, (int, float)):
        raise Unsupported(f"not a number: {v!r}")
    if isinstance(v, int):
        return f"({zlit(v)}, {zlit(0)})"
    d = Decimal(repr(v))
    if not d.is_finite():
        raise Unsupported("non-finite float")
    sign, digits, exp = d.as_tuple()
    m = int("".join(map(str, digits))) * (-1 if sign else 1)
    return f"({zlit(m)}, {zlit(exp)})"


def _calls(scope, pred):
    return [n for n in ast.walk(scope) if isinstance(n, ast.Call) and pred(n)]


def _is_method(n: ast.Call, name: str) -> bool:
    return isinstance(n.func, ast.Attribute) and n.func.attr == name


# ------------------------------------------------------------------ config.py
def default_allowed():
    v = find_assign(parse(D + "config.py"), "DEFAULT_ALLOWED_NUMBERS")
    if not isinstance(v, ast.Set):
        raise Unsupported("DEFAULT_ALLOWED_NUMBERS is not a set literal")
    return defn("default_allowed_numbers", "list (Z * Z)", coq_list([num_of(const_value(e)) for e in v.elts]))


def allowed_fallbacks():
    """every `.get("allowed_numbers", X)` in from_dict must fall back to DEFAULT_ALLOWED_NUMBERS (possibly through the
    top-level config.get), and the dataclass default must copy it"""
    cls = find_class(parse(D + "config.py"), "MagicNumberConfig")
    f = find_func(cls, "from_dict")
    gets = _calls(f, lambda n: _is_method(n, "get") and n.args and isinstance(n.args[0], ast.Constant) and n.args[0].value == "allowed_numbers")
    if not gets:
        raise Unsupported("no allowed_numbers lookup")
    for g in gets:
        if len(g.args) != 2:
            raise Unsupported("allowed_numbers lookup without fallback")
        fb = g.args[1]
        ok = (isinstance(fb, ast.Name) and fb.id == "DEFAULT_ALLOWED_NUMBERS") or (isinstance(fb, ast.Call) and fb in gets)
        if not ok:
            raise Unsupported(f"unexpected allowed_numbers fallback {ast.unparse(fb)}")
    hits = [st for st in cls.body if isinstance(st, ast.AnnAssign) and isinstance(st.target, ast.Name) and st.target.id == "allowed_numbers"]
    if len(hits) != 1 or "DEFAULT_ALLOWED_NUMBERS.copy()" not in ast.unparse(hits[0].value):
        raise Unsupported("dataclass default of allowed_numbers")
    keys = sorted({g.args[0].value for g in gets})
    return defn("cfg_key_allowed", "string", coq_string(keys[0]))


def _fallback_chain(e: ast.expr, key: str) -> list[str]:
    """lang_config.get(K, config.get(K, DEFAULT)) -> ["lang", "top", "default"]"""
    e = e.args[0] if isinstance(e, ast.Call) and isinstance(e.func, ast.Name) and e.func.id == "set" and len(e.args) == 1 else e
    if isinstance(e, ast.Call) and _is_method(e, "get") and isinstance(e.func.value, ast.Name) and e.func.value.id in ("lang_config", "config"):
        if not (len(e.args) == 2 and isinstance(e.args[0], ast.Constant) and e.args[0].value == key):
            raise Unsupported(f"lookup of another key inside the {key} fallback chain: {ast.unparse(e)}")
        return ["lang" if e.func.value.id == "lang_config" else "top"] + _fallback_chain(e.args[1], key)
    if isinstance(e, ast.Name) and e.id == "DEFAULT_ALLOWED_NUMBERS" and key == "allowed_numbers":
        return ["default"]
    if isinstance(e, ast.Constant) and isinstance(e.value, int) and key == "max_small_integer":
        return ["default"]
    raise Unsupported(f"unexpected {key} fallback {ast.unparse(e)}")


def fallback_chains():
    """the sources from_dict consults, in order, when the section of the file's language exists / does not exist"""
    f = find_func(find_class(parse(D + "config.py"), "MagicNumberConfig"), "from_dict")
    ifs = [st for st in f.body if isinstance(st, ast.If)]
    if not ifs or ast.unparse(ifs[0].test) != "language and language in config":
        raise Unsupported("from_dict: language test")
    br = ifs[0]
    if not (br.body and ast.unparse(br.body[0]) == "lang_config = config[language]"):
        raise Unsupported("from_dict: lang_config = config[language]")
    out = ""
    for which, body in (("lang", br.body), ("top", br.orelse)):
        for key, short in (("allowed_numbers", "allowed"), ("max_small_integer", "max_small")):
            hits = [st.value for st in body if isinstance(st, ast.Assign) and ast.unparse(st.targets[0]) == key]
            if len(hits) != 1:
                raise Unsupported(f"from_dict: assignment of {key} in the {which} branch")
            out += defn(f"cfg_{short}_chain_{which}", "list string", coq_str_list(_fallback_chain(hits[0], key)))
    langs = []
    g = find_func(parse("src/core/base.py"), "_dispatch_by_language")
    for n in ast.walk(g):
        if isinstance(n, ast.Attribute) and isinstance(n.value, ast.Name) and n.value.id == "Language":
            langs.append(n.attr)
    if sorted(langs) != sorted(["PYTHON", "TYPESCRIPT", "JAVASCRIPT", "RUST"]):
        raise Unsupported(f"language dispatch {langs}")
    langs = ["PYTHON", "TYPESCRIPT", "JAVASCRIPT", "RUST"]
    enum = find_class(parse("src/core/constants.py"), "Language")
    names = {st.targets[0].id: const_value(st.value) for st in enum.body if isinstance(st, ast.Assign)}
    return out + defn("cfg_language_keys", "list string", coq_str_list([names[k] for k in langs]))


def switches():
    """the `enabled` and `ignore` keys of the section and how a file is matched against an ignore pattern"""
    cls = find_class(parse(D + "config.py"), "MagicNumberConfig")
    f = find_func(cls, "from_dict")
    src = ast.unparse(f)
    if "enabled=config.get('enabled', True)" not in src:
        raise Unsupported("from_dict: enabled=config.get('enabled', True)")
    if "ignore_patterns = config.get('ignore', [])" not in src or "ignore=ignore_patterns" not in src \
            or "if not isinstance(ignore_patterns, list):" not in src:
        raise Unsupported("from_dict: ignore patterns")
    fld = [st for st in cls.body if isinstance(st, ast.AnnAssign) and isinstance(st.target, ast.Name) and st.target.id == "enabled"]
    if len(fld) != 1 or const_value(fld[0].value) is not True:
        raise Unsupported("dataclass default of enabled")
    chk = find_func(find_class(parse("src/core/base.py"), "MultiLanguageLintRule"), "check")
    flat = lambda node: " ".join(ast.unparse(node).split())
    if "if not config.enabled: return []" not in flat(chk):
        raise Unsupported("MultiLanguageLintRule.check: enabled test")
    rule = find_class(parse(D + "linter.py"), "MagicNumberRule")
    for fn in ("_check_python", "_check_typescript", "_check_rust"):
        if "if self._is_file_ignored(context, config): return []" not in flat(find_func(rule, fn)):
            raise Unsupported(f"{fn}: ignored-file test")
    ig = ast.unparse(find_func(rule, "_is_file_ignored"))
    if "return any((self._matches_pattern(file_path, pattern) for pattern in config.ignore))" not in ig:
        raise Unsupported("_is_file_ignored shape")
    m = find_func(rule, "_matches_pattern")
    modes = []
    for st in m.body:
        if isinstance(st, ast.If) and ast.unparse(st.body[0]) == "return True" and not st.orelse:
            t = ast.unparse(st.test)
            if t == "file_path.match(pattern)":
                modes.append("path_match")
            elif t == "pattern in str(file_path)":
                modes.append("substring")
            else:
                raise Unsupported(f"_matches_pattern: unexpected test {t}")
        elif isinstance(st, ast.Return) and ast.unparse(st) == "return False":
            continue
        elif isinstance(st, ast.Expr) and isinstance(st.value, ast.Constant):
            continue
        else:
            raise Unsupported(f"_matches_pattern: unexpected statement {ast.unparse(st)[:50]}")
    return (defn("cfg_key_enabled", "string", coq_string("enabled")) + defn("cfg_enabled_default", "bool", "true")
            + defn("cfg_key_ignore", "string", coq_string("ignore")) + defn("ignore_match_modes", "list string", coq_str_list(modes)))


def _generic_ignore(fn: ast.FunctionDef, var: str):
    """if M not in line: return False; after = line.split(M)[1].split(S)[0]; return B not in after  ->  (M, S, B)"""
    flat = " ".join(ast.unparse(fn).split())
    st = [x for x in fn.body if not (isinstance(x, ast.Expr) and isinstance(x.value, ast.Constant))]
    if len(st) != 3 or not isinstance(st[0], ast.If) or not isinstance(st[1], ast.Assign) or not isinstance(st[2], ast.Return):
        raise Unsupported(f"{fn.name}: shape")
    t = st[0].test
    if not (isinstance(t, ast.Compare) and isinstance(t.ops[0], ast.NotIn) and ast.unparse(t.comparators[0]) == var):
        raise Unsupported(f"{fn.name}: marker test")
    marker = const_value(t.left)
    v = st[1].value
    try:
        split = const_value(v.value.func.value.slice.value) if False else None
    except Exception:
        split = None
    src = ast.unparse(v)
    import re as _re
    m = _re.fullmatch(_re.escape(var) + r"\.split\((.+)\)\[1\]\.split\((.+)\)\[0\]", src)
    if not m or ast.literal_eval(m.group(1)) != marker:
        raise Unsupported(f"{fn.name}: after-part")
    sep = ast.literal_eval(m.group(2))
    r = st[2].value
    if not (isinstance(r, ast.Compare) and isinstance(r.ops[0], ast.NotIn) and ast.unparse(r.comparators[0]) == "after_ignore"):
        raise Unsupported(f"{fn.name}: bracket test")
    return marker, sep, const_value(r.left)


def directives():
    """the linter's own line-directive checks (next to the shared ignore parser): generic `thailint: ignore`, noqa, and the
    TypeScript rule-specific marker"""
    rule = find_class(parse(D + "linter.py"), "MagicNumberRule")
    flat = lambda node: " ".join(ast.unparse(node).split())
    if "if self._ignore_parser.should_ignore_violation(violation, context.file_content or ''): return True return self._check_generic_ignore(violation, context)" not in flat(find_func(rule, "_should_ignore")):
        raise Unsupported("_should_ignore shape")
    if "if self._has_generic_thailint_ignore(line_text): return True return has_python_noqa(line_text)" not in flat(find_func(rule, "_has_generic_ignore_directive")):
        raise Unsupported("_has_generic_ignore_directive shape")
    pm, ps, pb = _generic_ignore(find_func(rule, "_has_generic_thailint_ignore"), "line_text")
    vu = parse("src/core/violation_utils.py")
    def needle(fn):
        r = [st.value for st in find_func(vu, fn).body if isinstance(st, ast.Return)]
        if len(r) != 1 or not (isinstance(r[0], ast.Compare) and isinstance(r[0].ops[0], ast.In) and ast.unparse(r[0].comparators[0]) == "line_text"):
            raise Unsupported(f"{fn} shape")
        return const_value(r[0].left)
    if "return lines[violation.line - 1].lower()" not in flat(find_func(vu, "get_violation_line")):
        raise Unsupported("get_violation_line: lower-cased line")
    tsc = find_class(parse(D + "typescript_ignore_checker.py"), "TypeScriptIgnoreChecker")
    f = find_func(tsc, "_has_typescript_ignore_directive")
    st = [x for x in f.body if not (isinstance(x, ast.Expr) and isinstance(x.value, ast.Constant))]
    if len(st) != 3 or not all(isinstance(x, ast.If) for x in st[:2]) or flat(st[2]) != "return has_typescript_noqa(line_text)":
        raise Unsupported("_has_typescript_ignore_directive shape")
    t0 = st[0].test
    if not (isinstance(t0, ast.Compare) and isinstance(t0.ops[0], ast.In) and ast.unparse(t0.comparators[0]) == "line_text" and flat(st[0].body[0]) == "return True"):
        raise Unsupported("TypeScript specific marker")
    spec_marker = const_value(t0.left)
    t1 = st[1].test
    if not (isinstance(t1, ast.Compare) and isinstance(t1.ops[0], ast.In)):
        raise Unsupported("TypeScript generic marker")
    tm = const_value(t1.left)
    inner = flat(st[1])
    import re as _re
    m = _re.search(r"after_ignore = line_text\.split\((.+?)\)\[1\]\.split\((.+?)\)\[0\] if (.+?) not in after_ignore: return True", inner)
    if not m or ast.literal_eval(m.group(1)) != tm:
        raise Unsupported("TypeScript generic after-part")
    return (defn("py_dir_generic", "string * string * string", f"({coq_string(pm)}, {coq_string(ps)}, {coq_string(pb)})")
            + defn("py_dir_noqa", "string", coq_string(needle("has_python_noqa")))
            + defn("ts_dir_specific", "string", coq_string(spec_marker))
            + defn("ts_dir_generic", "string * string * string", f"({coq_string(tm)}, {coq_string(ast.literal_eval(m.group(2)))}, {coq_string(ast.literal_eval(m.group(3)))})")
            + defn("ts_dir_noqa", "string", coq_string(needle("has_typescript_noqa"))))


def max_small():
    cls = find_class(parse(D + "config.py"), "MagicNumberConfig")
    hits = [st for st in cls.body if isinstance(st, ast.AnnAssign) and isinstance(st.target, ast.Name) and st.target.id == "max_small_integer"]
    if len(hits) != 1:
        raise Unsupported("max_small_integer field")
    dflt = const_value(hits[0].value)
    fbs = []
    for rel in (D + "config.py", D + "context_analyzer.py"):
        for g in _calls(parse(rel), lambda n: _is_method(n, "get") and n.args and isinstance(n.args[0], ast.Constant) and n.args[0].value == "max_small_integer"):
            if len(g.args) != 2:
                raise Unsupported("max_small_integer lookup without fallback")
            fb = g.args[1]
            if isinstance(fb, ast.Call):
                continue  # nested config.get(...) counted on its own
            fbs.append(const_value(fb))
    if not isinstance(dflt, int) or not fbs or not all(isinstance(x, int) for x in fbs):
        raise Unsupported("max_small_integer defaults")
    return (defn("default_max_small_integer", "Z", zlit(dflt)) + defn("max_small_fallbacks", "list Z", coq_list([zlit(x) for x in fbs]))
            + defn("cfg_key_max_small", "string", coq_string("max_small_integer")))


def section_keys():
    f = find_func(find_class(parse(D + "linter.py"), "MagicNumberRule"), "_try_load_production_config")
    keys = []
    for n in ast.walk(f):
        if isinstance(n, ast.Compare) and len(n.ops) == 1 and isinstance(n.ops[0], ast.In) and ast.unparse(n.comparators[0]) == "metadata":
            keys.append(const_value(n.left))
    loads = [const_value(c.args[1]) for c in _calls(f, lambda n: isinstance(n.func, ast.Name) and n.func.id == "load_linter_config")]
    if not keys or keys != loads:
        raise Unsupported(f"metadata keys {keys} vs loaded {loads}")
    return defn("cfg_section_keys", "list string", coq_str_list(keys))


# ------------------------------------------------------------------ python_analyzer.py / context_analyzer.py
def _isinstance_types(call: ast.Call) -> list[str]:
    t = call.args[1]
    elts = t.elts if isinstance(t, ast.Tuple) else [t]
    out = []
    for e in elts:
        if isinstance(e, ast.Name):
            out.append(e.id)
        elif isinstance(e, ast.Attribute) and isinstance(e.value, ast.Name) and e.value.id == "ast":
            out.append(e.attr)
        else:
            raise Unsupported("isinstance type")
    return out


def _isinstance_with_exclusion(test: ast.expr, subject: str):
    """`isinstance(S, T)`  or  `isinstance(S, T) and not isinstance(S, E)` (possibly among other conjuncts that do not
    mention isinstance) -> (types T, excluded types E)"""
    conj = test.values if isinstance(test, ast.BoolOp) and isinstance(test.op, ast.And) else [test]
    pos, neg = [], []
    for c in conj:
        inner, negated = (c.operand, True) if isinstance(c, ast.UnaryOp) and isinstance(c.op, ast.Not) else (c, False)
        if isinstance(inner, ast.Call) and isinstance(inner.func, ast.Name) and inner.func.id == "isinstance":
            if ast.unparse(inner.args[0]) != subject:
                continue
            (neg if negated else pos).append(inner)
        elif "isinstance" in ast.unparse(c) and subject in ast.unparse(c):
            raise Unsupported(f"unexpected isinstance test {ast.unparse(c)}")
    if len(pos) != 1 or len(neg) > 1:
        raise Unsupported(f"isinstance tests on {subject}: {len(pos)} positive, {len(neg)} negated")
    return _isinstance_types(pos[0]), (_isinstance_types(neg[0]) if neg else [])


def py_numeric_types():
    f = find_func(find_class(parse(D + "python_analyzer.py"), "PythonMagicNumberAnalyzer"), "visit_Constant")
    ifs = [st for st in f.body if isinstance(st, ast.If)]
    if len(ifs) != 1 or ifs[0].orelse:
        raise Unsupported("visit_Constant: one if expected")
    types, excluded = _isinstance_with_exclusion(ifs[0].test, "node.value")
    rest = [c for c in (ifs[0].test.values if isinstance(ifs[0].test, ast.BoolOp) else [ifs[0].test]) if "isinstance" not in ast.unparse(c)]
    if rest:
        raise Unsupported(f"visit_Constant: extra condition {ast.unparse(rest[0])}")
    return defn("py_numeric_types", "list string", coq_str_list(types)) + defn("py_numeric_excluded", "list string", coq_str_list(excluded))


def _int_guard(fn: ast.FunctionDef) -> list[str]:
    st = [s for s in fn.body if not (isinstance(s, ast.Expr) and isinstance(s.value, ast.Constant))][0]
    if not (isinstance(st, ast.If) and isinstance(st.test, ast.UnaryOp) and isinstance(st.test.op, ast.Not)
            and isinstance(st.test.operand, ast.Call) and ast.unparse(st.test.operand.func) == "isinstance"
            and ast.unparse(st.test.operand.args[0]) == "node.value" and ast.unparse(st.body[0]) == "return False"):
        raise Unsupported(f"{fn.name}: first statement is not the int guard")
    return _isinstance_types(st.test.operand)


def py_context_guards():
    mod = parse(D + "context_analyzer.py")
    out = ""
    for short, fn in (("range", "is_small_integer_in_range"), ("enumerate", "is_small_integer_in_enumerate"), ("strrep", "is_string_repetition")):
        out += defn(f"py_{short}_value_types", "list string", coq_str_list(_int_guard(find_func(mod, fn))))
    return out


def _small_bounds(fn: ast.FunctionDef):
    hits = [n for n in ast.walk(fn) if isinstance(n, ast.Compare) and len(n.ops) == 2]
    if len(hits) != 1:
        raise Unsupported(f"{fn.name}: bounds comparison")
    c = hits[0]
    if not (ast.unparse(c.comparators[0]) == "node.value" and ast.unparse(c.comparators[1]) == "max_small_int"
            and type(c.ops[0]) in CMP and type(c.ops[1]) in CMP):
        raise Unsupported(f"{fn.name}: bounds comparison shape")
    par = [n for n in ast.walk(fn) if isinstance(n, ast.UnaryOp) and isinstance(n.op, ast.Not) and n.operand is c]
    if len(par) != 1:
        raise Unsupported(f"{fn.name}: bounds comparison is not negated")
    lo = const_value(c.left)
    if not isinstance(lo, int):
        raise Unsupported("lower bound")
    return lo, CMP[type(c.ops[0])], CMP[type(c.ops[1])]


def py_small_bounds():
    mod = parse(D + "context_analyzer.py")
    out = ""
    for short, fn in (("range", "is_small_integer_in_range"), ("enumerate", "is_small_integer_in_enumerate")):
        lo, c1, c2 = _small_bounds(find_func(mod, fn))
        out += defn(f"py_{short}_lo", "Z", zlit(lo)) + defn(f"py_{short}_lo_cmp", "cmp", c1) + defn(f"py_{short}_hi_cmp", "cmp", c2)
    return out


def _call_name(fn: ast.FunctionDef) -> str:
    hits = [n for n in ast.walk(fn) if isinstance(n, ast.Compare) and ast.unparse(n.left) == "parent.func.id" and isinstance(n.ops[0], ast.Eq)]
    if len(hits) != 1:
        raise Unsupported(f"{fn.name}: func id comparison")
    src = ast.unparse(fn)
    if "isinstance(parent, ast.Call)" not in src or "isinstance(parent.func, ast.Name)" not in src:
        raise Unsupported(f"{fn.name}: call shape")
    return const_value(hits[0].comparators[0])


def py_call_names():
    mod = parse(D + "context_analyzer.py")
    return (defn("py_range_name", "string", coq_string(_call_name(find_func(mod, "_is_in_range_call"))))
            + defn("py_enumerate_name", "string", coq_string(_call_name(find_func(mod, "_is_in_enumerate_call")))))


def py_const_name():
    f = find_func(parse(D + "context_analyzer.py"), "_is_constant_name")
    ret = [s for s in f.body if isinstance(s, ast.Return)]
    if len(ret) != 1 or not isinstance(ret[0].value, ast.BoolOp) or not isinstance(ret[0].value.op, ast.And) or len(ret[0].value.values) != 2:
        raise Unsupported("_is_constant_name shape")
    a, b = ret[0].value.values
    if ast.unparse(a) != "name.isupper()" or not isinstance(b, ast.Compare) or ast.unparse(b.left) != "len(name)":
        raise Unsupported("_is_constant_name shape")
    n = const_value(b.comparators[0])
    g = find_func(parse(D + "context_analyzer.py"), "_is_assignment_node")
    t = [c for c in _calls(g, lambda n: isinstance(n.func, ast.Name) and n.func.id == "isinstance")]
    if len(t) != 1:
        raise Unsupported("_is_assignment_node")
    return (defn("py_const_len_cmp", "cmp", cmp_op(b)) + defn("py_const_len", "nat", str(int(n)))
            + defn("py_const_parent_types", "list string", coq_str_list(_isinstance_types(t[0]))))


def py_test_file():
    f = find_func(parse(D + "context_analyzer.py"), "is_test_file")
    ret = [s for s in f.body if isinstance(s, ast.Return)][-1].value
    if not (isinstance(ret, ast.BoolOp) and isinstance(ret.op, ast.Or) and len(ret.values) == 2):
        raise Unsupported("is_test_file shape")
    a, b = ret.values
    if not (isinstance(a, ast.Call) and ast.unparse(a.func) == "file_path.name.startswith" and len(a.args) == 1):
        raise Unsupported("is_test_file prefix test")
    if not (isinstance(b, ast.Compare) and isinstance(b.ops[0], ast.In) and ast.unparse(b.comparators[0]) == "file_path.name"):
        raise Unsupported("is_test_file infix test")
    return defn("py_test_prefix", "string", coq_string(const_value(a.args[0]))) + defn("py_test_infix", "string", coq_string(const_value(b.left)))


def py_strrep():
    f = find_func(parse(D + "context_analyzer.py"), "is_string_repetition")
    hits = [c for c in _calls(f, lambda n: isinstance(n.func, ast.Name) and n.func.id == "isinstance") if ast.unparse(c.args[0]) in ("parent", "parent.op")]
    kinds = {ast.unparse(c.args[0]): _isinstance_types(c) for c in hits}
    if set(kinds) != {"parent", "parent.op"}:
        raise Unsupported("is_string_repetition shape")
    g = find_func(parse(D + "context_analyzer.py"), "_has_string_operand")
    if ast.unparse([s for s in g.body if isinstance(s, ast.Return)][0].value) != "_is_string_constant(binop.left) or _is_string_constant(binop.right)":
        raise Unsupported("_has_string_operand shape")
    return defn("py_strrep_parent_types", "list string", coq_str_list(kinds["parent"])) + defn("py_strrep_op_types", "list string", coq_str_list(kinds["parent.op"]))


# ------------------------------------------------------------------ typescript_analyzer.py / linter.py
def _eq_type(fn: ast.FunctionDef, left: str) -> str:
    hits = [n for n in ast.walk(fn) if isinstance(n, ast.Compare) and ast.unparse(n.left) == left and isinstance(n.ops[0], ast.Eq)]
    if len(hits) != 1:
        raise Unsupported(f"{fn.name}: {left} == ...")
    return const_value(hits[0].comparators[0])


def _in_types(fn: ast.FunctionDef, left: str) -> list[str]:
    hits = [n for n in ast.walk(fn) if isinstance(n, ast.Compare) and ast.unparse(n.left) == left and isinstance(n.ops[0], ast.In)]
    if len(hits) != 1:
        raise Unsupported(f"{fn.name}: {left} in ...")
    return str_elems(hits[0].comparators[0])


def ts_types():
    cls = find_class(parse(D + "typescript_analyzer.py"), "TypeScriptMagicNumberAnalyzer")
    return (defn("ts_number_type", "string", coq_string(_eq_type(find_func(cls, "_collect_numeric_literals"), "node.type")))
            + defn("ts_enum_type", "string", coq_string(_eq_type(find_func(cls, "is_enum_context"), "current.type")))
            + defn("ts_decl_types", "list string", coq_str_list(_in_types(find_func(cls, "_is_declaration_type"), "node.type")))
            + defn("ts_ident_types", "list string", coq_str_list(_in_types(find_func(cls, "_find_identifier_in_declaration"), "child.type"))))


def ts_int_path():
    """_extract_numeric_value, two accepted shapes:
         if "." not in text and "e" not in text.lower(): return int(text, 0)
       and
         if text.endswith(S): text = text[:-len(S)]
         lowered = text.lower()
         if lowered.startswith((P...)) or ("." not in text and "e" not in lowered): return int(text, 0)
       followed by `return float(text)`"""
    f = find_func(find_class(parse(D + "typescript_analyzer.py"), "TypeScriptMagicNumberAnalyzer"), "_extract_numeric_value")
    tries = [st for st in f.body if isinstance(st, ast.Try)]
    if len(tries) != 1:
        raise Unsupported("_extract_numeric_value: try")
    body = list(tries[0].body)
    suffixes, prefixes, lowered_alias = [], [], False
    if body and isinstance(body[0], ast.If) and ast.unparse(body[0].test).startswith("text.endswith("):
        st = body.pop(0)
        suf = const_value(st.test.args[0])
        if not (isinstance(suf, str) and suf and len(st.body) == 1 and ast.unparse(st.body[0]) == f"text = text[:-{len(suf)}]" and not st.orelse):
            raise Unsupported("_extract_numeric_value: suffix stripping shape")
        suffixes = [suf]
    if body and ast.unparse(body[0]) == "lowered = text.lower()":
        body.pop(0)
        lowered_alias = True
    if len(body) != 2 or not isinstance(body[0], ast.If) or body[0].orelse or ast.unparse(body[0].body[0]) != "return int(text, 0)" \
            or ast.unparse(body[1]) != "return float(text)":
        raise Unsupported("_extract_numeric_value: int / float paths")
    test = body[0].test
    if isinstance(test, ast.BoolOp) and isinstance(test.op, ast.Or):
        if len(test.values) != 2 or not lowered_alias:
            raise Unsupported("_extract_numeric_value: disjunction shape")
        pre, test = test.values
        if not (isinstance(pre, ast.Call) and ast.unparse(pre.func) == "lowered.startswith" and len(pre.args) == 1):
            raise Unsupported("_extract_numeric_value: prefix test")
        prefixes = str_elems(pre.args[0]) if isinstance(pre.args[0], ast.Tuple) else [const_value(pre.args[0])]
        if any(p != p.lower() for p in prefixes):
            raise Unsupported("upper-case prefix tested against lowered text")
    if not isinstance(test, ast.BoolOp) or not isinstance(test.op, ast.And):
        raise Unsupported("_extract_numeric_value: needle test")
    needles = []
    for t in test.values:
        if not (isinstance(t, ast.Compare) and isinstance(t.ops[0], ast.NotIn)):
            raise Unsupported("int-path test")
        hay = ast.unparse(t.comparators[0])
        if hay not in (("text", "lowered") if lowered_alias else ("text", "text.lower()")):
            raise Unsupported("int-path haystack")
        needles.append(f"({coq_string(const_value(t.left))}, {'true' if hay != 'text' else 'false'})")
    return (defn("ts_int_path_needles", "list (string * bool)", coq_list(needles))
            + defn("ts_int_prefixes", "list string", coq_str_list(prefixes)) + defn("ts_bigint_suffixes", "list string", coq_str_list(suffixes)))


def ts_test_markers():
    f = find_func(find_class(parse(D + "linter.py"), "MagicNumberRule"), "_is_test_file")
    gens = [n for n in ast.walk(f) if isinstance(n, ast.GeneratorExp)]
    if len(gens) != 1 or ast.unparse(gens[0].elt) != "pattern in path_str":
        raise Unsupported("_is_test_file shape")
    return defn("ts_test_markers", "list string", coq_str_list(str_elems(gens[0].generators[0].iter)))


# ------------------------------------------------------------------ rust_analyzer.py / rust_context.py
def rs_types():
    cls = find_class(parse(D + "rust_analyzer.py"), "RustMagicNumberAnalyzer")
    f = find_func(cls, "_extract_numeric_value")
    src = ast.unparse(f)
    for needed in ("cleaned = self._strip_type_suffix(text)", "cleaned = cleaned.replace('_', '')", "return float(cleaned)", "return int(cleaned, 0)"):
        if needed not in src:
            raise Unsupported(f"_extract_numeric_value: missing `{needed}`")
    return (defn("rs_numeric_types", "list string", coq_str_list(str_elems(find_assign(cls, "NUMERIC_LITERAL_TYPES"))))
            + defn("rs_float_type", "string", coq_string(_eq_type(f, "node.type")))
            + defn("rs_const_types", "list string", coq_str_list(_in_types(find_func(cls, "is_constant_definition"), "current.type"))))


def rs_suffixes():
    """_strip_type_suffix, two accepted shapes: the plain loop, and the loop that skips suffixes starting with K for a
    literal whose first two characters (lowered) are one of P"""
    f = find_func(find_class(parse(D + "rust_analyzer.py"), "RustMagicNumberAnalyzer"), "_strip_type_suffix")
    body = [st for st in f.body if not (isinstance(st, ast.Expr) and isinstance(st.value, ast.Constant))]
    if not (body and isinstance(body[0], ast.Assign) and ast.unparse(body[0].targets[0]) == "suffixes"):
        raise Unsupported("suffixes tuple")
    table = str_elems(body[0].value)
    rest = body[1:]
    markers, skip = [], []
    if rest and isinstance(rest[0], ast.Assign) and ast.unparse(rest[0].targets[0]) == "prefixed":
        v = rest[0].value
        if not (isinstance(v, ast.Compare) and isinstance(v.ops[0], ast.In) and ast.unparse(v.left) == "text[:2].lower()"):
            raise Unsupported("prefixed = ... shape")
        markers = str_elems(v.comparators[0])
        if any(len(m) != 2 or m != m.lower() for m in markers):
            raise Unsupported("prefix markers")
        rest = rest[1:]
    if len(rest) != 2 or not isinstance(rest[0], ast.For) or ast.unparse(rest[0].iter) != "suffixes" or ast.unparse(rest[1]) != "return text":
        raise Unsupported("_strip_type_suffix loop")
    loop = list(rest[0].body)
    if markers:
        st = loop.pop(0)
        if not (isinstance(st, ast.If) and isinstance(st.test, ast.BoolOp) and isinstance(st.test.op, ast.And) and len(st.test.values) == 2
                and ast.unparse(st.test.values[0]) == "prefixed" and ast.unparse(st.test.values[1].func) == "suffix.startswith"
                and len(st.body) == 1 and isinstance(st.body[0], ast.Continue) and not st.orelse):
            raise Unsupported("skip test shape")
        skip = [const_value(st.test.values[1].args[0])]
    if len(loop) != 1 or ast.unparse(loop[0]).replace("\n", " ").split() != "if text.endswith(suffix): return text[:-len(suffix)]".split():
        raise Unsupported("_strip_type_suffix shape")
    return (defn("rs_suffixes", "list string", coq_str_list(table)) + defn("rs_prefixed_markers", "list string", coq_str_list(markers))
            + defn("rs_prefixed_skip", "list string", coq_str_list(skip)))


def rs_context():
    mod = parse("src/analyzers/rust_context.py")
    out = ""
    for name, fn in (("rs_test_attr_needle", "has_test_attribute"), ("rs_cfg_test_needle", "has_cfg_test_attribute")):
        f = find_func(mod, fn)
        hits = [n for n in ast.walk(f) if isinstance(n, ast.Compare) and isinstance(n.ops[0], ast.In) and ast.unparse(n.comparators[0]) == "_get_node_text(prev_sibling)"]
        if len(hits) != 1:
            raise Unsupported(f"{fn}: needle test")
        out += defn(name, "string", coq_string(const_value(hits[0].left)))
        if _eq_type(f, "prev_sibling.type") != "attribute_item":
            raise Unsupported(f"{fn}: attribute_item")
    f = find_func(mod, "_is_test_context")
    tys = [const_value(n.comparators[0]) for n in ast.walk(f) if isinstance(n, ast.Compare) and ast.unparse(n.left) == "node.type"]
    calls = [ast.unparse(s.value) for s in ast.walk(f) if isinstance(s, ast.Return) and isinstance(s.value, ast.Call)]
    if len(tys) != 2 or calls != ["has_test_attribute(node)", "has_cfg_test_attribute(node)"]:
        raise Unsupported("_is_test_context shape")
    return out + defn("rs_test_fn_type", "string", coq_string(tys[0])) + defn("rs_test_mod_type", "string", coq_string(tys[1]))


# ------------------------------------------------------------------ definition_detector.py
def definition_detector():
    mod = parse(D + "definition_detector.py")
    mu, md = const_value(find_assign(mod, "MIN_UPPERCASE_CONSTANTS")), const_value(find_assign(mod, "MIN_DICT_INT_KEYS"))
    f = find_func(mod, "_has_definition_content_patterns")
    c1 = [n for n in ast.walk(f) if isinstance(n, ast.Compare) and ast.unparse(n.comparators[0]) == "MIN_UPPERCASE_CONSTANTS"]
    g = find_func(mod, "_has_enough_int_keys")
    c2 = [n for n in ast.walk(g) if isinstance(n, ast.Compare) and ast.unparse(n.comparators[0]) == "MIN_DICT_INT_KEYS"]
    if len(c1) != 1 or len(c2) != 1 or not isinstance(mu, int) or not isinstance(md, int):
        raise Unsupported("thresholds")
    h = find_func(mod, "_matches_definition_filename")
    pats = []
    for n in ast.walk(h):
        if isinstance(n, ast.Call) and ast.unparse(n.func) == "file_name.endswith":
            pats.append(f"(true, {coq_string(const_value(n.args[0]))})")
        elif isinstance(n, ast.Compare) and ast.unparse(n.left) == "file_name" and isinstance(n.ops[0], ast.Eq):
            pats.append(f"(false, {coq_string(const_value(n.comparators[0]))})")
    if "file_name = Path(file_path).name.lower()" not in ast.unparse(h) or not pats:
        raise Unsupported("_matches_definition_filename shape")
    k = find_func(mod, "_is_constant_name")
    rx = [c for c in _calls(k, lambda n: ast.unparse(n.func) == "re.match")]
    ln = [n for n in ast.walk(k) if isinstance(n, ast.Compare) and ast.unparse(n.left) == "len(name)"]
    if len(rx) != 1 or len(ln) != 1:
        raise Unsupported("_is_constant_name (definition detector)")
    def ret_test(fn_name, subject, outer):
        fn = find_func(mod, fn_name)
        rets = [st.value for st in fn.body if isinstance(st, ast.Return)]
        if len(rets) != 1 or not isinstance(rets[0], ast.BoolOp) or not isinstance(rets[0].op, ast.And) or ast.unparse(rets[0].values[0]) != outer:
            raise Unsupported(f"{fn_name}: return shape")
        if len(rets[0].values) > 3:
            raise Unsupported(f"{fn_name}: extra conjunct")
        return _isinstance_with_exclusion(ast.BoolOp(op=ast.And(), values=rets[0].values[1:]), subject)
    tn, tn_ex = ret_test("_is_numeric_constant", "value.value", "isinstance(value, ast.Constant)")
    ti, ti_ex = ret_test("_is_int_key", "key.value", "isinstance(key, ast.Constant)")
    return (defn("def_min_upper", "nat", str(mu)) + defn("def_min_upper_cmp", "cmp", cmp_op(c1[0]))
            + defn("def_min_dict", "nat", str(md)) + defn("def_min_dict_cmp", "cmp", cmp_op(c2[0]))
            + defn("def_name_patterns", "list (bool * string)", coq_list(pats))
            + defn("def_const_regex", "string", coq_string(const_value(rx[0].args[0])))
            + defn("def_const_short_cmp", "cmp", cmp_op(ln[0])) + defn("def_const_short_len", "nat", str(int(const_value(ln[0].comparators[0]))))
            + defn("def_numeric_types", "list string", coq_str_list(tn)) + defn("def_numeric_excluded", "list string", coq_str_list(tn_ex))
            + defn("def_int_key_types", "list string", coq_str_list(ti)) + defn("def_int_key_excluded", "list string", coq_str_list(ti_ex)))


# ------------------------------------------------------------------ violation_builder.py
def messages():
    cls = find_class(parse(D + "violation_builder.py"), "ViolationBuilder")
    out = ""
    for lang, fn in (("py", "create_violation"), ("ts", "create_typescript_violation"), ("rs", "create_rust_violation")):
        f = find_func(cls, fn)
        msg = [s.value for s in f.body if isinstance(s, ast.Assign) and ast.unparse(s.targets[0]) == "message"]
        kws = [k for n in ast.walk(f) if isinstance(n, ast.Call) for k in n.keywords if k.arg in ("message", "line")]
        if len(msg) != 1 or sorted(ast.unparse(k.value) for k in kws) != ["line", "message"]:
            raise Unsupported(f"{fn}: message / line")
        parts = fstring_parts(msg[0])
        if [k for k, _ in parts] != ["lit", "var", "lit"] or parts[1][1] not in ("value", "_show(value)"):
            raise Unsupported(f"{fn}: message shape")
        if parts[1][1] == "_show(value)":
            sh = find_func(parse(D + "violation_builder.py"), "_show")
            tr = [st for st in sh.body if isinstance(st, ast.Try)]
            if len(tr) != 1 or ast.unparse(tr[0].body[0]) != "return str(value)":
                raise Unsupported("_show: str(value) first")
        out += defn(f"{lang}_msg_prefix", "string", coq_string(parts[0][1])) + defn(f"{lang}_msg_suffix", "string", coq_string(parts[2][1]))
    rid = find_func(find_class(parse(D + "linter.py"), "MagicNumberRule"), "rule_id")
    r = [s.value for s in rid.body if isinstance(s, ast.Return)]
    return out + defn("magic_rule_id", "string", coq_string(const_value(r[0])))


ITEMS = [
    ("default_allowed_numbers", default_allowed),
    ("allowed_fallbacks", allowed_fallbacks),
    ("max_small", max_small),
    ("fallback_chains", fallback_chains),
    ("switches", switches),
    ("directives", directives),
    ("cfg_section_keys", section_keys),
    ("py_numeric_types", py_numeric_types),
    ("py_context_guards", py_context_guards),
    ("py_small_bounds", py_small_bounds),
    ("py_call_names", py_call_names),
    ("py_const_name", py_const_name),
    ("py_test_file", py_test_file),
    ("py_strrep", py_strrep),
    ("ts_types", ts_types),
    ("ts_int_path", ts_int_path),
    ("ts_test_markers", ts_test_markers),
    ("rs_types", rs_types),
    ("rs_suffixes", rs_suffixes),
    ("rs_context", rs_context),
    ("definition_detector", definition_detector),
    ("messages", messages),
]
